"""C12 - instruction read/write information covers what the CPU really does.

Runtime monitor (drv_rw):
  W  every executable database form x several register assignments x N random machine images is assembled by
     x86::Assembler and executed natively between a prologue/epilogue that load/store a full machine image
     (GP, RFLAGS, x87/MMX, ZMM0-31, k0-7, guarded memory arena); every changed byte / flag must be covered by what
     InstAPI::query_rw_info reported (operand written, byte masks incl. zero extension, memory, flags).
  R  all state reported as NOT read is changed and the instruction re-run: defined results must be identical; changed
     state may differ only as a pass-through.
  M  every register operand flagged kRegMem/rm_size: memory form validates, assembles and computes the same.
     Encodability half also without execution for every register-only form (all extensions, 32-bit forms) and with the
     BaseInst options the form supports: {sae}, {rn|rd|ru|rz-sae}, each also with {k} / {k}{z} (drv_rw --mode rmopt).
  F  reported features all on the host => no SIGILL; reported features include the database `ext` of the encoded form.
  C  consecutive_lead_count for x86 register runs and AArch64 register lists.
  T  API answers vs. database record for every form (ASan build, nothing executed) + tables regenerated with node on a
     scratch copy must be byte-identical to the tree's.
"""
import collections
import json
import os
import re
import shutil
import subprocess
import time

from vlib import build, common, isadb, rwgen
from vlib import x86gen as G

WORK = os.path.join(build.CACHE, "c12-work")
PREFIX_ENC = {"": "legacy", "VEX": "vex", "EVEX": "evex", "XOP": "xop"}
# features whose presence in CPUID does not imply that user code may execute the instructions (OS / hypervisor enablement
# is not visible to CpuInfo): a SIGILL there is no verdict
NEEDS_ENABLEMENT = {"CET_SS", "CET_IBT", "UINTR", "AMX_TILE", "AMX_BF16", "AMX_INT8", "OSPKE", "WAITPKG", "TSXLDTRK", "RTM", "HRESET", "KL", "AESKLE"}


def workdir(chk):
    d = os.path.join(WORK, "%d-%d" % (os.getpid(), chk.seed))
    shutil.rmtree(d, ignore_errors=True)
    os.makedirs(d)
    return d


def host_info(exe):
    rc, out, err = common.run_child([exe, "--mode", "host"], timeout=60)
    if rc != 0:
        raise common.HarnessError("drv_rw --mode host failed: %s" % err[-300:])
    return json.loads(out.decode())


def write_lines(path, lines):
    with open(path, "w") as fh:
        fh.write("\n".join(lines))
        fh.write("\n")


# ---------------------------------------------------------------------------------------------------------------------
# T1: regenerate the tables from the database with the repository's own generators (scratch copy)

def tablegen_differential(chk):
    scratch = "/var/tmp/verif-scratch-c12-tg-%d" % os.getpid()   # (per process: concurrent runs of this check must not share it)
    shutil.rmtree(scratch, ignore_errors=True)
    os.makedirs(scratch)
    res = {}
    try:
        for d in ("asmjit", "db", "tools"):
            shutil.copytree(os.path.join(common.REPO, d), os.path.join(scratch, d), symlinks=True)
        for script, target in (("tablegen-x86.js", "asmjit/x86/x86instdb.cpp"), ("tablegen-a64.js", "asmjit/arm/a64instdb.cpp")):
            p = subprocess.run(["node", script], cwd=os.path.join(scratch, "tools"), stdout=subprocess.PIPE, stderr=subprocess.STDOUT, timeout=300)
            if p.returncode != 0:
                raise common.HarnessError("%s failed on the scratch copy: %s" % (script, p.stdout.decode()[-600:]))
            a = open(os.path.join(common.REPO, target), "rb").read()
            b = open(os.path.join(scratch, target), "rb").read()
            res[target] = a == b
            if a != b:
                al, bl = a.decode("utf-8", "replace").splitlines(), b.decode("utf-8", "replace").splitlines()
                first = next((i for i, (x, y) in enumerate(zip(al, bl)) if x != y), min(len(al), len(bl)))
                nd = sum(1 for x, y in zip(al, bl) if x != y) + abs(len(al) - len(bl))
                chk.violation("T:tablegen:%s:differs-from-regenerated" % os.path.basename(target),
                              "%s differs from the output of tools/%s run on the tree's own db/: %d lines differ, first at line %d: tree `%s` vs regenerated `%s`" %
                              (target, script, nd, first + 1, al[first][:160] if first < len(al) else "", bl[first][:160] if first < len(bl) else ""),
                              {"mode": "tablegen"})
    finally:
        shutil.rmtree(scratch, ignore_errors=True)
    return res


# ---------------------------------------------------------------------------------------------------------------------
# T2 / C / F-superset: API answers vs. database record, nothing executed (ASan build)

def table_cases(forms, rng, tier):
    gen = G.Gen(rng)
    gen.canonical = True
    cases = []
    evex_names = set(f["name"] for f in forms if f["prefix"] == "EVEX")
    for f in forms:
        modes = [64] if f["arch"] in ("ANY", "X64") else [32]
        if tier == "thorough" and f["arch"] == "ANY":
            modes.append(32)
        rm = any(o["reg"] and o["mem"] for o in f["operands"])
        for mode in modes:
            for want_mem in ([False, True] if rm else [False]):
                for masked in ([False, True] if f.get("kmask") else [False]):
                    ops = gen.instantiate(f, mode, want_mem)
                    if ops is None:
                        continue
                    # distinct register ids make operand roles unambiguous
                    opts = G.OPT_EVEX if f["prefix"] == "EVEX" else 0
                    c = gen.new_case(f, mode, ops, "mem" if want_mem else "reg", opts, ("k", 3) if masked else None)
                    c["masked"] = masked
                    cases.append(c)
                    # {vex} / {vex3}: the VEX form of an instruction that also has an EVEX form, asked for explicitly (instructions
                    # that prefer EVEX - AVX_VNNI, AVX_IFMA, AVX_NE_CONVERT twins - are encoded as EVEX without the option, and
                    # query_features has to follow the option exactly as the assembler does)
                    if f["prefix"] == "VEX" and f["name"] in evex_names and not masked:
                        for vtag, vbit in (("vex", G.OPT_VEX), ("vex3", G.OPT_VEX3)):
                            vc = gen.new_case(f, mode, list(ops), ("mem" if want_mem else "reg") + "+" + vtag, vbit, None)
                            vc["masked"] = False
                            vc["vexopt"] = vtag
                            cases.append(vc)
                    # boundary of the upper vector bank: exactly one vector register operand gets id 16 / 31 and the
                    # {evex} hint is NOT given - the assembler must pick EVEX by itself and query_features must follow
                    if f["prefix"] == "EVEX" and mode == 64 and not masked:
                        vec_pos = [i for i, op in enumerate(ops) if op[0] == "R" and op[1] in ("xmm", "ymm", "zmm")][:3]
                        for i in vec_pos:
                            for hid in (16, 31):
                                hops = list(ops)
                                hops[i] = ("R", ops[i][1], hid)
                                hc = gen.new_case(f, mode, hops, ("mem" if want_mem else "reg") + "-hi%d@%d" % (hid, i), 0, None)
                                hc["masked"] = False
                                cases.append(hc)
    return cases


MM_CODE = {"0F": 1, "0F38": 2, "0F3A": 3, "MAP4": 4, "MAP5": 5, "MAP6": 6, "MAP7": 7}
PP_CODE = {"": 0, "66": 1, "F3": 2, "F2": 3}


def same_encoding(f, r):
    """does the emitted encoding belong to this database form (prefix class, opcode map, pp, opcode byte)?"""
    enc = PREFIX_ENC.get(f["prefix"])
    if enc is None or r["enc"] != enc or not r["bytes"]:
        return False
    b = bytes.fromhex(r["bytes"])
    op = f["opcode"]
    try:
        want = int(op["byte"], 16)
    except (ValueError, TypeError):
        return False
    i = 0
    while i < len(b) and b[i] in (0x66, 0xF2, 0xF3, 0x67, 0x2E, 0x36, 0x3E, 0x26, 0x64, 0x65, 0xF0):
        i += 1
    if enc == "legacy":
        seq = bytes.fromhex({"": "", "0F": "0f", "0F38": "0f38", "0F3A": "0f3a"}.get(op["mm"], "ff")) + bytes([want])
        j = i
        if j < len(b) and 0x40 <= b[j] <= 0x4F:
            j += 1
        if op.get("ri"):
            k = j + len(seq) - 1
            return k < len(b) and b[j:k] == seq[:-1] and (b[k] & 0xF8) == (want & 0xF8)
        return b[j:j + len(seq)] == seq
    try:
        if enc == "evex":
            mm, pp, opc = b[i + 1] & 7, b[i + 2] & 3, b[i + 4]
        elif b[i] == 0xC5:
            mm, pp, opc = 1, b[i + 1] & 3, b[i + 2]
        else:
            mm, pp, opc = b[i + 1] & 31, b[i + 2] & 3, b[i + 3]
    except IndexError:
        return False
    if enc == "xop":
        return opc == want
    return mm == MM_CODE.get(op["mm"], -1) and pp == PP_CODE.get(op["pp"], -1) and opc == want


def mask_of(index, width):
    if index is None or width is None or index < 0 or width <= 0:
        return 0
    lo, hi = index // 8, (index + width - 1) // 8
    m = 0
    for b in range(lo, min(hi, 63) + 1):
        m |= 1 << b
    return m


ALLOC_TYPES = ("gp8lo", "gp8hi", "gp16", "gp32", "gp64", "xmm", "ymm", "zmm", "k", "mm")


def judge_phys(chk, f, c, r, kb, replay, stats, fixed_pos, phys_names):
    """fixed / implicit registers: kRegPhysId / kMemPhysId / phys_id against the database operand AND against the assembler
    (a flagged operand must be accepted with the register phys_id; an operand that is not flagged must be accepted with another
    register: that is how the register allocator reads the flag). Allocatable register groups and memory base registers only."""
    pa = {x[0]: x for x in r.get("pa", [])}
    line = G.case_line(c)
    rels = [(o.get("regIndexRel") or 0) for o in f["operands"]]
    for i, o in enumerate(f["operands"]):
        if i >= len(r["ops"]) - 1 or i >= len(c["ops"]):
            continue
        op = c["ops"][i]
        flags, phys = r["ops"][i][0], r["ops"][i][6]
        rec = pa.get(i)
        if op[0] == "R":
            if op[1] not in ALLOC_TYPES:
                continue
            flagged = bool(flags & 0x100)
            dbfixed = o["reg"] in G.FIXED_REGS and G.FIXED_REGS[o["reg"]][0] in ALLOC_TYPES
            in_run = bool(rels[i]) or (i + 1 < len(rels) and bool(rels[i + 1]))
            what, passed = "register", op[2]
            role = "op%d" % i
        elif op[0] == "M":
            base = op[1].get("base")
            if not base or base[0] not in ("gp16", "gp32", "gp64"):
                continue
            flagged = bool(flags & 0x200)
            dbfixed = rwgen.implicit_base(f, o) is not None or f["name"] in ("xlatb", "clzero", "monitor", "monitorx", "umonitor")
            in_run = False
            what, passed = "base register", base[1]
            role = "op%d:base" % i
        else:
            continue
        stats["phys:operands-examined"] += 1
        if dbfixed:
            stats["phys:db-fixed-operands"] += 1
        if flagged:
            stats["phys:flagged"] += 1
            phys_names.add(f["name"])
            if phys == passed:
                if dbfixed:
                    stats["phys:flagged-id-equals-db-register"] += 1
                elif (f["name"], len(f["operands"]), i) in fixed_pos:
                    stats["phys:free-operand-flagged-table-row-shared-with-a-fixed-form-not-judged"] += 1
                else:
                    chk.violation("T:%s:%s:free-operand-reported-fixed" % (kb, role), "database: operand %d (%s) is a free %s in every %d-operand form of %s; query_rw_info flags it %s with phys_id=%d for %s" %
                                  (i, o["data"], what, len(f["operands"]), f["name"], "kRegPhysId" if op[0] == "R" else "kMemPhysId", phys, line), replay)
                continue
            err = rec[3] if rec else -1
            if dbfixed:
                chk.violation("T:%s:%s:phys-id-differs-from-db" % (kb, role), "database: operand %d (%s) is the fixed %s id %d (the assembler encodes %s with it); query_rw_info reports phys_id=%d (assembler with that register: error %s) for %s" %
                              (i, o["data"], what, passed, r["bytes"], phys, err, line), replay)
            elif err != 0:
                chk.violation("T:%s:%s:phys-id-not-accepted" % (kb, role), "operand %d (%s) is flagged as fixed to %s id %d, but the assembler rejects the instruction with that register (error %s) while it encodes %s as %s" %
                              (i, o["data"], what, phys, err, line, r["bytes"]), replay)
            elif (f["name"], len(f["operands"]), i) in fixed_pos:
                stats["phys:free-operand-flagged-table-row-shared-with-a-fixed-form-not-judged"] += 1
            else:
                chk.violation("T:%s:%s:free-operand-reported-fixed" % (kb, role), "database: operand %d (%s) is a free %s in every %d-operand form of %s; query_rw_info flags it fixed to id %d for %s" %
                              (i, o["data"], what, len(f["operands"]), f["name"], phys, line), replay)
            continue
        # not flagged: any register of the class must do
        if in_run:
            stats["phys:consecutive-run-members-not-probed"] += 1
            continue
        if rec is None:
            stats["phys:unflagged-no-alternative-register-available"] += 1
            continue
        stats["phys:unflagged-probed-with-another-register"] += 1
        if rec[3] == 0:
            if dbfixed:
                stats["phys:db-fixed-operand-free-through-another-form"] += 1
            continue
        if dbfixed:
            chk.violation("T:%s:%s:fixed-register-not-reported" % (kb, role), "database: operand %d (%s) is the fixed %s id %d and the assembler rejects every other register tried (last: id %d, error %d), but query_rw_info "
                          "does not flag it %s (flags=0x%x phys_id=%d): an allocator may pick any register; case %s -> %s" %
                          (i, o["data"], what, passed, rec[2], rec[3], "kRegPhysId" if op[0] == "R" else "kMemPhysId", flags, phys, line, r["bytes"]), replay)
        else:
            stats["phys:free-operand-alternatives-refused-not-judged"] += 1


def judge_table(chk, forms, cases, recs, known_features, cov):
    by_id = {r["id"]: r for r in recs if r.get("id", -1) >= 0}
    unmapped = set()
    stats = collections.Counter()
    samples = []
    fixed_pos = set()
    for f in forms:
        for i, o in enumerate(f["operands"]):
            if (o["reg"] in G.FIXED_REGS and G.FIXED_REGS[o["reg"]][0] in ALLOC_TYPES) or (o["mem"] and rwgen.implicit_base(f, o) is not None):
                fixed_pos.add((f["name"], len(f["operands"]), i))
    phys_names = set()
    default_evex = set()      # VEX database forms the assembler encodes as EVEX when no option is given
    vex_judged = set()
    for c in cases:
        r = by_id.get(c["id"])
        if r is None:
            raise common.HarnessError("table mode lost case %d" % c["id"])
        f = forms[c["form"]]
        kb = "%s:%s" % (f["name"], rwgen.form_sig(f))
        if False:
            kb += ":x86"
        replay = {"mode": "table", "lines": [G.case_line(c)], "tcase": {k: c.get(k) for k in ("id", "arch", "form", "name", "opts", "extra", "ops", "variant", "masked", "vexopt")}}
        stats["queried"] += 1
        if r["e"] != 0 or r["v"] != 0:
            stats["assembler-or-validator-refuses"] += 1
            continue   # which forms exist is C13's business
        stats["encoded"] += 1
        if r.get("stale"):
            chk.violation("T:%s:answer-depends-on-previous-content-of-out" % kb, "query_rw_info answers differently %s for %s" % (r["stale"][:600], G.case_line(c)), replay)
        if r["rw"] != 0:
            chk.violation("T:%s:query_rw_info-fails" % kb, "the assembler encodes %s (%s) but query_rw_info returns error %d" % (G.case_line(c), r["bytes"], r["rw"]), replay)
            continue
        if r["f"] != 0:
            chk.violation("T:%s:query_features-fails" % kb, "the assembler encodes %s but query_features returns error %d" % (G.case_line(c), r["f"]), replay)
        # operand access
        for i, o in enumerate(f["operands"]):
            if not (o["reg"] or o["mem"]) or i >= len(r["ops"]) - 1:
                continue
            flags, rmask, wmask, xmask, rm_size, clc, phys = r["ops"][i]
            rmask, wmask, xmask = int(rmask, 16), int(wmask, 16), int(xmask, 16)
            is_mem = c["ops"][i][0] == "M"
            fake = bool(flags & 0x400)
            stats["operands"] += 1
            if f["name"] in ("vpternlogd", "vpternlogq") and i == 0 and c["ops"][-1][0] == "I" and ((c["ops"][-1][1] >> 4) & 15) == (c["ops"][-1][1] & 15) and not c.get("masked"):
                stats["vpternlog-destination-independent-imm"] += 1
            elif o["read"] and not (flags & 1) and not fake:
                chk.violation("T:%s:op%d:db-read-not-reported" % (kb, i), "database says operand %d (%s) is read, query_rw_info flags=0x%x for %s" % (i, o["data"], flags, G.case_line(c)), replay)
            if o["write"] and not (flags & 2) and not fake:
                chk.violation("T:%s:op%d:db-write-not-reported" % (kb, i), "database says operand %d (%s) is written, query_rw_info flags=0x%x for %s" % (i, o["data"], flags, G.case_line(c)), replay)
            if bool(flags & 1) != bool(o["read"]) or bool(flags & 2) != bool(o["write"]):
                stats["access-over-approximated"] += 1
            m = mask_of(o["rwxIndex"], o["rwxWidth"])
            if is_mem:
                size = c["ops"][i][1]["size"]
                m &= (1 << size) - 1 if size else 0
            is_gp = (not is_mem) and c["ops"][i][1] in ("gp8lo", "gp8hi", "gp16", "gp32", "gp64")
            if m and not fake:
                if o["read"] and (flags & 1) and (m & ~rmask):
                    stats["read-mask-more-precise-than-db"] += 1    # special cases (imul, punpckl*, ...) are finer than the database; judged by execution (R)
                if o["write"] and (flags & 2) and (m & ~(wmask | xmask)) and not is_gp:
                    stats["non-gp-write-mask-smaller-than-db"] += 1
                if is_gp and o["write"] and (flags & 2) and (m & ~(wmask | xmask)):
                    chk.violation("T:%s:op%d:write-mask-smaller-than-db" % (kb, i), "database: operand %d (%s) writes bits %d..%d; reported write_byte_mask=0x%x extend=0x%x for %s" %
                                  (i, o["data"], o["rwxIndex"], o["rwxIndex"] + o["rwxWidth"] - 1, wmask, xmask, G.case_line(c)), replay)
        judge_phys(chk, f, c, r, kb, replay, stats, fixed_pos, phys_names)
        # flags
        if f["name"] != "mov":
            for k, v in f["io"].items():
                bit = rwgen.FLAG_BITS.get(k)
                if not bit:
                    continue
                stats["flag-records"] += 1
                if v in ("R", "X") and not (r["rf"] & bit):
                    chk.violation("T:%s:flag-read:%s" % (kb, k), "database io %s=%s but read_flags=0x%x for %s" % (k, v, r["rf"], G.case_line(c)), replay)
                if v in ("W", "U", "0", "1", "X") and not (r["wf"] & bit):
                    chk.violation("T:%s:flag-write:%s" % (kb, k), "database io %s=%s but write_flags=0x%x for %s" % (k, v, r["wf"], G.case_line(c)), replay)
        # features
        if c.get("vexopt"):
            stats["vex-option:cases-encoded"] += 1
            if r["enc"] != "vex":
                stats["vex-option:not-vex-encoded-not-judged"] += 1    # which forms the assembler knows is C13's business
        elif f["prefix"] == "VEX" and r["enc"] == "evex":
            default_evex.add(f["name"])
        if "APX_F" not in f["ext"] and same_encoding(f, r):
            stats["feature-judged"] += 1
            if c.get("vexopt"):
                stats["vex-option:feature-judged"] += 1
                vex_judged.add(f["name"])
            is512 = any(o["reg"] == "zmm" for o in f["operands"]) or ".512." in f["opcodeString"]
            for e in f["ext"]:
                if e not in known_features:
                    unmapped.add(e)
                    continue
                if e == "AVX512_VL" and is512:
                    continue   # the database reader attaches AVX512_VL to every member of an xmm|ymm|zmm group
                if e not in r["feat"]:
                    chk.violation("F:%s:db-ext-missing:%s" % (kb, e), "database ext of the encoded form includes %s but query_features reports %s for %s (bytes %s)" %
                                  (e, r["feat"], G.case_line(c), r["bytes"]), replay)
        else:
            stats["feature-not-judged-other-encoding"] += 1
        # consecutive registers
        rels = [(o.get("regIndexRel") or 0) for o in f["operands"]]
        if any(rels):
            lead = next(i - rel for i, rel in enumerate(rels) if rel)
            want = max(rels) + 1
            got = r["ops"][lead][5]
            stats["consecutive-forms"] += 1
            if got != want:
                chk.violation("C:%s:consecutive-lead-count" % kb, "operands %s encode a run of %d consecutive registers led by operand %d, consecutive_lead_count reported %d (database form-level consecutiveLead=%s) for %s" %
                              ([o["data"] for o in f["operands"]], want, lead, got, f.get("consecutiveLead"), G.case_line(c)), replay)
            for i, rel in enumerate(rels):
                if rel and not (r["ops"][i][0] & 0x8):
                    chk.violation("C:%s:op%d:kConsecutive-missing" % (kb, i), "operand %d (%s) must follow the lead register but is not flagged kConsecutive (flags=0x%x)" % (i, f["operands"][i]["data"], r["ops"][i][0]), replay)
        elif any(op[5] for op in r["ops"]):
            chk.violation("C:%s:spurious-lead-count" % kb, "no consecutive run in the database form but consecutive_lead_count reported: %s" % r["ops"], replay)
        if len(samples) < 3 and f["name"] in ("adc", "vpternlogd", "pmovzxbw"):
            samples.append({"case": G.case_line(c), "answer": {k: r[k] for k in ("ops", "rf", "wf", "feat", "enc")}})
    stats["vex-option:instructions-judged"] = len(vex_judged)
    stats["vex-option:instructions-encoded-evex-without-the-option-now-judged"] = len(default_evex & vex_judged)
    stats["phys:instructions-with-a-flagged-operand"] = len(phys_names)
    cov["table"] = dict(stats)
    cov["table_prefer_evex_instructions_judged_under_vex_option"] = sorted(default_evex & vex_judged)[:40]
    cov["table_samples"] = samples
    cov["ext_names_without_feature_id"] = sorted(unmapped)
    return stats


# ---------------------------------------------------------------------------------------------------------------------
# M (encodability half, with instruction options): every operand query_rw_info flags kRegMem with rm_size = N can really be
# replaced by a memory operand of N bytes - same BaseInst options ({sae}, {er} with each rounding mode), same {k}/{z} extra
# register, same arch mode: InstAPI::validate() accepts it AND x86::Assembler emits it. Nothing is demanded about operands
# that are NOT flagged (the property only says that reported replaceability is real).

ER_TAGS = (("rn-sae", G.OPT_ER | G.OPT_RN), ("rd-sae", G.OPT_ER | G.OPT_RD), ("ru-sae", G.OPT_ER | G.OPT_RU), ("rz-sae", G.OPT_ER | G.OPT_RZ))


def er_sae_capable(f):
    """{er}/{sae} exist for the 512-bit member of an xyz group and for scalar (LIG) forms only (the database dump flags all three
    members of a group); AVX10.2 / APX forms are not encoded by this release (same rule as C13)"""
    if set(f.get("ext") or {}) & {"AVX10_2", "APX_F"}:
        return False
    return (f.get("opcode") or {}).get("l", "").upper() in ("LIG", "512") or any(o.get("reg") == "zmm" for o in f["operands"])


def rm_cases(forms, rng, tier):
    gen = G.Gen(rng)
    gen.canonical = True
    cases = []
    for f in forms:
        if not any(o["reg"] for o in f["operands"]):
            continue
        modes = [64] if f["arch"] in ("ANY", "X64") else [32]
        if tier == "thorough" and f["arch"] == "ANY":
            modes.append(32)
        for mode in modes:
            ops = gen.instantiate(f, mode, False)
            if ops is None or any(op[0] in ("M", "L") for op in ops) or not any(op[0] == "R" for op in ops):
                continue   # register-only cases
            base = G.OPT_EVEX if f["prefix"] == "EVEX" else 0
            masks = [("", 0, None)]
            if f.get("kmask"):
                masks.append(("k", 0, ("k", 3)))
                if f.get("zmask"):
                    masks.append(("kz", G.OPT_ZMASK, ("k", 3)))
            optv = [("", 0)]
            if f["prefix"] == "EVEX" and er_sae_capable(f):
                if f.get("sae"):
                    optv.append(("sae", G.OPT_SAE))
                if f.get("er"):
                    optv += list(ER_TAGS)
            for otag, obits in optv:
                for mtag, mbits, extra in masks:
                    tag = "+".join(t for t in (otag, mtag) if t) or "none"
                    c = gen.new_case(f, mode, list(ops), tag, base | obits | mbits, extra)
                    c["otag"], c["mtag"] = otag, mtag
                    cases.append(c)
    return cases


def enc_class_of(hexbytes):
    b = bytes.fromhex(hexbytes)
    i = 0
    while i < len(b) and b[i] in (0x66, 0xF2, 0xF3, 0x67, 0x2E, 0x36, 0x3E, 0x26, 0x64, 0x65, 0xF0):
        i += 1
    if i >= len(b):
        return "none"
    if b[i] == 0x62:
        return "evex"
    if b[i] in (0xC4, 0xC5):
        return "vex"
    if b[i] == 0x8F and i + 1 < len(b) and (b[i + 1] & 0x1F) >= 8:
        return "xop"
    if b[i] == 0xD5:
        return "rex2"
    return "legacy"


def form_accepts(g, ops, arch):
    """could database form g be the form of this operand list (register classes, memory size, immediates)?"""
    if len(g["operands"]) != len(ops) or (g["arch"] == "X86" and arch == "x64") or (g["arch"] == "X64" and arch != "x64"):
        return False
    for o, op in zip(g["operands"], ops):
        if op[0] == "R":
            if not o["reg"]:
                return False
            if o["reg"] in G.FIXED_REGS:
                t, rid = G.FIXED_REGS[o["reg"]]
                if (t, rid) != (op[1], op[2]):
                    return False
                continue
            cls = rwgen.op_class(o)
            if cls != (op[1] if op[1] not in ("gp8lo", "gp8hi") else "gp8"):
                return False
        elif op[0] == "M":
            if not o["mem"] or rwgen.mem_size(o) != op[1]["size"]:
                return False
        elif op[0] == "I":
            if not (o["imm"] or o["data"] in ("1", "dfv")):
                return False
        else:
            return False
    return True


# "every CPU that has X has Y" - the architecturally fixed chains only
IMPLIED = {"SSE2": ["SSE"], "SSE3": ["SSE2"], "SSSE3": ["SSE3"], "SSE4_1": ["SSSE3"], "SSE4_2": ["SSE4_1"], "AVX": ["SSE4_2"], "AVX2": ["AVX"], "AVX512_F": ["AVX2", "FMA", "F16C"]}


def closure(feats):
    out = set(feats)
    work = list(feats)
    while work:
        e = work.pop()
        nxt = list(IMPLIED.get(e, []))
        if e.startswith("AVX512_") and e != "AVX512_F":
            nxt.append("AVX512_F")
        for n in nxt:
            if n not in out:
                out.add(n)
                work.append(n)
    return out


def judge_rm(chk, forms, cases, recs, cov, known_features=None):
    by_id = {r["id"]: r for r in recs if r.get("id", -1) >= 0}
    by_name = collections.defaultdict(list)
    for g in forms:
        by_name[(g["name"], len(g["operands"]))].append(g)
    if known_features is None:
        known_features = set(e for g in forms for e in g["ext"])
    st = collections.Counter()
    by_tag = collections.Counter()
    inst_claims, inst_opts, inst_opts_claims = set(), set(), set()
    rmf_names, need_names = set(), set()
    samples = []
    for c in cases:
        r = by_id.get(c["id"])
        if r is None:
            raise common.HarnessError("rmopt mode lost case %d" % c["id"])
        f = forms[c["form"]]
        kb = "%s:%s" % (f["name"], rwgen.form_sig(f))
        line = G.case_line(c)
        replay = {"mode": "rmopt", "lines": [line], "rcase": {k: c[k] for k in ("id", "arch", "form", "name", "opts", "extra", "ops", "variant", "otag", "mtag")}}
        st["queries"] += 1
        if c["otag"]:
            st["queries_with_er_or_sae_option"] += 1
        if c["mtag"]:
            st["queries_with_mask_register"] += 1
        if r["v"] != 0 or r["e"] != 0:
            st["register_form_refused_by_validator_or_assembler_not_judged"] += 1
            if c["otag"]:
                st["register_form_with_er_or_sae_refused_not_judged"] += 1
            continue   # which forms / decorations exist is C13's business
        if r["rw"] != 0:
            chk.violation("M:%s:query_rw_info-fails:%s" % (kb, c["variant"]), "validator and assembler accept %s (%s) but query_rw_info returns error %d" % (line, r["bytes"], r["rw"]), replay)
            continue
        st["register_forms_answered"] += 1
        if c["otag"]:
            st["register_forms_with_er_or_sae_answered"] += 1
            inst_opts.add(f["name"])
        st["kRegMem_without_rm_size_not_judged"] += r.get("rmflag0", 0)
        has_imm = any(op[0] == "I" for op in c["ops"])
        for i, size, ev, ee, mbytes, imm_refused, ef, mfeat in r["claims"]:
            # rm_feature: what the memory form needs beyond the register form must be announced (the allocator patches reg -> mem
            # whenever cpu_features().has(rm_feature)). Reference = the database: ext of the form the emitted memory encoding belongs to
            # vs. ext of the register form (query_features may over-approximate, so it is not the reference).
            if ev == 0 and ee == 0 and mbytes and r["bytes"] and same_encoding(f, {"enc": enc_class_of(r["bytes"]), "bytes": r["bytes"]}):
                rmf = r.get("rmf") or ""
                if rmf:
                    st["rm_feature_claims_with_rm_feature"] += 1
                    rmf_names.add(f["name"])
                mops = list(c["ops"])
                mops[i] = ("M", {"size": size})
                menc = {"enc": enc_class_of(mbytes), "bytes": mbytes}
                cands = [g for g in by_name.get((f["name"], len(f["operands"])), []) if form_accepts(g, mops, c["arch"]) and same_encoding(g, menc)]
                if not cands:
                    st["rm_feature_memory_form_not_found_in_database_not_judged"] += 1
                else:
                    st["rm_feature_claims_judged"] += 1
                    have = closure(set(f["ext"]) | ({rmf} if rmf else set()))
                    verdicts = []
                    for g in cands:
                        needm = set(e for e in g["ext"] if e in known_features)
                        if any(o["reg"] == "zmm" for o in g["operands"]) or ".512." in g["opcodeString"]:
                            needm.discard("AVX512_VL")
                        verdicts.append(needm - have)
                    if any(set(e for e in g["ext"] if e in known_features) - closure(set(f["ext"])) for g in cands):
                        st["rm_feature_memory_form_needs_more_than_register_form"] += 1
                        need_names.add(f["name"])
                    missing = set.intersection(*verdicts)
                    if "AVX512_VL" in missing and rmf.startswith("AVX512"):
                        missing.discard("AVX512_VL")      # one feature id cannot name F/BW and VL: VL is taken to accompany them (assumption)
                        st["rm_feature_avx512_vl_implied_not_judged"] += 1
                    if missing:
                        chk.violation("M:%s:op%d:memory-form-needs-unreported-feature:%s" % (kb, i, "+".join(sorted(missing))),
                                      "query_rw_info(%s) reports operand %d replaceable by m%d with rm_feature=%s; database: the register form (%s) needs %s, the memory form (%s = `%s`) needs %s: %s is required by "
                                      "the memory form only and not announced (query_features: register form %s, memory form %s)" %
                                      (line, i, size * 8, rmf or "none", r["bytes"], sorted(f["ext"]), mbytes, cands[0]["opcodeString"], sorted(cands[0]["ext"]), sorted(missing), sorted(r["feat"]), sorted(mfeat)), replay)
            if imm_refused and has_imm:   # the immediate of this case only fits the register form (validate: kInvalidImmediate)
                st["claims_skipped_immediate_fits_register_form_only"] += 1
                continue
            st["rm_claims_tested"] += 1
            by_tag[c["variant"]] += 1
            inst_claims.add(f["name"])
            if c["otag"]:
                st["rm_claims_tested_with_er_or_sae_option"] += 1
                inst_opts_claims.add(f["name"])
            if ev != 0 or ee != 0:
                who = "InstAPI::validate rejects it (error %d)" % ev if ev else "InstAPI::validate accepts it"
                who += " and the assembler %s" % ("rejects it (error %d)" % ee if ee else "emits %s" % mbytes)
                # Without {sae}/{er} this is the input class the native M check keys as M:<form>:op<i>:validator-rejects /
                # :assembler-rejects ({k}/{z} variants included there too): same class, same key. With {sae}/{er} the option is
                # part of the class; the {k}/{z} decoration is not (it is in the message).
                if c["otag"]:
                    key = "M:%s:op%d:rm-replaceable-not-encodable:%s" % (kb, i, c["otag"])
                else:
                    key = "M:%s:op%d:%s" % (kb, i, "validator-rejects" if ev else "assembler-rejects")
                chk.violation(key,
                              "query_rw_info(%s) [options=0x%x%s, %s mode] reports operand %d as kRegMem with rm_size=%d, but with that operand replaced by a %d-byte memory operand "
                              "(same options, same extra register) %s; answer %s" %
                              (line, c["opts"], " extra=%s%d" % c["extra"] if c["extra"] else "", c["arch"], i, size, size, who, r["ops"]), replay)
            elif len(samples) < 4 and (c["otag"] or c["mtag"]) and f["name"] not in [s["inst"] for s in samples]:
                samples.append({"inst": f["name"], "case": line, "tag": c["variant"], "claim": {"operand": i, "rm_size": size, "memory_form_bytes": mbytes}})
        if c["otag"] and not r["claims"]:
            st["register_forms_with_er_or_sae_reporting_no_replaceable_operand"] += 1
    cov["rm_replaceability"] = dict(st)
    cov["rm_replaceability"].update({
        "rm_claims_tested_by_option_tag": dict(by_tag),
        "distinct_instructions_with_rm_claims_tested": len(inst_claims),
        "distinct_instructions_queried_with_er_or_sae": len(inst_opts),
        "distinct_instructions_with_rm_claims_tested_under_er_or_sae": len(inst_opts_claims),
        "instructions_reporting_rm_feature": sorted(rmf_names)[:60],
        "instructions_whose_memory_form_needs_more_features": sorted(need_names)[:60],
        "samples": samples,
    })
    return st


# ---------------------------------------------------------------------------------------------------------------------
# C (AArch64): register lists, queried only

ARR = {"8B": "8b", "16B": "16b", "4H": "4h", "8H": "8h", "2S": "2s", "4S": "4s", "1D": "1d", "2D": "2d"}


def a64_list_cases(forms):
    cases = []
    seen = set()
    for f in forms:
        ops = f["operands"]
        for oi, o in enumerate(ops):
            m = re.match(r"(\d+)x\{(V\w)\.(\w+)\}(\+?)(\[#idx\])?$", o["data"])
            if not m:
                continue
            n, elem, idx = int(m.group(1)), m.group(3), m.group(5)
            last = ops[-1]["data"]
            if f["name"] in ("tbl", "tbx"):
                shapes = ["T:8b", "T:16b"]
            else:
                if "Xm" in last:
                    mode = "pr"
                elif "#off" in last:
                    mode = "pi"
                else:
                    mode = "o"
                if idx:
                    shapes = ["E:%s:%d:%s" % (elem.lower(), 1 if elem != "D" else 1, mode)]
                elif elem == "t":
                    arrs = ["8b", "16b", "4h", "8h", "2s", "4s", "2d"]
                    if f["name"] == "ld1" or f["name"] == "st1" or f["name"].endswith("r"):
                        arrs.append("1d")
                    shapes = ["L:%s:%s" % (a, mode) for a in arrs]
                else:
                    continue
            for sh in shapes:
                key = (f["name"], n, sh)
                if key in seen:
                    continue
                seen.add(key)
                cases.append(dict(id=len(cases), name=f["name"], n=n, shape=sh, first=(len(cases) * 5 + 27) % 32, kind="list",
                                  db_rw=[(bool(x["read"]), bool(x["write"]), x["data"]) for x in ops]))
        if ops and re.match(r"2x\{[WX][sd]\}\+$", ops[0]["data"]) and f["name"].startswith("casp"):
            key = (f["name"], ops[0]["data"][4])
            if key not in seen:
                seen.add(key)
                cases.append(dict(id=len(cases), name=f["name"], n=2, shape="P:" + ops[0]["data"][3].lower(), first=len(cases) * 2, kind="pair"))
    return cases


def judge_a64(chk, cases, recs, cov):
    by_id = {r["id"]: r for r in recs}
    st = collections.Counter()
    pairs_unreported = []
    for c in cases:
        r = by_id[c["id"]]
        line = "%d %s %d %s %d" % (c["id"], c["name"], c["n"], c["shape"], c["first"])
        replay = {"mode": "a64c", "lines": [line], "acase": c}
        kb = "a64:%s:%dx%s" % (c["name"], c["n"], ":element" if c["shape"].startswith("E:") else "")
        if r["e"] != 0 or r["v"] != 0:
            st["not-accepted"] += 1
            continue
        if r["rw"] != 0:
            chk.violation("C:%s:query_rw_info-fails" % kb, "assembler encodes %s (%s) but query_rw_info fails with %d" % (line, r["bytes"], r["rw"]), replay)
            continue
        st["queried"] += 1
        la = r["list_at"]
        lead = r["ops"][la][5]
        if c["kind"] == "pair":
            st["gp-pairs"] += 1
            if lead != 2:
                pairs_unreported.append(c["name"])
            continue
        # access of every register operand vs. the database record (T for AArch64 register-list forms)
        for j, (rd, wr, data) in enumerate(c.get("db_rw", [])):
            if j >= r["nops"] or data.startswith("["):
                continue
            fl = r["ops"][j][0]
            role = "list" if la <= j < la + c["n"] else "op%d" % j
            if rd and not (fl & 1):
                chk.violation("T:%s:%s:db-read-not-reported" % (kb, role), "database says operand %d (%s) of %s is read; query_rw_info flags=0x%x (%s -> %s)" % (j, c["db_rw"][la][2] if role == "list" else data, c["name"], fl, line, r["bytes"]), replay)
            if wr and not (fl & 2):
                chk.violation("T:%s:%s:db-write-not-reported" % (kb, role), "database says operand %d (%s) of %s is written; query_rw_info flags=0x%x (%s -> %s)" % (j, c["db_rw"][la][2] if role == "list" else data, c["name"], fl, line, r["bytes"]), replay)
        st["lists-n%d" % c["n"]] += 1
        ok = lead == c["n"] or (c["n"] == 1 and lead in (0, 1))
        if not ok:
            chk.violation("C:%s:consecutive-lead-count" % kb, "register list of %d registers starting at operand %d: consecutive_lead_count=%d (per-operand answers %s) for %s -> %s" %
                          (c["n"], la, lead, [[o[0], o[5]] for o in r["ops"]], line, r["bytes"]), replay)
            continue
        for j in range(1, c["n"]):
            if not (r["ops"][la + j][0] & 0x8):
                chk.violation("C:%s:kConsecutive-missing" % kb, "list member at operand %d is not flagged kConsecutive: %s" % (la + j, [[o[0], o[5]] for o in r["ops"]]), replay)
                break
        for j, o in enumerate(r["ops"][:r["nops"]]):
            if j != la and o[5]:
                chk.violation("C:%s:spurious-lead-count" % kb, "operand %d is not a list lead but reports consecutive_lead_count=%d: %s" % (j, o[5], [[x[0], x[5]] for x in r["ops"]]), replay)
                break
    cov["a64_register_lists"] = dict(st)
    if pairs_unreported:
        cov["a64_gp_pairs_without_lead_count"] = sorted(set(pairs_unreported))
    return st


# ---------------------------------------------------------------------------------------------------------------------

def run_lines(exe, mode, lines, path, extra=(), timeout=3000):
    write_lines(path, lines)
    rc, out, err = common.run_child([exe, "--mode", mode, "--cases", path] + list(extra), timeout=timeout)
    return rc, out, err


def parse_records(out):
    recs = []
    for ln in out.decode("utf-8", "replace").splitlines():
        ln = ln.strip()
        if ln.startswith("{"):
            recs.append(json.loads(ln))
    return recs


def sanitizer_violation(chk, err, what, replay):
    rep = common.sanitizer_report(err)
    if rep:
        top = next((f for f in rep["frames"] if "asmjit" in f), rep["frames"][0] if rep["frames"] else "?")
        chk.violation("sanitizer:%s:%s" % (rep["kind"].split(" on ")[0][:60], top.split("(")[0][:80]), "sanitizer report during %s: %s %s" % (what, rep["kind"], rep["frames"][:5]), replay)
        return True
    return False


def run(tier, args):
    chk = common.Check("C12", tier)
    if not args.replay:
        for fn in os.listdir(common.REPLAY) if os.path.isdir(common.REPLAY) else []:
            if fn.startswith("C12-%d-" % chk.seed):
                os.unlink(os.path.join(common.REPLAY, fn))
    exe = build.build_driver("drv_rw", "plain")
    exe_asan = build.build_driver("drv_rw", "asan")
    wd = workdir(chk)
    try:
        return _run(chk, tier, args, exe, exe_asan, wd)
    finally:
        shutil.rmtree(wd, ignore_errors=True)


def _replay(chk, args, exe, exe_asan, wd):
    rp = json.load(open(args.replay))
    case = rp["case"]
    mode = case.get("mode")
    if mode == "tablegen":
        tablegen_differential(chk)
    elif mode == "run":
        rc, out, err = run_lines(exe, "run", case["lines"], os.path.join(wd, "replay.txt"), case.get("argv", []))
        res = json.loads(out.decode().strip().splitlines()[-1])
        for v in res["violations"]:
            chk.violation(v["key"], v["what"], case)
        chk.coverage.update({"evaluations": res["runs"], "distinct_nontrivial": max(2, res["nontrivial_cases"]), "rule": "replay"})
    elif mode == "table":
        c = case["tcase"]
        c["ops"] = [tuple(o) if o[0] != "M" else ("M", {k: (tuple(v) if isinstance(v, list) else v) for k, v in o[1].items()}) for o in c["ops"]]
        c["extra"] = tuple(c["extra"]) if c["extra"] else None
        rc, out, err = run_lines(exe_asan, "table", [G.case_line(c)], os.path.join(wd, "replay.txt"))
        host = host_info(exe)
        judge_table(chk, isadb.x86_forms(), [c], parse_records(out), set(host["all"]), chk.coverage)
        chk.coverage.update({"evaluations": 1, "distinct_nontrivial": 2, "rule": "replay"})
    elif mode == "rmopt":
        if "rcase" in case:
            c = case["rcase"]
            c["extra"] = tuple(c["extra"]) if c["extra"] else None
            rc, out, err = run_lines(exe_asan, "rmopt", case["lines"], os.path.join(wd, "replay.txt"))
            if not sanitizer_violation(chk, err, "reg/mem replaceability queries", case):
                judge_rm(chk, isadb.x86_forms(), [c], parse_records(out), chk.coverage, set(host_info(exe)["all"]))
        else:   # a whole shard that ended in a sanitizer report
            rc, out, err = run_lines(exe_asan, "rmopt", case["lines"], os.path.join(wd, "replay.txt"))
            sanitizer_violation(chk, err, "reg/mem replaceability queries", case)
        chk.coverage.update({"evaluations": 1, "distinct_nontrivial": 2, "rule": "replay"})
    elif mode == "a64c":
        c = case["acase"]
        rc, out, err = run_lines(exe_asan, "a64c", case["lines"], os.path.join(wd, "replay.txt"))
        judge_a64(chk, [c], parse_records(out), chk.coverage)
        chk.coverage.update({"evaluations": 1, "distinct_nontrivial": 2, "rule": "replay"})
    else:
        raise common.HarnessError("unknown replay mode %s" % mode)
    return chk.finish()


def _run(chk, tier, args, exe, exe_asan, wd):
    if args.replay:
        return _replay(chk, args, exe, exe_asan, wd)
    scale = args.scale
    cov = chk.coverage
    host = host_info(exe)
    host_feats = set(host["features"])
    known_features = set(host["all"])
    forms = isadb.x86_forms()
    rng = common.Rng(chk.seed).fork("c12")

    # ---- T1 -----------------------------------------------------------------------------------------------------
    phase = {}
    t0 = time.time()
    cov["tablegen_regenerated_identical"] = tablegen_differential(chk)
    phase["tablegen"] = round(time.time() - t0, 1)
    t0 = time.time()

    # ---- T2 / C / F-superset (ASan build, no execution) ------------------------------------------------------------
    tcases = table_cases(forms, rng.fork("table"), tier)
    nsh = 16
    shards = [[] for _ in range(nsh)]
    for c in tcases:
        shards[c["id"] % nsh].append(c)

    def table_one(i):
        return run_lines(exe_asan, "table", [G.case_line(c) for c in shards[i]], os.path.join(wd, "table%d.txt" % i))

    recs = []
    for i, (rc, out, err) in enumerate(common.parallel_map(table_one, range(nsh))):
        if sanitizer_violation(chk, err, "table queries", {"mode": "table", "lines": [G.case_line(c) for c in shards[i]]}):
            continue
        if rc != 0:
            raise common.HarnessError("drv_rw --mode table rc=%s: %s" % (rc, err[-400:]))
        recs += parse_records(out)
    judge_table(chk, forms, tcases, recs, known_features, cov)
    phase["table"] = round(time.time() - t0, 1)
    t0 = time.time()

    # ---- M, encodability half incl. {sae}/{er}/{k}/{z} (ASan build, no execution) --------------------------------------
    rcases = rm_cases(forms, rng.fork("rmopt"), tier)
    rshards = [[] for _ in range(nsh)]
    for c in rcases:
        rshards[c["id"] % nsh].append(c)

    def rm_one(i):
        return run_lines(exe_asan, "rmopt", [G.case_line(c) for c in rshards[i]], os.path.join(wd, "rmopt%d.txt" % i))

    recs = []
    rm_ok = True
    for i, (rc, out, err) in enumerate(common.parallel_map(rm_one, range(nsh))):
        if sanitizer_violation(chk, err, "reg/mem replaceability queries", {"mode": "rmopt", "lines": [G.case_line(c) for c in rshards[i]]}):
            rm_ok = False
            continue
        if rc != 0:
            raise common.HarnessError("drv_rw --mode rmopt rc=%s: %s" % (rc, err[-400:]))
        recs += parse_records(out)
    if rm_ok:
        judge_rm(chk, forms, rcases, recs, cov, known_features)

    phase["rmopt"] = round(time.time() - t0, 1)
    t0 = time.time()
    # ---- C (AArch64) -------------------------------------------------------------------------------------------
    acases = a64_list_cases(isadb.a64_forms())
    rc, out, err = run_lines(exe_asan, "a64c", ["%d %s %d %s %d" % (c["id"], c["name"], c["n"], c["shape"], c["first"]) for c in acases], os.path.join(wd, "a64c.txt"))
    if not sanitizer_violation(chk, err, "a64 register-list queries", {"mode": "a64c"}):
        if rc != 0:
            raise common.HarnessError("drv_rw --mode a64c rc=%s: %s" % (rc, err[-400:]))
        judge_a64(chk, acases, parse_records(out), cov)

    phase["a64"] = round(time.time() - t0, 1)
    t0 = time.time()
    # ---- W / R / M / F (native execution) ------------------------------------------------------------------------
    excluded = collections.Counter()
    excluded_names = collections.defaultdict(set)
    runnable = []
    for f in forms:
        ex = rwgen.exclusion(f, host_feats, known_features)
        if ex is None:
            runnable.append(f)
        else:
            excluded[ex[0]] += 1
            excluded_names[ex[0]].add(f["name"] if ex[0] != "extension-absent" else ex[1])
    probes = [f for f in forms if (rwgen.exclusion(f, host_feats, known_features) or ("", ""))[0] == "extension-absent" and rwgen.probe_eligible(f)]
    cg = rwgen.CaseGen(rng.fork("cases"))
    n_assign = 3 if tier == "quick" else 6
    images = 32 if tier == "quick" else 512
    if scale < 1.0:
        runnable = [f for i, f in enumerate(runnable) if (i * scale) % 1.0 < scale]
    cases = []
    variant_count = collections.Counter()
    for fi, f in enumerate(runnable):
        tags = cg.variants_of(f)
        chosen = list(tags)
        while len(chosen) < n_assign:
            chosen.append("h" if "h" in tags and len(chosen) % 2 else "d")
        if tier != "quick":
            chosen += [t for t in ("h", "s", "m") if t in tags]
        for t in chosen:
            c = cg.make_case(f, t)
            if c is not None:
                cases.append(c)
                variant_count[t] += 1
        for c in cg.width_cases(f):
            cases.append(c)
            variant_count["w"] += 1
    if scale < 1.0:
        probes = [f for i, f in enumerate(probes) if (i * scale) % 1.0 < scale]
    n_probe = 0
    for f in probes:
        for t in (["d"] if tier == "quick" else ["d", "h"] + (["k"] if f.get("kmask") else [])):
            c = cg.make_case(f, t, probe=True)
            if c is not None:
                cases.append(c)
                n_probe += 1
    # 32-bit mode (native_gp_size == 4) through the 64 -> 32 bit gate: the forms that exist only there and the legacy-encoded GP forms
    runnable32 = [f for f in forms if rwgen.exclusion(f, host_feats, known_features, 32) is None]
    if scale < 1.0:
        runnable32 = [f for i, f in enumerate(runnable32) if (i * scale) % 1.0 < scale or f["arch"] == "X86"]
    n32 = collections.Counter()
    for f in runnable32:
        tags = [t for t in cg.variants_of(f) if t in (("d", "m", "b") if tier == "quick" else ("d", "m", "b", "s"))]
        if tier != "quick":
            tags.append("d")
        for t in tags:
            c = cg.make_case(f, t, mode=32)
            if c is not None:
                cases.append(c)
                n32["cases"] += 1
                n32["cases_of_forms_that_exist_in_32_bit_mode_only"] += f["arch"] == "X86"
        for c in cg.width_cases(f, 32):
            cases.append(c)
            variant_count["w"] += 1
    nsh = 16 if tier == "quick" else 64
    shards = [[] for _ in range(nsh)]
    for c in cases:
        shards[c["id"] % nsh].append(c)
    seeds = [rng.next() % (1 << 40) for _ in range(nsh)]

    def run_one(i):
        argv = ["--images", str(images), "--seed", str(seeds[i])]
        rc, out, err = run_lines(exe, "run", [c["line"] for c in shards[i]], os.path.join(wd, "run%d.txt" % i), argv, timeout=6000)
        return i, argv, rc, out, err

    tot = collections.Counter()
    by_id = {c["id"]: c for c in cases}
    nontrivial, executed = set(), set()
    fault_only = collections.defaultdict(set)
    faulting = collections.defaultdict(set)
    refused = set()
    samples = []
    imprecise = []
    masked_mem_executed = collections.Counter()
    masked_mem_names = set()
    names32 = set()
    wstat = collections.Counter()
    w_accepted, w_executed = collections.defaultdict(set), collections.defaultdict(set)
    w_names = set()
    for i, argv, rc, out, err in common.parallel_map(run_one, range(nsh)):
        try:
            res = json.loads(out.decode().strip().splitlines()[-1])
        except Exception:
            raise common.HarnessError("drv_rw run shard %d rc=%s produced no summary: %s" % (i, rc, err[-500:].decode("utf-8", "replace") if isinstance(err, bytes) else err))
        if "fatal" in res:
            raise common.HarnessError("drv_rw: " + res["fatal"])
        for v in res["violations"]:
            key = v["key"]
            if key.startswith("F:") and key.endswith(":sigill-with-reported-features"):
                cid = int(v["line"].split()[0])
                f = forms[by_id[cid]["form"]]
                if set(f["ext"]) & NEEDS_ENABLEMENT:
                    tot["sigill_needs_os_enablement"] += 1
                    continue
            chk.violation(key, v["what"], {"mode": "run", "lines": [v["line"]], "argv": argv})
        for rec in res["per_case"]:
            cid = rec[0]
            c = by_id[cid]
            if isinstance(rec[1], str):
                if rec[1] == "wval":
                    wstat["refused_by_validator_or_assembler"] += 1
                if rec[1] == "asm":
                    refused.add("%s %s" % (c["name"], c["sig"]))
                tot["case_" + rec[1]] += 1
                continue
            ok_runs, changed, ill, segv, fpe = rec[1], rec[2], rec[3], rec[4], rec[5]
            if "fx=" in c["line"] and "p" in c["line"].split("fx=")[1].split()[0]:
                tot["case_probe_run"] += 1
            key = (c["form"], c["arch"], c["opts"], c["extra"], " ".join(G.op_token(o) for o in c["ops"]))
            # GP operand widths: which widths was every free GP register operand of a form accepted / executed with?
            fo = forms[c["form"]]["operands"]
            for oi, op in enumerate(c["ops"]):
                if op[0] == "R" and op[1] in ("gp16", "gp32", "gp64") and oi < len(fo) and fo[oi]["reg"] not in G.FIXED_REGS:
                    wk = (c["form"], c["arch"], oi)
                    w_accepted[wk].add(op[1])
                    if ok_runs:
                        w_executed[wk].add(op[1])
                        if fo[oi]["write"]:
                            wstat["executed_cases_with_gp_destination_%s" % op[1]] += 1
            if c["variant"] == "w":
                wstat["accepted"] += 1
                if ok_runs:
                    wstat["accepted_and_executed"] += 1
                    wstat["accepted_and_executed_operand_is_%s" % ("written" if c["wwritten"] else "read_only")] += 1
                    w_names.add("%s %s op%d as %s" % (c["name"], c["sig"], c["wop"], c["wwidth"]))
            if ok_runs and c["arch"] == "x86":
                n32["cases_executed"] += 1
                n32["cases_executed_of_forms_that_exist_in_32_bit_mode_only"] += forms[c["form"]]["arch"] == "X86"
                names32.add(c["name"])
            if ok_runs:
                executed.add(key)
                if c["variant"] in ("km", "zm"):
                    masked_mem_executed[c["variant"]] += 1
                    masked_mem_names.add(c["name"])
            else:
                fault_only["sigill" if ill else "sigsegv" if segv else "sigfpe" if fpe else "other"].add("%s %s" % (c["name"], c["sig"]))
            if ill or segv or fpe or rec[6]:
                faulting["SIGILL" if ill else "SIGSEGV" if segv else "SIGFPE" if fpe else "other"].add(c["name"])
            if changed:
                nontrivial.add(key)
                if len(samples) < 6 and c["variant"] in ("s", "k", "m", "b", "km", "zm") and c["variant"] not in [x.get("variant") for x in samples]:
                    samples.append({"case": c["line"], "variant": c["variant"], "ok_images": ok_runs, "r_runs": rec[7], "m_runs": rec[8]})
        for k, v in res.items():
            if isinstance(v, int):
                tot[k] += v
        for t in res.get("imprecise", []):
            if len(imprecise) < 25 and t.split(" ")[0] not in set(x.split(" ")[0] for x in imprecise):
                imprecise.append(t)

    phase["run"] = round(time.time() - t0, 1)
    cov["phase_wall_seconds"] = phase
    cov.update({
        "evaluations": tot["runs"] + tot["r_runs"] + tot["m_runs"],
        "distinct_nontrivial": len(nontrivial),
        "rule": "one evaluation = one native execution of one assembled instruction on one machine image (W run, R re-run with all "
                "not-read state changed, or M reg/mem pair); distinct = distinct (database form, concrete operand/register/mask assignment) pairs; non-trivial = at least one image whose execution changed architectural state",
        "samples": samples,
        "exhaustive": False,
        "database_forms": len(forms),
        "forms_executable_on_host": len(runnable),
        "forms_not_executed_by_reason": dict(excluded),
        "forms_table_checked_only_extension_absent": excluded["extension-absent"],
        "absent_extensions": sorted(set(e for s in excluded_names["extension-absent"] for e in s.split(","))),
        "database_ext_names_without_cpu_feature_id_not_judged": sorted(set(e for f in forms for e in f["ext"] if e not in known_features)),
        "deny_listed_instructions": {n: rwgen.DENY[n] for n in sorted(excluded_names["deny-list"]) if n in rwgen.DENY},
        "cases": len(cases),
        "probe_cases_extension_absent_per_database": n_probe,
        "probe_cases_executed_because_asmjit_reports_host_features_only": tot["case_probe_run"],
        "probe_cases_skipped_reported_feature_absent": tot["case_nohost"],
        "cases_by_variant": dict(variant_count),
        "cases_executed": len(executed),
        "images_per_case": images,
        "w_runs": tot["runs"], "w_runs_completed": tot["runs_ok"], "r_runs": tot["r_runs"], "m_forms": tot["m_forms"], "m_runs": tot["m_runs"],
        "signals": {"SIGILL": tot["sigill"], "SIGSEGV": tot["segv"], "SIGFPE": tot["fpe"], "SIGBUS": tot["bus"], "SIGTRAP": tot["trap"]},
        "instructions_with_discarded_faulting_images": {k: sorted(v)[:60] for k, v in faulting.items()},
        "sigill_on_features_needing_os_enablement": tot["sigill_needs_os_enablement"],
        "cases_faulting_on_every_image": {k: sorted(v)[:40] for k, v in fault_only.items()},
        "cases_refused_by_assembler": sorted(refused)[:60],
        "changed_bytes_observed": tot["changed_bytes"], "flag_changes_observed": tot["flags_changed"],
        "zero_extended_bytes_checked": tot["zext_checked"], "pass_through_bytes_seen": tot["passthrough_seen"],
        "state_bytes_flipped_in_r_runs": tot["r_flipped"],
        "zero_extension_claims": {
            "gp_bytes_checked": tot["zext_checked"], "gp_bytes_checked_that_the_run_left_unchanged": tot["zext_unchanged_checked"],
            "vector_mask_mmx_bytes_inside_operand_size_counted_only": tot["zext_vec_checked"], "of_these_nonzero_after_run_imprecise_masks": tot["zext_vec_nonzero"],
            "gp_bytes_nonzero_but_operand_not_written_in_that_run_conditional_write_no_verdict": tot["zext_nonzero_operand_not_written"],
            "r_check_old_value_surviving_in_zero_extended_byte_judged": tot["zext_passthrough_judged"],
            "r_check_same_but_operand_not_written_in_both_runs_conditional_write_no_verdict": tot["zext_passthrough_operand_not_written"], "r_check_same_beyond_operand_size_exempt": tot["zext_passthrough_beyond_size"],
            "vector_bytes_beyond_operand_size_counted_only": tot["zext_vec_beyond"], "of_these_nonzero_after_run": tot["zext_vec_beyond_nonzero"],
            "runs_skipped_destination_undefined_bsf_bsr": tot["zext_skipped_undefined"]},
        "masked_with_plain_memory_operand": {"cases_executed_km": masked_mem_executed["km"], "cases_executed_zm": masked_mem_executed["zm"],
                                             "distinct_instructions": len(masked_mem_names), "cases_generated_km": variant_count["km"], "cases_generated_zm": variant_count["zm"]},
        "gp_operand_widths": dict(wstat, width_variants_generated=variant_count["w"], refused_by_validator_though_the_non_validating_assembler_emits_the_database_width_no_verdict=tot["width_refused_but_encoded"], images_with_complementary_nonzero_patterns=tot["pattern_images"],
                                  free_gp_operands_seen=len(w_accepted),
                                  free_gp_operands_executed_at_fewer_widths_than_accepted=sorted("%s %s op%d: accepted %s executed %s" % (forms[k[0]]["name"], rwgen.form_sig(forms[k[0]]), k[2], sorted(v), sorted(w_executed[k]))
                                                                                                 for k, v in w_accepted.items() if w_executed[k] != v)[:40],
                                  widths_beyond_the_database_form_accepted_and_executed=sorted(w_names)[:80]),
        "x86_32_bit_mode": dict(n32, forms=len(runnable32), distinct_instructions_executed=len(names32), images_completed=tot["runs32_ok"]),
        "mov_op_flag": {"cases_judged": tot["movop_cases"], "runs_distinct_registers": tot["movop_runs_distinct"], "runs_one_register": tot["movop_runs_same_reg"],
                        "cases_flag_not_consumed_by_allocator_not_judged": tot["movop_flag_not_consumed"]},
        "uniqueness_probes": {"cases": tot["uniq_cases"], "raised_UD": tot["uniq_ud"], "UD_and_kUnique_reported": tot["uniq_ud_flagged"], "UD_and_both_operands_reported_read": tot["uniq_ud_both_read"],
                              "images_executed_without_UD": tot["uniq_no_ud"], "of_these_with_kUnique_reported": tot["uniq_no_ud_flagged"]},
        "vector_or_mask_bytes_changed_outside_reported_masks_not_judged": tot["nongp_outside_mask"],
        "vector_mask_imprecision_examples": [t[:300] for t in imprecise[:12]],
        "host": {"brand": host["brand"], "xcr0": host["xcr0"], "features": len(host_feats)},
    })
    # every added dimension must have observed something, otherwise the run says nothing about it
    t = cov.get("table", {})
    rmr = cov.get("rm_replaceability", {})
    need = {
        "table: operands flagged kRegPhysId/kMemPhysId": t.get("phys:flagged", 0),
        "table: database-fixed operands": t.get("phys:db-fixed-operands", 0),
        "table: unflagged operands probed with another register": t.get("phys:unflagged-probed-with-another-register", 0),
        "table: {vex}/{vex3} cases with judged features": t.get("vex-option:feature-judged", 0),
        "table: prefer-EVEX instructions judged under {vex}": t.get("vex-option:instructions-encoded-evex-without-the-option-now-judged", 0),
        "rmopt: rm_feature claims judged": rmr.get("rm_feature_claims_judged", 0),
        "rmopt: memory forms needing more features than the register form": rmr.get("rm_feature_memory_form_needs_more_than_register_form", 0),
    }
    if scale >= 0.05:
        need.update({
            "run: zero-extended GP bytes the run left unchanged": tot["zext_unchanged_checked"],
            "run: zero-extended vector/mask bytes": tot["zext_vec_checked"],
            "run: {k} with plain memory operand": masked_mem_executed["km"],
            "run: {k}{z} with plain memory operand": masked_mem_executed["zm"],
            "run: kMovOp runs with distinct registers": tot["movop_runs_distinct"],
            "run: kMovOp runs with one register": tot["movop_runs_same_reg"],
            "run: uniqueness probes raising #UD": tot["uniq_ud"],
            "run: cases executed in 32-bit mode": n32["cases_executed"],
            "run: width variants accepted and executed": wstat["accepted_and_executed"],
            "run: images with complementary non-zero GP patterns": tot["pattern_images"],
            "run: 32-bit-only forms executed": n32["cases_executed_of_forms_that_exist_in_32_bit_mode_only"],
        })
    empty = [k for k, v in need.items() if not v]
    if empty:
        raise common.HarnessError("dimension(s) observed nothing: %s" % "; ".join(empty))
    chk.assumptions += [
        "host CPUID (asmjit CpuInfo::host()) is used only to decide which forms to execute; the oracle is the machine image before/after execution",
        "32-bit mode: the legacy-encoded forms on general-purpose registers / memory (incl. the forms that exist only in 32-bit mode) are executed through a far call into the "
        "32-bit code segment (W, R, M, F checks as in 64-bit mode; state visible there: eax..edi, flags, xmm0-7, k0-7, mm0-7, the arena); the 32-bit behaviour of VEX/EVEX/MMX/x87 forms is table-checked only",
        "MXCSR, x87 control/status/tag words (except C0-C3), FOP/FIP/FDP and the x87 data registers of x87 instructions are not part of the diff: the RW API has no vocabulary for them; "
        "x87 instructions get the W check on all other state only (no R/M check)",
        "flags the database marks undefined (U) are required to be reported as written (W check) but are exempt from the equality requirement of the R and M checks",
        "bt/btc/btr/bts with a memory bit string get bit offsets inside the operand; div/idiv images avoid #DE; gather/scatter indices stay inside the arena; DF=0; AC=0; MXCSR=0x1F80, FCW=0x37F (all exceptions masked)",
        "instructions with non-deterministic results (rdtsc, rdtscp, rdrand, rdseed, rdpid, cpuid) get the W check only",
        "a SIGILL on an instruction whose database ext needs OS/hypervisor enablement that CPUID cannot show (%s) is not judged" % ",".join(sorted(NEEDS_ENABLEMENT)),
        "one CPU model: 'executes on any CPU with the reported features' is observed for this host only",
        "reg/mem replaceability with instruction options (coverage.rm_replaceability): {sae} / {er} are applied to the 512-bit and scalar (LIG) EVEX forms the database flags sae / er "
        "(AVX10_2 and APX_F forms skipped, as in C13); a register form that asmjit's own validator or assembler refuses is not judged (which forms exist is C13's business); "
        "only reported replaceability is tested - nothing obliges query_rw_info to report kRegMem; a kRegMem flag with rm_size 0 is counted, not judged",
        "self-test mutations (see report): RW->W in rw_info_op_table, zero extension of 32-bit GP writes removed, CF dropped from a rw_flags_info_table row, rm size of pmovzxbw changed - each detected by the quick tier",
    ]
    return chk.finish()
