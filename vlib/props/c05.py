"""C05 - Register allocation preserves the meaning of Compiler programs.

Runtime monitor: drv_ra (ASan+UBSan build of the working tree) generates random and systematically enumerated
well-defined programs in a small IR, interprets them over unbounded virtual registers (reference), emits the same
program through x86::Compiler / a64::Compiler exactly as a user would, EXECUTES the compiled code on 8..16 inputs and
compares return value, final argument buffer and the logged helper-call sequence:
  * x86-64 natively (forked child) through an assembly trampoline that also fills every callee-saved register with a
    sentinel and compares them (and rsp) after the return;
  * x86-32 natively through a 64->32 far-call gate (code relocated below 4 GiB, helper callees are 32-bit stubs that call
    back into a 64-bit handler; cdecl / stdcall / fastcall entry, ST0 return values, callee-saved registers and esp checked);
  * AArch64 on an executor for the encoded instruction words written from the Arm ARM (harness code): helper calls are
    intercepted per AAPCS64, caller-saved registers are overwritten, x19-x28/x29/sp/d8-d15 must survive.
The emitted x86-32 / AArch64 bytes must additionally decode (objdump / llvm-mc). Straight-line register-list programs
(ld1-ld4/st1-st4/tbl/tbx, vp2intersect k-pairs) are also checked structurally by symbolic execution of the disassembly.

Constructs already known to be miscompiled are covered by small directed probes (stable keys x64:probe:*); a failing
probe makes the random generator avoid that construct so that one defect does not mask the rest, a passing probe
re-enables it automatically.
"""
import json
import os
import re
import shutil
import subprocess
import tempfile

from vlib import build, common

UNREACHABLE_BIT = 0x80000000
A64_TBL_MULTI = 256

LLVM_A64_ATTRS = "+v8.5a,+neon,+fp-armv8,+lse,+crc"


# ---------------------------------------------------------------------------------------------------------------
# jobs
# ---------------------------------------------------------------------------------------------------------------

def shape_count():
    return sum((1 + 2 * n) ** n for n in range(1, 6))


def make_jobs(tier, seed, scale, avoid, unreachable):
    rng = common.Rng(seed).fork("c05-jobs")
    base = ["--seed", str(seed), "--avoid", str(avoid), "--unreachable", "1" if unreachable else "0"]
    jobs = []

    def add(mode, first, count, extra=()):
        if count > 0:
            jobs.append(["--mode", mode, "--first", str(first), "--count", str(count)] + base + list(extra))

    ns = shape_count()
    n4 = sum((1 + 2 * n) ** n for n in range(1, 5))  # shapes with <= 4 body blocks
    if tier == "quick":
        nx64, chunk = int(30000 * scale), 250
        first = rng.below(1 << 30)
        for i in range(0, nx64, chunk):
            add("x64", first + i, min(chunk, nx64 - i), ["--shrink", "250"])
        # systematic CFG shapes: every shape with <= 4 body blocks + seeded samples of the 5-block shapes (tiny profile),
        # + seeded samples with the medium / pressure profiles
        nsh = int(n4 * min(1.0, scale))
        for i in range(0, nsh, 150):
            add("shapes", i, min(150, nsh - i), ["--shrink", "150"])
        for k in range(int(96 * scale) or 1):
            add("shapes", n4 + rng.below(ns - n4 - 125), 125, ["--shrink", "150"])
        for k in range(int(96 * scale) or 1):
            add("shapes", ns + rng.below(ns - 100), 100, ["--shrink", "150"])
        for k in range(int(96 * scale) or 1):
            add("shapes", 2 * ns + rng.below(ns - 100), 100, ["--shrink", "150"])
        nx86 = int(3600 * scale)
        f86 = rng.below(1 << 30)
        for i in range(0, nx86, 100):
            add("x86", f86 + i, min(100, nx86 - i), ["--shrink", "100"])
        na64 = int(4000 * scale)
        fa = rng.below(1 << 30)
        for i in range(0, na64, 100):
            add("a64", fa + i, min(100, na64 - i), ["--shrink", "100"])
        nl = int(3000 * scale)
        fl = rng.below(1 << 30)
        for i in range(0, nl, 75):
            add("a64lists", fl + i, min(75, nl - i))
        add("x86lists", rng.below(1 << 30), int(600 * scale) or 1)
    else:
        nx64, chunk = int(80000 * scale), 500
        first = rng.below(1 << 30)
        for i in range(0, nx64, chunk):
            add("x64", first + i, min(chunk, nx64 - i), ["--shrink", "400"])
        # every CFG shape with <= 5 body blocks once (tiny profile), seeded samples with the medium / pressure profiles
        tot = int(ns * min(1.0, scale))
        for i in range(0, tot, 1000):
            add("shapes", i, min(1000, tot - i), ["--shrink", "200"])
        for k in range(int(32 * scale) or 1):
            add("shapes", ns + rng.below(ns - 500), 500, ["--shrink", "200"])
        for k in range(int(32 * scale) or 1):
            add("shapes", 2 * ns + rng.below(ns - 500), 500, ["--shrink", "200"])
        nx86 = int(20000 * scale)
        f86 = rng.below(1 << 30)
        for i in range(0, nx86, 250):
            add("x86", f86 + i, min(250, nx86 - i), ["--shrink", "150"])
        na64 = int(24000 * scale)
        fa = rng.below(1 << 30)
        for i in range(0, na64, 250):
            add("a64", fa + i, min(250, na64 - i), ["--shrink", "150"])
        nl = int(8000 * scale)
        fl = rng.below(1 << 30)
        for i in range(0, nl, 250):
            add("a64lists", fl + i, min(250, nl - i))
        add("x86lists", rng.below(1 << 30), int(400 * scale) or 1)
    return jobs


# ---------------------------------------------------------------------------------------------------------------
# independent decoders
# ---------------------------------------------------------------------------------------------------------------

def _tmpdir():
    d = os.path.join(common.VERIF, ".cache", "tmp")
    os.makedirs(d, exist_ok=True)
    return tempfile.mkdtemp(dir=d, prefix="c05-")


def _run(cmd, inp=None, timeout=900):
    p = subprocess.run(cmd, input=inp, stdout=subprocess.PIPE, stderr=subprocess.PIPE, timeout=timeout)
    return p.returncode, p.stdout.decode("utf-8", "replace"), p.stderr.decode("utf-8", "replace")


_OBJ_LINE = re.compile(r"^\s*([0-9a-f]+):\s+((?:[0-9a-f]{2} )+)\s*(?:\t(.*))?$")


def objdump_x86(blob, bits):
    """GNU objdump over a flat blob -> list of (address, nbytes, text)"""
    d = _tmpdir()
    try:
        path = os.path.join(d, "b.bin")
        with open(path, "wb") as fh:
            fh.write(blob)
        arch = "i386:x86-64" if bits == 64 else "i386"
        rc, out, err = _run(["objdump", "-D", "-b", "binary", "-m", arch, "-M", "intel", "-w", path])
        if rc != 0:
            raise common.HarnessError("objdump failed: " + err[-300:])
        res = []
        for ln in out.splitlines():
            m = _OBJ_LINE.match(ln)
            if m:
                res.append((int(m.group(1), 16), len(m.group(2).split()), (m.group(3) or "").strip()))
        return res
    finally:
        shutil.rmtree(d, ignore_errors=True)


_WARN = re.compile(r"<stdin>:(\d+):\d+: warning: invalid instruction encoding")


def llvm_disassemble_a64(words):
    """words: list of 4-byte strings -> list of text|None"""
    if not words:
        return []
    inp = "\n".join(" ".join("0x%02x" % b for b in w) for w in words) + "\n"
    rc, out, err = _run(["llvm-mc", "-triple=aarch64", "-mattr=" + LLVM_A64_ATTRS, "--disassemble"], inp.encode())
    invalid = set(int(m.group(1)) - 1 for m in _WARN.finditer(err))
    lines = [ln.strip() for ln in out.splitlines() if ln.strip() and not ln.strip().startswith(".text")]
    res, k = [], 0
    for i in range(len(words)):
        if i in invalid:
            res.append(None)
        else:
            res.append(lines[k] if k < len(lines) else None)
            k += 1
    if k != len(lines):
        raise common.HarnessError("llvm-mc --disassemble: %d lines for %d valid words" % (len(lines), k))
    return res


def code_segments(p):
    """-> list of (start, end, must_end_with_transfer): the code of a compiled program without its data ranges (jump tables, constant pool,
    data embedded inside the function). A segment that is followed by data placed INSIDE the function must end with an unconditional transfer."""
    size = len(p["hex"]) // 2
    data = sorted((d[0], d[1], d[2]) for d in p.get("data", []))
    ivs = []
    for i, (off, sz, inside) in enumerate(data):
        if sz < 0:  # constant pool: up to the next data range / end of the code
            nxt = [d[0] for d in data if d[0] > off]
            sz = (min(nxt) if nxt else size) - off
        ivs.append((off, off + sz, inside))
    segs = []
    pos = 0
    for off, end, inside in ivs:
        if off > pos:
            segs.append((pos, off, bool(inside)))
        pos = max(pos, end)
    if pos < size:
        segs.append((pos, size, False))
    return segs


def check_x86_decode(progs, bits):
    """every code segment must decode without '(bad)'; data inside the function must be preceded by jmp/ret. Returns (violations, stats)"""
    if not progs:
        return [], {}
    blob = bytearray()
    spans = []
    for p in progs:
        code = bytes.fromhex(p["hex"])
        for (s0, s1, must) in code_segments(p):
            start = len(blob)
            blob += code[s0:s1]
            spans.append((start, len(blob), p, s0, must))
            blob += b"\x90" * 16
    lines = objdump_x86(bytes(blob), bits)
    viol = []
    stats = {"instructions_decoded": 0, "stack_loads": 0, "stack_stores": 0, "code_segments": len(spans), "segments_before_embedded_data": 0}
    last = {}
    si = 0
    for addr, n, text in lines:
        while si < len(spans) and addr >= spans[si][1] + 16:
            si += 1
        if si >= len(spans):
            break
        s0, s1, p, coff, must = spans[si]
        if addr < s0 or addr >= s1:
            continue
        stats["instructions_decoded"] += 1
        last[si] = (addr + n, text)
        if "(bad)" in text or text.startswith(".byte"):
            viol.append((p, "undecodable", "undecodable bytes at code offset 0x%x: %s" % (coff + addr - s0, text)))
        m = re.match(r"^\w+\s+(.*)$", text)
        if m and re.search(r"\[(esp|ebp|rsp)[+\]]", text):
            ops = m.group(1)
            if re.match(r"^[a-z0-9]+,", ops):
                stats["stack_loads"] += 1
            else:
                stats["stack_stores"] += 1
    for i, (s0, s1, p, coff, must) in enumerate(spans):
        if not must:
            continue
        stats["segments_before_embedded_data"] += 1
        end, text = last.get(i, (None, ""))
        mn = text.split()[0] if text else ""
        if end != s1 or mn not in ("jmp", "ret", "retn"):
            viol.append((p, "falls-into-data", "code before the data embedded at offset 0x%x does not end with jmp/ret (last instruction: '%s'): "
                            "execution falls through into data" % (coff + s1 - s0, text)))
    return viol, stats


def check_a64_decode(progs):
    if not progs:
        return [], {}
    words, owner = [], []
    segs_all = []
    for pi, p in enumerate(progs):
        code = bytes.fromhex(p["hex"])
        for (s0, s1, must) in code_segments(p):
            first = len(words)
            for i in range(s0, s1 - 3, 4):
                words.append(code[i:i + 4])
                owner.append((pi, i))
            segs_all.append((pi, first, len(words), s1, must))
    texts = llvm_disassemble_a64(words)
    viol = []
    stats = {"instructions_decoded": 0, "stack_loads": 0, "stack_stores": 0, "code_segments": len(segs_all), "segments_before_embedded_data": 0}
    seen = set()
    for (pi, off), t in zip(owner, texts):
        if t is None:
            if pi not in seen:
                seen.add(pi)
                viol.append((progs[pi], "undecodable", "undecodable word at code offset 0x%x: %s" % (off, bytes.fromhex(progs[pi]["hex"])[off:off + 4].hex())))
            continue
        stats["instructions_decoded"] += 1
        if "[sp" in t:
            mn = t.split()[0]
            if mn.startswith("ld"):
                stats["stack_loads"] += 1
            elif mn.startswith("st"):
                stats["stack_stores"] += 1
    for pi, first, end, s1, must in segs_all:
        if not must:
            continue
        stats["segments_before_embedded_data"] += 1
        t = texts[end - 1] if end > first else None
        mn = t.split()[0] if t else ""
        if mn not in ("b", "br", "ret"):
            viol.append((progs[pi], "falls-into-data", "code before the data embedded at offset 0x%x does not end with b/br/ret (last instruction: '%s'): "
                                    "execution falls through into data" % (s1, t)))
    return viol, stats


# ---------------------------------------------------------------------------------------------------------------
# symbolic execution of register-list programs
# ---------------------------------------------------------------------------------------------------------------

_A64_LIST = re.compile(r"\{\s*([^}]*)\}")
_VREG = re.compile(r"\bv(\d+)\b")


def _a64_list_regs(text):
    m = _A64_LIST.search(text)
    if not m:
        return None
    inner = m.group(1)
    ids = [int(x) for x in re.findall(r"v(\d+)\.", inner)]
    if "-" in inner and len(ids) == 2:  # range syntax { v0.16b-v3.16b }
        a, b = ids
        n = (b - a) % 32 + 1
        ids = [(a + j) % 32 for j in range(n)]
    return ids


def symexec_a64(texts):
    """returns (stores, unknown) ; stores = list of token lists"""
    reg = {}
    stack = {}
    stores = []
    unknown = []
    order = 0

    def tok(i):
        return reg.get(i, "?")

    for t in texts:
        if t is None:
            unknown.append("undecodable")
            continue
        t = t.split("//")[0].strip().replace("\t", " ")
        mn = t.split()[0]
        rest = t[len(mn):].strip()
        if re.match(r"^ld[1-4]r?$", mn):
            ids = _a64_list_regs(rest)
            if ids is None:
                unknown.append(t)
                continue
            for j, i in enumerate(ids):
                reg[i] = "L%d.%d" % (order, j)
            order += 1
        elif re.match(r"^st[1-4]$", mn):
            ids = _a64_list_regs(rest)
            if ids is None:
                unknown.append(t)
                continue
            # consecutive (mod 32) is inherent in the encoding; LLVM prints what the hardware would use
            for a, b in zip(ids, ids[1:]):
                if (a + 1) % 32 != b:
                    unknown.append("non-consecutive list printed: " + t)
            stores.append([tok(i) for i in ids])
        elif mn in ("tbl", "tbx"):
            ids = _a64_list_regs(rest)
            m = re.match(r"^v(\d+)\.\w+\s*,\s*\{[^}]*\}\s*,\s*v(\d+)\.", rest)
            if ids is None or not m:
                unknown.append(t)
                continue
            d, ix = int(m.group(1)), int(m.group(2))
            s = ("T" if mn == "tbl" else "X") + str(order) + "("
            if mn == "tbx":
                s += tok(d) + "|"
            s += "".join(tok(i) + "," for i in ids) + "|" + tok(ix) + ")"
            reg[d] = s
            order += 1
        elif mn == "mov" and re.match(r"^v(\d+)\.16b\s*,\s*v(\d+)\.16b$", rest):
            m = re.match(r"^v(\d+)\.16b\s*,\s*v(\d+)\.16b$", rest)
            reg[int(m.group(1))] = tok(int(m.group(2)))
        elif mn == "orr" and re.match(r"^v(\d+)\.16b\s*,\s*v(\d+)\.16b\s*,\s*v(\d+)\.16b$", rest):
            m = re.match(r"^v(\d+)\.16b\s*,\s*v(\d+)\.16b\s*,\s*v(\d+)\.16b$", rest)
            if m.group(2) == m.group(3):
                reg[int(m.group(1))] = tok(int(m.group(2)))
            else:
                reg[int(m.group(1))] = "?"
                unknown.append(t)
        elif mn == "add" and re.match(r"^v(\d+)\.4s\s*,\s*v(\d+)\.4s\s*,\s*v(\d+)\.4s$", rest):
            m = re.match(r"^v(\d+)\.4s\s*,\s*v(\d+)\.4s\s*,\s*v(\d+)\.4s$", rest)
            reg[int(m.group(1))] = "A(%s,%s)" % (tok(int(m.group(2))), tok(int(m.group(3))))
        elif mn in ("str", "stur") and re.match(r"^q(\d+)\s*,\s*\[sp(?:,\s*#(-?\d+))?\]$", rest):
            m = re.match(r"^q(\d+)\s*,\s*\[sp(?:,\s*#(-?\d+))?\]$", rest)
            stack[int(m.group(2) or 0)] = tok(int(m.group(1)))
        elif mn in ("ldr", "ldur") and re.match(r"^q(\d+)\s*,\s*\[sp(?:,\s*#(-?\d+))?\]$", rest):
            m = re.match(r"^q(\d+)\s*,\s*\[sp(?:,\s*#(-?\d+))?\]$", rest)
            reg[int(m.group(1))] = stack.get(int(m.group(2) or 0), "?")
        elif mn in ("stp", "str", "stur") and re.match(r"^[dxw]\d+", rest):
            pass  # prolog saves of callee-saved registers / pointers
        elif mn in ("ldp", "ldr", "ldur") and re.match(r"^d(\d+)", rest):
            for x in re.findall(r"\bd(\d+)\b", rest.split("[")[0]):
                reg[int(x)] = "?restored"
        elif re.match(r"^[xw]\d+|^sp\b|^x\d+", rest) or mn in ("ret", "nop", "b", "bti"):
            pass  # integer / control instructions do not touch vector registers
        else:
            if re.search(r"\b[vqdsbh]\d+\b", rest.split(",")[0]):
                m = re.search(r"\b[vqdsbh](\d+)\b", rest.split(",")[0])
                reg[int(m.group(1))] = "?"
            unknown.append(t)
    return stores, unknown


def symexec_x86_kpairs(lines):
    """objdump intel text of a vp2intersect program"""
    k = {}
    stack = {}
    stores = []
    unknown = []
    order = 0

    def tok(i):
        return k.get(i, "?")

    for text in lines:
        t = re.sub(r"\s+", " ", text.strip())
        mn = t.split(" ")[0]
        ops = t[len(mn):].strip()
        if mn == "kmovq":
            m = re.match(r"^k(\d),QWORD PTR \[(\w+)([+-]0x[0-9a-f]+)?\]$", ops)
            if m:
                if m.group(2) in ("rsp", "rbp"):
                    k[int(m.group(1))] = stack.get((m.group(2), m.group(3) or ""), "?")
                else:
                    k[int(m.group(1))] = "L%d.0" % order
                    order += 1
                continue
            m = re.match(r"^QWORD PTR \[(\w+)([+-]0x[0-9a-f]+)?\],k(\d)$", ops)
            if m:
                if m.group(1) in ("rsp", "rbp"):
                    stack[(m.group(1), m.group(2) or "")] = tok(int(m.group(3)))
                else:
                    stores.append([tok(int(m.group(3)))])
                continue
            m = re.match(r"^k(\d),k(\d)$", ops)
            if m:
                k[int(m.group(1))] = tok(int(m.group(2)))
                continue
            unknown.append(t)
        elif mn in ("vp2intersectd", "vp2intersectq"):
            m = re.match(r"^k(\d),", ops)
            if not m:
                unknown.append(t)
                continue
            lead = int(m.group(1)) & ~1  # the hardware writes k(2n) and k(2n+1)
            k[lead] = "P%d.0" % order
            k[lead + 1] = "P%d.1" % order
            order += 1
        elif mn == "kandq":
            m = re.match(r"^k(\d),k(\d),k(\d)$", ops)
            if m:
                k[int(m.group(1))] = "A(%s,%s)" % (tok(int(m.group(2))), tok(int(m.group(3))))
            else:
                unknown.append(t)
        elif re.match(r"^k\d", ops):
            k[int(ops[1])] = "?"
            unknown.append(t)
    return stores, unknown


def check_lists(progs):
    """returns (violations [(prog, key_suffix, what)], stats)"""
    viol = []
    stats = {"list_programs_checked": 0, "list_stores_compared": 0, "list_inconclusive": 0, "list_instructions": 0}
    a64 = [p for p in progs if p["kind"] == 0]
    if a64:
        words, owner = [], []
        for pi, p in enumerate(a64):
            code = bytes.fromhex(p["hex"])
            for i in range(0, len(code) - 3, 4):
                words.append(code[i:i + 4])
                owner.append(pi)
        texts = llvm_disassemble_a64(words)
        per = [[] for _ in a64]
        for pi, t in zip(owner, texts):
            per[pi].append(t)
        for p, tx in zip(a64, per):
            stores, unknown = symexec_a64(tx)
            stats["list_instructions"] += sum(1 for t in tx if t and re.match(r"^(ld[1-4]|st[1-4]|tbl|tbx)\b", t))
            _judge(p, stores, unknown, "a64", viol, stats, "\n".join(t or "<invalid>" for t in tx))
    for p in progs:
        if p["kind"] != 1:
            continue
        lines = [t for _, _, t in objdump_x86(bytes.fromhex(p["hex"]), 64)]
        stores, unknown = symexec_x86_kpairs(lines)
        stats["list_instructions"] += sum(1 for t in lines if t.startswith("vp2intersect"))
        _judge(p, stores, unknown, "x64", viol, stats, "\n".join(lines))
    return viol, stats


def _judge(p, stores, unknown, arch, viol, stats, listing):
    exp = p["expect"]
    stats["list_programs_checked"] += 1
    if len(stores) != len(exp):
        viol.append((p, "%s:list-dataflow:store-count" % arch, "register-list program: %d stores in the code, %d in the program\n%s" % (len(stores), len(exp), listing)))
        return
    for i, (s, e) in enumerate(zip(stores, exp)):
        stats["list_stores_compared"] += 1
        if s != e:
            if any("?" in x for x in s) and unknown:
                stats["list_inconclusive"] += 1
                return
            kind = "list-member" if len(e) > 1 else "value"
            viol.append((p, "%s:list-dataflow:%s" % (arch, kind),
                         "store #%d of the register-list program writes %s but the program says %s (registers of a list must be consecutive and hold the "
                         "list members in order)\n%s" % (i, s, e, listing)))
            return


# ---------------------------------------------------------------------------------------------------------------
# run
# ---------------------------------------------------------------------------------------------------------------

def _parse_summary(out):
    for ln in reversed(out.decode("utf-8", "replace").splitlines()):
        if ln.startswith('{"mode"'):
            return json.loads(ln)
    return None


def _san_summaries(err):
    txt = err.decode("utf-8", "replace") if isinstance(err, bytes) else err
    res = []
    for ln in txt.splitlines():
        if ln.startswith("SUMMARY:") or "runtime error:" in ln:
            s = re.sub(r"0x[0-9a-f]+", "0x..", ln.strip())
            s = re.sub(r"==\d+==", "", s)
            if s not in res:
                res.append(s)
    return res


def run(tier, args):
    chk = common.Check("C05", tier)
    exe = build.build_driver("drv_ra", "asan")

    avoid, unreachable = 0, True
    probe_results = {}
    if args.replay:
        rp = json.load(open(args.replay))
        jobs = [rp["case"]["argv"]]
    else:
        # ---- probes: constructs known to be defective get a stable key and are then avoided by the random generator
        rc, out, err = common.run_child([exe, "--mode", "probe"], timeout=600)
        res = _parse_summary(out)
        if res is None:
            raise common.HarnessError("probe run produced no summary (rc=%s): %s" % (rc, err[-400:]))
        for h in res["harness_errors"]:
            raise common.HarnessError("probe: " + h)
        for v in res["violations"]:
            chk.violation(v["key"], v["what"] + "\n" + v["witness"][:3000], {"argv": ["--mode", "probe", "--name", v["key"].split(":")[-1]]})
        for f in res.get("probe_failed", []):
            probe_results[f["name"]] = f["avoid"]
            if f["avoid"] == UNREACHABLE_BIT:
                unreachable = False
            else:
                avoid |= f["avoid"]
        jobs = make_jobs(tier, chk.seed, args.scale, avoid, unreachable)

    def one(argv):
        rc, out, err = common.run_child([exe] + argv, timeout=3000)
        return argv, rc, out, err

    tot = {}
    maps = {}
    per_mode = {}
    distinct = {"x64": set(), "x86": set(), "a64": set(), "lists": set()}
    distinct_all = 0
    shapes = set()
    samples = []
    max_live = {}
    decode_stats = {"x86": {}, "a64": {}, "lists": {}}
    harness = []
    exec_stats = {"x86": {}, "a64": {}}
    exec_classes = {}
    unsupported_kinds = {}
    rewrites = {}

    def acc(dst, src):
        for k, v in src.items():
            dst[k] = dst.get(k, 0) + v

    for argv, rc, out, err in common.parallel_map(one, jobs):
        mode = argv[1]
        res = _parse_summary(out)
        rep = common.sanitizer_report(err)
        if res is None:
            if rep:
                top = next((f for f in rep["frames"] if "asmjit" in f), rep["frames"][0] if rep["frames"] else "?")
                chk.violation("sanitizer:%s:%s" % (rep["kind"].split(" on ")[0][:60], top.split("(")[0][:80]),
                              "sanitizer report inside the register allocator under %s: %s %s" % (argv, rep["kind"], rep["frames"][:6]), {"argv": argv})
                continue
            raise common.HarnessError("driver %s rc=%s produced no summary: %s" % (argv, rc, err[-500:]))
        san = _san_summaries(err)
        for v in res["violations"]:
            what = v["what"]
            if ":ra-crash:" in v["key"] and san:
                what += " | sanitizer: " + "; ".join(san[:3])
            rargv = argv if mode == "probe" else ["--mode", mode, "--first", str(v["index"]), "--count", str(v.get("count", 1))] + argv[6:]
            chk.violation(v["key"], what + "\nwitness:\n" + v["witness"][:6000], {"argv": rargv})
        harness += res["harness_errors"]
        arch = "x64" if mode in ("x64", "shapes", "probe") else "x86" if mode == "x86" else "a64" if mode == "a64" else "lists"
        pm = per_mode.setdefault(mode, {})
        for k in ("programs", "evaluations", "inputs_run", "nontrivial", "compile_errors", "loads", "saves", "moves", "swaps", "rm_subst",
                  "user_insts", "calls_logged", "dyn_ops"):
            pm[k] = pm.get(k, 0) + res[k]
            tot[k] = tot.get(k, 0) + res[k]
        for k in ("by_profile", "cfg_kinds", "ops_by_kind", "term_by_kind"):
            acc(maps.setdefault(k, {}), res[k])
        max_live[arch] = max(max_live.get(arch, 0), res["max_live"])
        lh = maps.setdefault("live_hist", [0] * 6)
        for i, x in enumerate(res["live_hist"]):
            lh[i] += x
        distinct[arch].update(res["distinct_nontrivial"])
        distinct_all += res["distinct_all"]
        shapes.update(res["cfg_shapes"])
        acc(rewrites, res.get("inst_id_rewrites", {}))
        ex = res.get("exec")
        if ex and arch in exec_stats:
            for k in ("programs", "inputs", "unsupported", "steps", "annotated"):
                exec_stats[arch][k] = exec_stats[arch].get(k, 0) + ex[k]
            if arch == "a64":
                acc(exec_classes, ex["classes"])
                acc(unsupported_kinds, ex["unsupported_kinds"])
        comp = res.get("compiled", [])
        if mode == "x86":
            viol, st = check_x86_decode(comp, 32)
            acc(decode_stats["x86"], st)
            for p, kind, what in viol:
                chk.violation("x86-32:%s" % ("undecodable-code" if kind == "undecodable" else "ret-or-jmp-missing-before-embedded-data"),
                              what + " (program index %d, profile %s)" % (p["index"], p["profile"]),
                              {"argv": ["--mode", "x86", "--first", str(p["index"]), "--count", "1"] + argv[6:]})
        elif mode == "a64":
            viol, st = check_a64_decode(comp)
            acc(decode_stats["a64"], st)
            for p, kind, what in viol:
                chk.violation("a64:%s" % ("undecodable-code" if kind == "undecodable" else "branch-missing-before-embedded-data"),
                              what + " (program index %d, profile %s)" % (p["index"], p["profile"]),
                              {"argv": ["--mode", "a64", "--first", str(p["index"]), "--count", "1"] + argv[6:]})
        elif mode in ("a64lists", "x86lists"):
            viol, st = check_lists(comp)
            acc(decode_stats["lists"], st)
            for p, key, what in viol:
                chk.violation(key, what + "\nprogram:\n" + p["ir"], {"argv": ["--mode", mode, "--first", str(p["index"]), "--count", "1"] + argv[6:]})
        if len(samples) < 5 and res["programs"]:
            samples.append({"driver_args": argv, "programs": res["programs"], "spill_saves": res["saves"], "reloads": res["loads"],
                            "moves": res["moves"], "swaps": res["swaps"], "reg_to_mem": res["rm_subst"], "max_live": res["max_live"]})

    if harness:
        raise common.HarnessError("generated program not well-defined / harness trouble: %s (%d)" % (harness[0], len(harness)))

    ops = maps.get("ops_by_kind", {})
    terms = maps.get("term_by_kind", {})
    nx64 = per_mode.get("x64", {}).get("programs", 0)
    nx86 = per_mode.get("x86", {}).get("programs", 0)
    na64 = per_mode.get("a64", {}).get("programs", 0)

    # ---- every dimension the check claims must have been OBSERVED in this run, otherwise the run is inconclusive
    if not args.replay:
        missing = []

        def need(cond, what):
            if not cond:
                missing.append(what)

        for arch, n, label in (("x86", nx86, "x86-32"), ("a64", na64, "AArch64")):
            if n:
                ex = exec_stats[arch]
                need(ex.get("programs", 0) > 0, "%s programs executed" % label)
                need(ex.get("unsupported", 0) * 50 <= n, "%s executor coverage (%d of %d programs hit an instruction outside the executor's subset: %s)"
                     % (label, ex.get("unsupported", 0), n, sorted(unsupported_kinds)[:4]))
                need(ex.get("annotated", 0) not in (0, n) or n < 20, "%s programs with and without kRAAnnotate" % label)
        if nx64 >= 3000:
            for k in ("blendv", "mulx", "str", "str-with-rep-prefix", "cx16", "lahf", "sahf", "maskmov", "vround", "call-target-in-register", "call-target-in-memory",
                      "call-ms_abi-callee", "call-variadic-callee", "call-vector-argument", "call-vector-return", "call-float32-argument",
                      "call-stack-argument-zero-extended-from-narrower-register", "call-stack-argument-sign-extended-from-narrower-register",
                      "compiled-with-kRAAnnotate", "compiled-without-kRAAnnotate", "compiled-with-kRADebugAll-and-logger",
                      "functions-compiled-in-a-multi-function-Compiler", "functions-sharing-virtual-registers-with-earlier-functions"):
                need(ops.get(k, 0) > 0, "x86-64 dimension '%s'" % k)
            for k in ("br-jecxz", "dec-loop-instruction"):
                need(terms.get(k, 0) > 0, "x86 terminator '%s'" % k)
            if any(k.startswith("vmovdq") for k in rewrites):   # AVX-512 host: registers 16..31 are in play
                for k in ("vround", "vextractf128", "vinsertf128"):
                    need(any(r.startswith(k) for r in rewrites), "VEX->EVEX rewrite of %s*" % k)
        if na64 >= 1000:
            for k in ("ald", "ast", "atbl", "aidx", "amule"):
                need(ops.get(k, 0) > 0, "AArch64 op '%s'" % k)
            for k in ("br-cbz/cbnz", "br-tbz/tbnz"):
                need(terms.get(k, 0) > 0, "AArch64 terminator '%s'" % k)
            for k in ("helper-call", "ldr-post", "ldr-pre", "str-post", "str-pre", "cbz/cbnz", "tbz/tbnz", "mul-by-element"):
                need(exec_classes.get(k, 0) > 0, "AArch64 executor class '%s'" % k)
            need(any(k.startswith("ld") and "lane" in k for k in exec_classes), "AArch64 lane loads executed")
            need(any(re.match(r"^ld[1-4]r", k) for k in exec_classes), "AArch64 replicating loads executed")
            need(any(k.startswith("tbl-") for k in exec_classes) and any(k.startswith("tbx-") for k in exec_classes), "AArch64 tbl/tbx executed")
        if missing:
            raise common.HarnessError("dimension(s) not observed in this run: " + "; ".join(missing[:6]) + (" (+%d more)" % (len(missing) - 6) if len(missing) > 6 else ""))

    nshapes = shape_count()
    call_dims = {k: v for k, v in ops.items() if k.startswith("call-")}
    chk.coverage.update({
        "evaluations": tot.get("evaluations", 0),
        "distinct_nontrivial": len(distinct["x64"]),
        "rule": "one evaluation = one generated program compiled by the Compiler and EXECUTED: x86-64 natively on 16 inputs (6 boundary + 10 random), x86-32 "
                "through the far-call gate on 16 inputs, AArch64 on the instruction-word executor on 8 inputs; every run is compared with the reference "
                "interpreter (return value, whole argument buffer incl. the final value of every dumped virtual register, helper-call log) and the "
                "callee-saved registers are compared with sentinels. distinct = hash of the serialised IR; non-trivial = the compiled code of the x86-64 "
                "program contains >= 1 RA-inserted reload/spill-save/move/swap (RA annotations, programs with an odd index only - the others are compiled "
                "without kRAAnnotate like a default user) or a register->memory operand substitution (operand kind of a user instruction changed "
                "from Reg to Mem). The other targets are counted separately below.",
        "samples": samples,
        "x64_programs_executed": per_mode.get("x64", {}).get("programs", 0) + per_mode.get("shapes", {}).get("programs", 0),
        "x64_inputs_run": per_mode.get("x64", {}).get("inputs_run", 0) + per_mode.get("shapes", {}).get("inputs_run", 0),
        "x64_callee_saved_sentinel_checks": per_mode.get("x64", {}).get("inputs_run", 0) + per_mode.get("shapes", {}).get("inputs_run", 0),
        "x64_dynamic_ir_ops_interpreted": tot.get("dyn_ops", 0),
        "x64_helper_calls_compared": tot.get("calls_logged", 0),
        "x64_call_lowering_dimensions": call_dims,
        "x64_fixed_register_classes": {k: ops.get(k, 0) for k in ("shc", "mul1", "div", "cmpxchg", "blendv", "mulx", "str", "str-with-rep-prefix", "cx16", "lahf", "sahf",
                                                                    "maskmov", "vgather")},
        "x64_compile_configurations": {k: v for k, v in ops.items() if k.startswith("compiled-") or "function" in k or "inconclusive" in k},
        "x64_instruction_id_rewrites_(vex->evex etc.)": rewrites,
        "systematic_cfg_shapes_total": nshapes,
        "systematic_cfg_shape_programs_run": per_mode.get("shapes", {}).get("programs", 0),
        "distinct_cfg_shapes_seen": len(shapes),
        "cfg_kinds": maps.get("cfg_kinds", {}),
        "terminators_by_kind": terms,
        "max_simultaneously_live_values": max_live,
        "programs_by_max_live_bucket_(<8,<17,<33,<65,<129,>=129)": maps.get("live_hist", []),
        "ra_actions_observed": {"reloads": tot.get("loads", 0), "spill_saves": tot.get("saves", 0), "moves": tot.get("moves", 0),
                                "swaps": tot.get("swaps", 0), "reg_to_mem_substitutions": tot.get("rm_subst", 0),
                                "user_instructions": tot.get("user_insts", 0)},
        "per_mode": per_mode,
        "other_targets": {
            "x86_32": {"programs": nx86, "distinct_nontrivial": len(distinct["x86"]), "finalize_errors": per_mode.get("x86", {}).get("compile_errors", 0),
                       "decode": decode_stats["x86"], "executed": True, "executed_programs": exec_stats["x86"].get("programs", 0),
                       "executed_inputs": exec_stats["x86"].get("inputs", 0), "compiled_with_kRAAnnotate": exec_stats["x86"].get("annotated", 0)},
            "aarch64": {"programs": na64, "distinct_nontrivial": len(distinct["a64"]), "finalize_errors": per_mode.get("a64", {}).get("compile_errors", 0),
                        "decode": decode_stats["a64"], "executed": True, "executed_programs": exec_stats["a64"].get("programs", 0),
                        "executed_inputs": exec_stats["a64"].get("inputs", 0), "executor_instructions_run": exec_stats["a64"].get("steps", 0),
                        "executor_unsupported_programs": exec_stats["a64"].get("unsupported", 0), "executor_instruction_classes": exec_classes,
                        "compiled_with_kRAAnnotate": exec_stats["a64"].get("annotated", 0)},
            "register_lists_symbolic": {"a64_programs": per_mode.get("a64lists", {}).get("programs", 0),
                                        "x64_vp2intersect_programs": per_mode.get("x86lists", {}).get("programs", 0),
                                        "compile_failures_or_crashes": per_mode.get("a64lists", {}).get("compile_errors", 0) + per_mode.get("x86lists", {}).get("compile_errors", 0),
                                        "symbolic_check": decode_stats["lists"], "executed": False},
        },
        "ops_by_kind": ops,
        "programs_by_profile": maps.get("by_profile", {}),
        "probes_failed": sorted(probe_results),
        "generator_avoid_mask": avoid,
        "unreachable_blocks_generated": unreachable,
        "exhaustive": False,
        "jobs": len(jobs),
    })
    chk.assumptions += [
        "ASan/UBSan build of /repo's working tree; JIT-executed code itself is not instrumented. Each compiled x86-64 function runs in a forked child "
        "(guard pages around the argument buffer, CPU-time limit): a crash or hang of generated code is a violation, a wall-clock watchdog is inconclusive. "
        "x86-32 and AArch64 programs are compiled AND executed in one forked child per program",
        "x86-32 execution: the code is relocated to 0x08010000 and entered through a far return into the 32-bit code segment; helper callees are 32-bit stubs "
        "(cdecl, odd ids stdcall with ret n) that far-call a 64-bit handler, so arguments are read from the real 32-bit stack and results come back in "
        "eax / edx:eax / ST0. Values that travel through ST0 are compared modulo x87 NaN quieting. AArch64 execution: an executor for ~60 instruction "
        "classes written from the Arm ARM interprets the ENCODED words (prolog, spill code, call lowering, epilog included); an instruction outside the "
        "subset makes that program inconclusive (counted; more than 2% of them makes the whole run inconclusive). Both are harness code: a disagreement "
        "with the reference interpreter on the unchanged tree is triaged before it is reported",
        "the reference interpreter is harness code written from the Intel SDM / Arm ARM; it tracks definedness per byte and refuses (harness error) any program "
        "that reads undefined bytes, so only well-defined programs are judged. Helper callees overwrite every caller-saved GP/vector/mask register "
        "(AArch64: x0-x17, v0-v7, v16-v31, the upper halves of v8-v15, NZCV; x86-32: eax, ecx, edx, xmm/ymm/zmm0-7, k0-7). vround* is judged against the host "
        "instruction with the same immediate",
        "constructs whose probe fails are avoided by the random generator (mask above) - they are reported once under <arch>:probe:* instead of polluting "
        "every random program; a passing probe re-enables the construct. For the AArch64 x30 defect the generator does not drop calls under pressure, it "
        "makes x30 unavailable through FuncFrame::add_unavailable_regs",
        "call lowering (x86-64): the call target is an immediate, a virtual register or a memory operand (table of helper addresses behind the argument buffer); "
        "callees: 34 SysV signatures with 0..14 integer and 0..12 double arguments, 6 ms_abi (Win64) functions incl. vectors passed by reference, SysV and "
        "Win64 variadic functions read with va_arg, functions with __m128i arguments / result (9th vector on the stack), signed stack parameters; a "
        "stack-passed integer argument is taken from a virtual register of ANY width (narrower ones are zero / sign extended by the lowering; the "
        "expected extension follows AsmJit's own rule: sign extension only when parameter and register are both signed); register-passed arguments are "
        "only given registers at least as wide as the parameter because AsmJit assigns them unconverted; float parameters (SysV and Win64, register and stack positions) take the low 32 bits of a scalar register (AsmJit stores them with movss, no conversion)",
        "fixed / implicit registers: shift by CL, mul/div, cwd, cmpxchg, cmpxchg8b/16b (four fixed registers + memory), mulx (implicit edx), pblendvb / "
        "blendvps / blendvpd (implicit xmm0), [rep] stos / movs / lods (fixed edi / esi bases given as memory operands, eax, rep count in ecx; the advanced "
        "pointer and the final count are observed), [v]maskmovdqu (implicit edi base), lahf / sahf (AH), jecxz and loop terminators (their +-127 byte "
        "range is kept by a jmp right behind them; a finalize error InvalidDisplacement of such a program is counted as inconclusive, not as a "
        "violation). AArch64: cbz/cbnz/tbz/tbnz terminators, pre/post-index ldr/str whose written-back pointer is observed, ld1-ld4/st1-st4 in the "
        "multi-structure, multi-register, replicate and single-lane forms with post-index (immediate and register), tbl/tbx with 1..4 table registers, "
        "mul by element (half-word elements restrict the register to v0..v15) - all inside arbitrary CFGs with calls, and executed",
        "every second program is compiled WITHOUT kRAAnnotate (the default user configuration), one in 16 with kRADebugAll into a logger; half of the x86-64 "
        "programs are built three at a time as consecutive functions of ONE Compiler (one finalize), every second group reusing the virtual registers of "
        "the earlier functions; a failure that only appears in a group is reported under x64:<kind>:multi-function:<profile> and replays the group",
        "mutation self-test on scratch copies (quick tier, 2026-09-27): (1) x86rapass.cpp on_invoke forgets that r10 is clobbered, (2) ralocal.cpp "
        "switch_to_assignment drops the move into physical register 6, (3) x86rapass.cpp treats a write-only same-register idiom (xor r,r) as read-only, "
        "(4) x86emithelper.cpp spills 64-bit mask registers with kmovd - all four detected as new x64:miscompile:<profile> / x64:crash:<profile> keys; "
        "the mutant 'xor r,r is merely treated as a read of r' is semantically equivalent (only liveness grows) and is, as expected, not detected",
        "probe self-test (git worktree of /repo with one fix commit reverted each): every probe fires exactly for its fix - 7b46218 and-reg-zero, 893fb82 "
        "or-mem-all-ones, c996df8 reg-to-mem-32bit-rmw, 7d1fabd reg-to-mem-high-byte, b6ac079 reg-to-mem-kmovw, 7106f2f vector-argument-avx512, 9b5029b "
        "unreachable-predecessor, c1e90ec a64-tbl-register-list, d818bc6 vpternlog-merge-masked, 7a2ee99 same-reg-hint-different-views, 7a2ee99+86fe1c1 "
        "same-reg-idiom-narrow(+vector); with d818bc6 or 7a2ee99 reverted the random generator alone also alarms (avx512/mixed resp. partial profile)",
        "helper callees: called in random order inside one function (profiles calls, calls512, calls-stack: big call before small call and the reverse, "
        "spill slots and new_stack() memory live across the calls); probe call-stack-area-max-over-invokes = big call then small call. Seeded change C07-3 "
        "(set_call_stack_size instead of update_call_stack_size in on_before_invoke) is caught by that probe and by x64:miscompile/crash/hang keys of every "
        "profile with calls",
        "about one third of the integer helper-call arguments (register and stack positions, u8..u64) and of the stack-passed double arguments are "
        "passed as immediates (InvokeNode::set_arg(i, Imm)) drawn from boundary values (0, +-1, 0x7F/0x80/0xFF, 0x7FFF/0x8000/0xFFFF, 0x7FFFFFFF, "
        "0x80000000, 0xFFFFFFFF, 2^32, INT64 min/max, -0x80000000, -0x80000001, random 32/64-bit); on x86-32 a 64-bit immediate is given as the two "
        "halves of the argument's value pack; probe immediate-stack-argument rotates them through every position of the 14-integer and 14+12 callees. "
        "Seeded change C05-3 (is_uint32 instead of is_int32 in move_imm_to_stack_arg) is caught by the probe and by x64:miscompile keys of every profile",
        "generated functions take up to 31 parameters after the buffer pointer (6 fixed signatures, the largest 14 integer + 17 double, so that 9+9 "
        "parameters arrive on the stack; Globals::kMaxFuncArgs = 32; AArch64: the 32/64-bit ones, x86-32: cdecl / stdcall / fastcall); double parameters "
        "are bound to 64-bit and to wider 128-bit virtual registers, frames with and without preserved FP, 32/64-byte spill slots; every bound parameter "
        "is dumped. A share of programs embeds data inside the function (after the final ret, after early rets, behind unconditional / annotated jumps; "
        "jump tables inside the function): falling into it traps (x86: ud2, AArch64 executor: udf), and the instruction before every embedded data block "
        "must be jmp/ret (b/br/ret). Seeded changes C05-5 (is_next_to ignores data nodes) and C07-5 (_update_stack_args before adjust_slot_offsets) are "
        "caught by their probes and by random programs of most profiles; bt/bts/btr/btc with register index and vpgatherdd zmm{k} are generated (probes "
        "bt-register-base-spilled, gather-mask-written)",
        "integer parameters are always passed by the harness as full 64-bit values, so the bits above an 8/16/32-bit parameter are junk in registers "
        "and in stack slots (legal per ABI); a signature with 20 narrow parameters (u8/i8/u16/i16/u32/i32) exists and parameters are bound to equal "
        "and to wider virtual registers (unsigned -> zero extension, signed parameter + signed register -> sign extension, AsmJit's own cast table); "
        "probe narrow-stack-parameter-bound-to-wide-vreg",
        "not generated: MMX/x87 registers as virtual registers, f32 results, vzeroupper, pcmpistri / sha256rnds2 (their xmm0 / ecx classes are covered by "
        "blendv / mulx), AArch64 narrower-than-parameter argument registers (AsmJit stores them unconverted), Win64 / vectorcall as the convention of the "
        "generated function itself",
    ]
    return chk.finish()
