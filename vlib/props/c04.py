"""C04 - Relocated code addresses its absolute targets correctly at any base address.

Runtime monitor: drv_labels (ASan+UBSan build), modes c04 and jit. Random programs with absolute references (embed_label
4/8, x86-32 [label+disp] operands, mov acc,[moffs] / [abs] operands, jmp/call/jcc/jecxz imm, AArch64 b/bl/b.cond/cbz/tbz/
adr/adrp imm, label deltas across sections) are assembled twice per base address - base given to CodeHolder::init and base
given to relocate_to_base - for low/high/straddling bases, with `.addrtab` last or followed by a later section. The
flattened image (copy_flattened_data into a guard-banded buffer) is evaluated by the driver's own evaluator; a sample of
sites is re-decoded here with GNU objdump / LLVM. jit mode: JitRuntime::add must install exactly the image relocated to the
returned pointer; the code is then called and has to reach C functions of the driver (through `.addrtab` when they are
more than 2 GiB away, through rel32 for stubs in JIT memory) with the right arguments.

Round 11 additions: imm branches with prefixes/options in front of the opcode (67h jecxz/loop, hinted jcc, rex jmp/call);
a target refused at emit time by one build while the other build encodes it is judged; mem[abs + index]; a label and
reference sites in a section ordered behind .addrtab; embed_label of 1 and 2 bytes with bases 0/0x100/0x1000; x86-32
[rip+disp] operands (RelToAbs with region size) and mod_rm()/mod_mr() accumulator moves."""
import json

from vlib import build, common
from vlib.props import c03


def make_jobs(tier, seed, scale):
    rng = common.Rng(seed).fork("c04")
    jobs = []

    def s():
        return str(rng.next() % (1 << 40))

    if tier == "quick":
        for _ in range(48):
            jobs.append(["--mode", "c04", "--seed", s(), "--programs", str(max(1, int(200 * scale))), "--bases", "6", "--decode-samples", "24"])
        for _ in range(16):
            jobs.append(["--mode", "jit", "--seed", s(), "--programs", str(max(1, int(150 * scale)))])
    else:
        for _ in range(400):
            jobs.append(["--mode", "c04", "--seed", s(), "--programs", str(max(1, int(300 * scale))), "--bases", "12", "--decode-samples", "12"])
        for _ in range(48):
            jobs.append(["--mode", "jit", "--seed", s(), "--programs", str(max(1, int(500 * scale)))])
    return jobs


def run(tier, args):
    chk = common.Check("C04", tier)
    exe = build.build_driver("drv_labels", "asan")
    if args.replay:
        rp = json.load(open(args.replay))
        jobs = [rp["case"]["argv"]]
    else:
        jobs = make_jobs(tier, chk.seed, args.scale)
    results = c03.run_jobs(exe, jobs, chk)
    cnt, mx, classes, samples, decode = c03.merge(results)
    stats = {}
    c03.cross_check(chk, decode, stats)

    new_dims = {
        "c04_imm_branch_sites_with_prefix": "imm branches with a 67h / hint prefix",
        "c04_imm_branch_sites_with_forced_rex": "rel32 jmp/call imm with a forced REX",
        "c04_sites_through_addrtab_with_forced_rex": "jmp/call imm with a forced REX routed through .addrtab",
        "c04_one_side_errors_examined": "targets refused at emit by one of the two builds",
        "c04_emit_errors_judged_target_out_of_reach": "branches to an absolute target refused at emit time, judged against the distance",
        "c04_mem_abs_with_index_sites": "mem[abs + index] sites evaluated",
        "c04_references_behind_addrtab_evaluated": "reference sites in a section behind .addrtab",
        "c04_sites_through_addrtab_negative_slot_displacement": ".addrtab slots reached with a negative displacement",
        "c04_embed_label_1_or_2_bytes_verified": "embed_label of 1 or 2 bytes, verified",
        "c04_embed_label_1_or_2_bytes_unrepresentable_reported": "embed_label of 1 or 2 bytes that cannot hold the address, reported",
        "c04_x86_32_rip_form_verified": "x86-32 [rip+disp] operands",
        "c04_mov_acc_with_mod_rm_option_verified_in_modrm_form": "mov acc,[abs] under mod_rm()/mod_mr() (ModRM form instead of moffs)",
    }
    if not args.replay and not chk.violations and args.scale >= 0.5:
        dead = ["%s (%s)" % (k, v) for k, v in new_dims.items() if cnt.get(k, 0) == 0]
        if dead:
            raise common.HarnessError("dimensions that observed nothing in this run: %s" % "; ".join(dead))

    verified = sorted(c for c in classes if "unreachable-reported" not in c)
    reported = sorted(c for c in classes if "unreachable-reported" in c)
    inv = mx.get("jit_min_distance_of_addrtab_targets_bytes_inverted", 0)
    chk.coverage.update({
        "evaluations": cnt.get("c04_evaluations", 0) + cnt.get("jit_programs", 0),
        "distinct_nontrivial": len(classes),
        "rule": "one evaluation = one (program, base address, base-known-at-init | base-given-to-relocate_to_base) build taken through "
                "flatten/resolve/relocate_to_base/copy_flattened_data and evaluated reference by reference, or one JitRuntime::add "
                "program compared byte by byte and called. distinct = distinct tuple (arch, reference kind incl. the encoded form that "
                "came out: rel8/rel32/.addrtab slot/moffs/abs32/rip-rel/a64 format, base class, base known?, .addrtab absent|last|not last) "
                "observed either designating exactly the requested target or reported as unreachable by relocate_to_base.",
        "samples": samples + verified[:6],
        "distinct_verified": len(verified),
        "distinct_unreachable_reported": len(reported),
        "programs": cnt.get("c04_programs", 0),
        "programs_by_arch": {a: cnt.get("c04_programs_" + a, 0) for a in ("x64", "x86", "a64")},
        "references_total": cnt.get("c04_refs", 0),
        "references_verified": cnt.get("c04_refs_verified", 0),
        "relocate_ok": cnt.get("c04_relocate_ok", 0),
        "relocate_failures_justified_by_an_unreachable_reference": cnt.get("c04_relocate_failure_justified", 0),
        "relocate_errors": {k[len("c04_relocate_error_"):]: v for k, v in cnt.items() if k.startswith("c04_relocate_error_")},
        "emit_errors_by_kind": {k[len("c04_emit_error_"):]: v for k, v in cnt.items() if k.startswith("c04_emit_error_")},
        "unreachable_reported_by_form": {k[len("c04_unreachable_reported:"):]: v for k, v in cnt.items() if k.startswith("c04_unreachable_reported:")},
        "sites_through_addrtab": cnt.get("c04_sites_through_addrtab", 0),
        "known_vs_relocate_targets_compared": cnt.get("c04_known_vs_relocate_compared", 0),
        "known_vs_relocate_one_side_reports_error": cnt.get("c04_known_vs_relocate_one_side_reports_error", 0),
        "emit_errors_judged": cnt.get("c04_emit_errors_judged", 0),
        "emit_errors_judged_target_out_of_reach": cnt.get("c04_emit_errors_judged_target_out_of_reach", 0),
        "one_side_emit_errors": {k[len("c04_one_side_error"):].lstrip("s_"): v for k, v in cnt.items() if k.startswith("c04_one_side_error")},
        "imm_branch_sites_with_prefix": cnt.get("c04_imm_branch_sites_with_prefix", 0),
        "imm_branch_sites_with_forced_rex": cnt.get("c04_imm_branch_sites_with_forced_rex", 0),
        "sites_through_addrtab_with_forced_rex": cnt.get("c04_sites_through_addrtab_with_forced_rex", 0),
        "sites_through_addrtab_negative_slot_displacement": cnt.get("c04_sites_through_addrtab_negative_slot_displacement", 0),
        "mem_abs_with_index_sites": cnt.get("c04_mem_abs_with_index_sites", 0),
        "references_behind_addrtab_section": cnt.get("c04_references_behind_addrtab_evaluated", 0),
        "embed_label_1_or_2_bytes": {"verified": cnt.get("c04_embed_label_1_or_2_bytes_verified", 0),
                                     "unrepresentable_reported": cnt.get("c04_embed_label_1_or_2_bytes_unrepresentable_reported", 0),
                                     "programs_with_tiny_bases": cnt.get("c04_programs_with_small_fields_and_tiny_bases", 0)},
        "x86_32_rip_form_verified": cnt.get("c04_x86_32_rip_form_verified", 0),
        "mov_acc_with_mod_rm_option_verified_in_modrm_form": cnt.get("c04_mov_acc_with_mod_rm_option_verified_in_modrm_form", 0),
        "late_references_after_flatten": cnt.get("c04_late_references_after_flatten", 0),
        "code_size_reduction_checked": cnt.get("c04_code_size_reduction_checked", 0),
        "jit_programs": cnt.get("jit_programs", 0),
        "jit_programs_called": cnt.get("jit_programs_called", 0),
        "jit_calls_effect_verified": cnt.get("jit_calls_effect_verified", 0),
        "jit_c_functions_reached": cnt.get("jit_c_functions_reached", 0),
        "jit_bytes_compared": cnt.get("jit_bytes_compared", 0),
        "jit_native_call_sites_through_addrtab": cnt.get("jit_sites_through_addrtab", 0),
        "jit_native_call_sites_rel32": cnt.get("jit_sites_rel32", 0),
        "jit_min_distance_of_addrtab_targets_bytes": ((1 << 64) - 1 - inv) if inv else 0,
        "jit_max_distance_of_addrtab_targets_bytes": mx.get("jit_max_distance_of_addrtab_targets_bytes", 0),
        "other_counters": {k: v for k, v in cnt.items() if "refused_by_relocate" in k or "judged_by_C03" in k or "slot_missing" in k},
        "independent_decoders": stats,
        "exhaustive": False,
        "jobs": len(jobs),
    })
    chk.assumptions += [
        "ASan/UBSan instrumented static build of /repo's working tree; expected targets are computed from offset() snapshots, "
        "Section::offset() after flatten() and the base address; flatten()/relocate_to_base() are called once per CodeHolder (as documented)",
        "x86-32: addresses are taken modulo 2^32; a 4-byte absolute field whose value passes 2^32 may be reported or wrap",
        "an emit-time error for a jmp/call/jcc/jecxz/loop/AArch64 branch to an absolute target is a violation unless the base is known and no "
        "form of the instruction reaches the target from its site (without a known base the reference is a relocation: nothing to refuse); also "
        "when the other build (base known | base at relocation) encodes the same target and the distance fits that form; not judged: "
        "adrp (the direct path demands a page-aligned target, the relocation does not), mem[abs]/moffs (the addressing mode depends on a "
        "known base by design); adrp imm between 2 and 4 GiB away is refused by relocate_to_base although encodable - reported, not flagged",
        "mem[abs + index]: the displacement must designate the address for index 0 (sign-extended disp32; with a 32-bit index the sum wraps "
        "at 2^32, so zero-extended addresses and negative displacements are both accepted)",
        "RelocationSummary.code_size_reduction is judged by what JitRuntime needs from it: it equals what the address table gave back and "
        "estimated - reduction still covers every section (code_size() itself is C10's subject)",
        "native calls run on the x86-64 host only; AArch64 and x86-32 absolute references are evaluated statically",
    ]
    return chk.finish()
