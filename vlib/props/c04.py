"""C04 - Relocated code addresses its absolute targets correctly at any base address.

Runtime monitor: drv_labels (ASan+UBSan build), modes c04 and jit. Random programs with absolute references (embed_label
4/8, x86-32 [label+disp] operands, mov acc,[moffs] / [abs] operands, jmp/call/jcc/jecxz imm, AArch64 b/bl/b.cond/cbz/tbz/
adr/adrp imm, label deltas across sections) are assembled twice per base address - base given to CodeHolder::init and base
given to relocate_to_base - for low/high/straddling bases, with `.addrtab` last or followed by a later section. The
flattened image (copy_flattened_data into a guard-banded buffer) is evaluated by the driver's own evaluator; a sample of
sites is re-decoded here with GNU objdump / LLVM. jit mode: JitRuntime::add must install exactly the image relocated to the
returned pointer; the code is then called and has to reach C functions of the driver (through `.addrtab` when they are
more than 2 GiB away, through rel32 for stubs in JIT memory) with the right arguments."""
import json

from vlib import build, common
from vlib.props import c03


def make_jobs(tier, seed, scale):
    rng = common.Rng(seed).fork("c04")
    jobs = []

    def s():
        return str(rng.next() % (1 << 40))

    if tier == "quick":
        for _ in range(48):
            jobs.append(["--mode", "c04", "--seed", s(), "--programs", str(max(1, int(200 * scale))), "--bases", "6", "--decode-samples", "24"])
        for _ in range(16):
            jobs.append(["--mode", "jit", "--seed", s(), "--programs", str(max(1, int(150 * scale)))])
    else:
        for _ in range(400):
            jobs.append(["--mode", "c04", "--seed", s(), "--programs", str(max(1, int(300 * scale))), "--bases", "12", "--decode-samples", "12"])
        for _ in range(48):
            jobs.append(["--mode", "jit", "--seed", s(), "--programs", str(max(1, int(500 * scale)))])
    return jobs


def run(tier, args):
    chk = common.Check("C04", tier)
    exe = build.build_driver("drv_labels", "asan")
    if args.replay:
        rp = json.load(open(args.replay))
        jobs = [rp["case"]["argv"]]
    else:
        jobs = make_jobs(tier, chk.seed, args.scale)
    results = c03.run_jobs(exe, jobs, chk)
    cnt, mx, classes, samples, decode = c03.merge(results)
    stats = {}
    c03.cross_check(chk, decode, stats)

    verified = sorted(c for c in classes if "unreachable-reported" not in c)
    reported = sorted(c for c in classes if "unreachable-reported" in c)
    inv = mx.get("jit_min_distance_of_addrtab_targets_bytes_inverted", 0)
    chk.coverage.update({
        "evaluations": cnt.get("c04_evaluations", 0) + cnt.get("jit_programs", 0),
        "distinct_nontrivial": len(classes),
        "rule": "one evaluation = one (program, base address, base-known-at-init | base-given-to-relocate_to_base) build taken through "
                "flatten/resolve/relocate_to_base/copy_flattened_data and evaluated reference by reference, or one JitRuntime::add "
                "program compared byte by byte and called. distinct = distinct tuple (arch, reference kind incl. the encoded form that "
                "came out: rel8/rel32/.addrtab slot/moffs/abs32/rip-rel/a64 format, base class, base known?, .addrtab absent|last|not last) "
                "observed either designating exactly the requested target or reported as unreachable by relocate_to_base.",
        "samples": samples + verified[:6],
        "distinct_verified": len(verified),
        "distinct_unreachable_reported": len(reported),
        "programs": cnt.get("c04_programs", 0),
        "programs_by_arch": {a: cnt.get("c04_programs_" + a, 0) for a in ("x64", "x86", "a64")},
        "references_total": cnt.get("c04_refs", 0),
        "references_verified": cnt.get("c04_refs_verified", 0),
        "relocate_ok": cnt.get("c04_relocate_ok", 0),
        "relocate_failures_justified_by_an_unreachable_reference": cnt.get("c04_relocate_failure_justified", 0),
        "relocate_errors": {k[len("c04_relocate_error_"):]: v for k, v in cnt.items() if k.startswith("c04_relocate_error_")},
        "emit_errors_by_kind": {k[len("c04_emit_error_"):]: v for k, v in cnt.items() if k.startswith("c04_emit_error_")},
        "unreachable_reported_by_form": {k[len("c04_unreachable_reported:"):]: v for k, v in cnt.items() if k.startswith("c04_unreachable_reported:")},
        "sites_through_addrtab": cnt.get("c04_sites_through_addrtab", 0),
        "known_vs_relocate_targets_compared": cnt.get("c04_known_vs_relocate_compared", 0),
        "known_vs_relocate_one_side_reports_error": cnt.get("c04_known_vs_relocate_one_side_reports_error", 0),
        "code_size_reduction_checked": cnt.get("c04_code_size_reduction_checked", 0),
        "jit_programs": cnt.get("jit_programs", 0),
        "jit_programs_called": cnt.get("jit_programs_called", 0),
        "jit_calls_effect_verified": cnt.get("jit_calls_effect_verified", 0),
        "jit_c_functions_reached": cnt.get("jit_c_functions_reached", 0),
        "jit_bytes_compared": cnt.get("jit_bytes_compared", 0),
        "jit_native_call_sites_through_addrtab": cnt.get("jit_sites_through_addrtab", 0),
        "jit_native_call_sites_rel32": cnt.get("jit_sites_rel32", 0),
        "jit_min_distance_of_addrtab_targets_bytes": ((1 << 64) - 1 - inv) if inv else 0,
        "jit_max_distance_of_addrtab_targets_bytes": mx.get("jit_max_distance_of_addrtab_targets_bytes", 0),
        "other_counters": {k: v for k, v in cnt.items() if "refused_by_relocate" in k or "judged_by_C03" in k or "slot_missing" in k},
        "independent_decoders": stats,
        "exhaustive": False,
        "jobs": len(jobs),
    })
    chk.assumptions += [
        "ASan/UBSan instrumented static build of /repo's working tree; expected targets are computed from offset() snapshots, "
        "Section::offset() after flatten() and the base address; flatten()/relocate_to_base() are called once per CodeHolder (as documented)",
        "x86-32: addresses are taken modulo 2^32; a 4-byte absolute field whose value passes 2^32 may be reported or wrap",
        "an emit-time or relocate-time error for a reachable target is not a violation (counted); adrp imm between 2 and 4 GiB away is "
        "refused by relocate_to_base although encodable - reported, hence not flagged",
        "RelocationSummary.code_size_reduction is judged by what JitRuntime needs from it: it equals what the address table gave back and "
        "estimated - reduction still covers every section (code_size() itself is C10's subject)",
        "native calls run on the x86-64 host only; AArch64 and x86-32 absolute references are evaluated statically",
    ]
    return chk.finish()
