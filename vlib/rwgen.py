"""C12 case generator: turns ISA-database forms into (form, register assignment) cases for drv_rw.

The generator - not AsmJit - decides which registers / memory shapes a case uses and which image hints apply
(division, bit-string offsets, gather index width, undefined flags of the database record). It reuses the case-line
format of vlib/x86gen.py and appends `key=value` meta tokens understood by drv/drv_rw.cpp."""
import re

from vlib import x86gen as G

# CpuRWFlags bits (asmjit/core/inst.h)
FLAG_BITS = {"OF": 0x1, "CF": 0x2, "ZF": 0x4, "SF": 0x8, "AF": 0x100, "PF": 0x200, "DF": 0x400, "IF": 0x800, "AC": 0x1000,
             "C0": 0x10000, "C1": 0x20000, "C2": 0x40000, "C3": 0x80000}

# instructions that are not executed, with the reason (reported in the evidence)
DENY = {}


def _deny(reason, names):
    for n in names.split():
        DENY[n] = reason


_deny("trap / kernel entry / undefined-opcode instruction", "int int1 int3 into syscall sysenter sysexit sysret sysretq sysexitq ud0 ud1 ud2 icebp hlt")
_deny("interrupt flag / port I/O (IOPL)", "cli sti in out ins outs")
_deny("waits for an external event or a deadline", "tpause umwait umonitor mwait mwaitx monitor monitorx")
_deny("implicit stack pointer is not part of the operand-level RW information", "push pushw pop popw pushf pushfd pushfq popf popfd popfq enter leave pusha pushad popa popad push2 pop2 push2p pop2p pushp popp")
_deny("saves / restores or reinitialises processor state wholesale (not expressible by operand RW information)",
      "fxsave fxsave64 fxrstor fxrstor64 xsave xsave64 xsavec xsavec64 xsaveopt xsaveopt64 xsaves xsaves64 xrstor xrstor64 xrstors xrstors64 "
      "fnsave fsave frstor fldenv fnstenv fstenv fldcw ldmxcsr vldmxcsr fninit finit")
_deny("implicit effect on the whole vector / x87 register file, not modelled by the RW API", "vzeroall vzeroupper emms femms")
_deny("writes a segment base / protection key", "wrfsbase wrgsbase wrpkru")
_deny("loads a segment register / stores a descriptor-table register (6/10 byte pseudo descriptor)", "lfs lgs lss lds les sgdt sidt")
_deny("UMIP: not executed by the CPU in user mode but emulated by the kernel (the emulation writes operand-size bytes without zero extension - observed)", "sldt smsw str")
_deny("address is implied by registers that are not memory operands (xlatb: [rbx+al]; movdir64b/enqcmd: es:[reg])", "xlatb movdir64b enqcmd enqcmds clzero")
_deny("transactional / user-interrupt / shadow-stack control", "xbegin xend xabort xtest clui stui testui uiret senduipi")
_deny("AMX tile state (needs XTILEDATA permission); table-checked only", "ldtilecfg sttilecfg tilerelease")
_deny("performance counter / privileged-when-disabled", "rdpmc rdpru")
_deny("valid in system-management mode only (#UD elsewhere)", "rsm")

NONDET = set("rdtsc rdtscp rdrand rdseed rdpid cpuid".split())
UNIQUE_DST = set("vfcmaddcph vfmaddcph vfcmaddcsh vfmaddcsh vfcmulcsh vfmulcsh vfcmulcph vfmulcph".split())
BAD_REG_CLASSES = ("sreg", "creg", "dreg", "bnd", "tmm")
BAD_MEM = ("m16_16", "m16_32", "m16_64", "tmem", "mib", "m384")

GP_CLASSES = ("gp8", "gp16", "gp32", "gp64")
VEC_CLASSES = ("xmm", "ymm", "zmm")


def group_of(cls):
    if cls in GP_CLASSES or cls in ("gp8lo", "gp8hi"):
        return "gp"
    if cls in VEC_CLASSES:
        return "vec"
    return cls


def op_class(o):
    return G.CLASS_OF.get(o["regType"]) or G.CLASS_OF.get(o["reg"])


def exclusion(form, host, known_features, mode=64):
    """None if the form can be executed on this host (in 64-bit mode, or through the 32-bit gate), else (kind, reason)."""
    if form["privilege"] != "L3":
        return ("privileged", "privilege " + form["privilege"])
    if form["control"] != "none":
        return ("control-flow", form["control"])
    if mode == 64 and form["arch"] == "X86":
        return ("x86-32-only", "32-bit only form (executed through the 32-bit gate)")
    if mode == 32:
        if form["arch"] == "X64":
            return ("x64-only", "64-bit only form")
        # the 32-bit pass is about native_gp_size == 4: legacy-encoded forms on general-purpose registers and memory
        if form["prefix"]:
            return ("not-in-32-bit-pass", "VEX/EVEX/XOP form")
        for o in form["operands"]:
            if o["reg"] and op_class(o) == "sreg" and not o["write"]:
                continue
            if o["reg"] and not (o["reg"] in G.FIXED_REGS and G.FIXED_REGS[o["reg"]][0].startswith("gp")) and op_class(o) not in ("gp8", "gp16", "gp32"):
                return ("not-in-32-bit-pass", "operand class")
            if o.get("vsibReg"):
                return ("not-in-32-bit-pass", "vsib")
    if form["name"] in DENY:
        return ("deny-list", DENY[form["name"]])
    for o in form["operands"]:
        if o["rel"]:
            return ("control-flow", "relative operand")
        if o["reg"]:
            cls = op_class(o)
            if cls is None:
                return ("operand", "register kind " + o["reg"])
            if cls == "sreg" and not o["write"]:
                continue   # reading a segment register (mov r, sreg) is unprivileged and changes nothing
            if cls in BAD_REG_CLASSES:
                return ("system-register" if cls != "tmm" else "amx", "operand class " + cls)
            if o["reg"] in G.FIXED_REGS and G.FIXED_REGS[o["reg"]][0] == "sreg":
                return ("system-register", "segment register operand")
            if o["reg"] in ("sp", "esp", "rsp"):
                return ("deny-list", "stack pointer operand")
        if o["mem"] in BAD_MEM:
            return ("operand", "memory kind " + o["mem"])
        if o["mem"] and mem_size(o) > 64:
            return ("operand", "memory operand larger than 64 bytes")
    missing = [e for e in form["ext"] if e in known_features and e not in host]
    if missing:
        return ("extension-absent", ",".join(sorted(missing)))
    unknown = [e for e in form["ext"] if e not in known_features]
    if unknown:
        return ("extension-unmapped", ",".join(sorted(unknown)))
    return None


ACC = {"al": "zax", "ax": "zax", "eax": "zax", "rax": "zax", "cx": "zcx", "ecx": "zcx", "rcx": "zcx", "dx": "zdx", "edx": "zdx", "rdx": "zdx",
       "bx": "zbx", "ebx": "zbx", "rbx": "zbx", "si": "zsi", "esi": "zsi", "rsi": "zsi", "di": "zdi", "edi": "zdi", "rdi": "zdi"}


def form_sig(form):
    parts = []
    for o in form["operands"]:
        r, m = o["reg"], o["mem"]
        if r in ("xmm", "ymm", "zmm"):
            r = "v"
        elif r in ("r8", "r16", "r32", "r64"):
            r = "r"
        elif r in ACC:
            r = ACC[r]
        if m:
            if re.match(r"m\d+$", m):
                m = "m"
            elif re.match(r"vm\d+[xyz]$", m):
                m = m[:-1]
            elif m.startswith("moff"):
                m = "moff"
            if (o.get("bcstSize") or -1) > 0:
                m += "/b"
        if r and m:
            parts.append(r + "/" + m)
        elif r or m:
            parts.append(r or m)
        else:
            parts.append("i" if o["imm"] or o["data"] in ("1", "dfv") else "rel" if o["rel"] else "?")
    sig = ",".join(parts) or "none"
    if form.get("kmask"):
        sig += "{kz}" if form.get("zmask") else "{k}"
    if form["prefix"]:
        sig = form["prefix"].lower() + ":" + sig
    return sig.replace(" ", "")


def mem_size(o):
    bits = o["memSize"]
    return G.MEM_BYTES.get(o["mem"], bits // 8 if bits and bits > 0 else 0)


def implicit_base(form, o):
    """fixed base register of an implicit memory operand (string instructions, maskmov*), else None"""
    if o.get("memSegment") in ("es", "ds") and ((form["opcode"]["mod"] == "" and form["encoding"] in ("OP", "NONE", "RM", "MR")) or
                                                 form["name"].startswith(("maskmov", "vmaskmov"))):
        if form["name"].startswith(("maskmov", "vmaskmov")) or o["memSegment"] == "es":
            return 7
        return 6
    return None


SHIFT_UNDEF = {}
for _n in "shl shr sar sal shld shrd".split():
    SHIFT_UNDEF[_n] = 0x1 | 0x2 | 0x100      # OF (count != 1), CF (count >= width), AF
for _n in "rol ror rcl rcr".split():
    SHIFT_UNDEF[_n] = 0x1                     # OF (count != 1)


def undef_flags(form):
    m = SHIFT_UNDEF.get(form["name"], 0)
    for k, v in form["io"].items():
        if v == "U" and k in FLAG_BITS:
            m |= FLAG_BITS[k]
    return m


class CaseGen:
    def __init__(self, rng):
        self.rng = rng
        self.gen = G.Gen(rng)
        self.next_id = 0

    def variants_of(self, form):
        """applicable variant tags of a form"""
        opers = form["operands"]
        free = [o for o in opers if o["reg"] and o["reg"] not in G.FIXED_REGS and not (o.get("regIndexRel") or 0)]
        v = ["d"]
        if any(o["reg"] and o["mem"] for o in opers):
            v.append("m")
        groups = {}
        for o in free:
            groups.setdefault(group_of(op_class(o)), []).append(o)
        vsib = any(o.get("vsibReg") for o in opers)
        consecutive = any((o.get("regIndexRel") or 0) for o in opers)
        if any(len(g) >= 2 for g in groups.values()) and not vsib and not consecutive and form["name"] not in UNIQUE_DST:
            v.append("s")
        if "gp" in groups or "vec" in groups:
            v.append("h")
        if any(o["regType"] == "r8" for o in free) and not any(o["regType"] == "r64" or o["reg"] in ("rax", "rcx", "rdx", "rbx", "rsi", "rdi") for o in opers) \
                and form["prefix"] == "" and "APX_F" not in form["ext"]:
            v.append("b")
        if form.get("kmask"):
            v.append("k")
            if form.get("zmask"):
                v.append("z")
        if form.get("broadcast") and any((o.get("bcstSize") or -1) > 0 and o["mem"] for o in opers):
            v.append("c")
        # {k} / {k}{z} together with a PLAIN memory operand (no broadcast): masked loads (vpmovzx*, vbroadcast*, vpexpand*, vmovdqu8..)
        # and masked stores (vpmov* down-converts, vpcompress*, vcvtps2ph, vmovdqu*): the special categories of query_rw_info
        rm = [i for i, o in enumerate(opers) if o["reg"] and o["mem"]]
        if form.get("kmask") and rm:
            v.append("km")
            if form.get("zmask") and rm[0] != 0:
                v.append("zm")   # {z} with a memory destination does not exist
        # uniqueness probe: destination register == vector index (gathers) / == a source (FP16 complex multiply): #UD by definition
        if (vsib and opers and opers[0]["reg"] and group_of(op_class(opers[0])) == "vec") or form["name"] in UNIQUE_DST:
            v.append("u")
        return v

    def instantiate(self, form, tag, mode=64):
        """-> (ops, opts, extra, meta) or None"""
        rng = self.rng
        areg = "gp64" if mode == 64 else "gp32"
        opers = form["operands"]
        fixed_ids = {"gp": set([4]), "vec": set(), "k": set(), "mm": set(), "st": set()}
        for o in opers:
            if o["reg"] in G.FIXED_REGS:
                t, i = G.FIXED_REGS[o["reg"]]
                fixed_ids.setdefault(group_of(t), set()).add(i)
        used = {k: set(v) for k, v in fixed_ids.items()}
        evex = form["prefix"] == "EVEX"
        want_mem = tag in ("m", "c", "km", "zm")
        mem_done = False
        same = {}
        ops = []
        lead = None
        hi8 = tag == "b"
        meta = {}

        def pool(grp, cls):
            if grp == "gp":
                if tag == "h":
                    return list(range(8, 16))
                if hi8 or (mode == 32 and cls == "gp8"):
                    return [0, 1, 2, 3] if cls == "gp8" else [0, 1, 2, 3, 5, 6, 7]
                return [0, 1, 2, 3, 5, 6, 7]
            if grp == "vec":
                if tag == "h":
                    return list(range(16, 32)) if evex else list(range(8, 16))
                return list(range(0, 8))
            if grp == "k":
                return list(range(0, 8))
            if grp == "sreg":
                return [1, 2, 3, 4, 5, 6]   # es cs ss ds fs gs
            return list(range(0, 8))

        def pick(grp, cls, n=1):
            p = [i for i in pool(grp, cls) if i not in used.setdefault(grp, set())]
            if not p and mode == 32:
                p = [i for i in (range(4) if cls == "gp8" else range(8)) if i != 4] if grp == "gp" else [i for i in range(8)]
            if not p:
                p = [i for i in range(16) if i not in used[grp]] if grp in ("gp", "vec") else [i for i in range(8)]
            if n > 1:
                # lead of a run of consecutive registers: aligned to the run length
                al = 1
                while al < n:
                    al *= 2
                cands = [i for i in p if i % al == 0] or [0]
                return rng.choice(cands)
            return rng.choice(p)

        for oi, o in enumerate(opers):
            data = o["data"]
            if data == "1":
                ops.append(("I", 1))
                continue
            if o["imm"]:
                vals = self.gen.imm_values(o)
                ops.append(("I", rng.choice(vals)))
                continue
            if o["rel"]:
                return None
            if data == "dfv":
                ops.append(("I", rng.below(16)))
                continue
            has_reg, has_mem = bool(o["reg"]), bool(o["mem"])
            use_mem = has_mem and (not has_reg or (want_mem and not mem_done))
            if use_mem:
                mem_done = True
                ops.append(("MEM", oi))   # placeholder, resolved when all registers are known
                continue
            reg = o["reg"]
            if reg in G.FIXED_REGS:
                ops.append(("R",) + G.FIXED_REGS[reg])
                continue
            cls = op_class(o)
            if cls is None or (cls in BAD_REG_CLASSES and not (cls == "sreg" and not o["write"])):
                return None
            grp = group_of(cls)
            rel = o.get("regIndexRel") or 0
            if rel and lead is not None:
                ops.append(("R", lead[0], lead[1] + rel))
                used[grp].add(lead[1] + rel)
                continue
            run = 1
            for nxt in opers[oi + 1:]:
                if nxt.get("regIndexRel") or 0:
                    run += 1
                else:
                    break
            if tag == "s" and grp in same and run == 1:
                rid = same[grp]
            else:
                rid = pick(grp, cls, run)
                same.setdefault(grp, rid)
                used.setdefault(grp, set()).add(rid)
            if cls == "gp8":
                if hi8:
                    rtype, rid = "gp8hi", rid & 3
                else:
                    rtype = "gp8lo"
            else:
                rtype = cls
            if run > 1:
                lead = (rtype, rid)
            ops.append(("R", rtype, rid))

        # memory operands
        nmem = 0
        for i, op in enumerate(ops):
            if op[0] != "MEM":
                continue
            o = opers[op[1]]
            size = mem_size(o)
            m = dict(size=size, base=None, index=None, shift=0, disp=0, seg=0, bcst=0, addr="default")
            ib = implicit_base(form, o)
            if o["mem"].startswith("moff"):
                m["addr"] = "abs"
            elif ib is not None:
                m["base"] = (areg, ib)
                used["gp"].add(ib)
            else:
                b = pick("gp", areg)
                used["gp"].add(b)
                m["base"] = (areg, b)
                if o.get("vsibReg"):
                    vi = pick("vec", o["vsibReg"])
                    used["vec"].add(vi)
                    m["index"] = (o["vsibReg"], vi)
                    m["shift"] = rng.below(4)
                    m["disp"] = rng.choice([0, 16, -64, 0x100])
                    mm = re.match(r"vm(32|64)", o["mem"])
                    meta["vs"] = int(mm.group(1)) if mm else 32
                else:
                    style = rng.choice(["b", "bd8", "bisd", "bd32"])
                    if style == "bd8":
                        m["disp"] = rng.choice([8, -8, 64, -128, 127])
                    elif style == "bd32":
                        m["disp"] = rng.choice([0x1000, -0x2000, 0x12345678, -0x12345678])
                    elif style == "bisd":
                        x = pick("gp", areg)
                        used["gp"].add(x)
                        m["index"] = (areg, x)
                        m["shift"] = rng.below(4)
                        m["disp"] = rng.choice([0, 24, -56, 0x400])
            if tag == "c" and (o.get("bcstSize") or -1) > 0 and o["memSize"] and o["memSize"] > 0:
                n = o["memSize"] // o["bcstSize"]
                code = {2: 1, 4: 2, 8: 3, 16: 4, 32: 5, 64: 6}.get(n)
                if code is None:
                    return None
                m["bcst"] = code
                m["size"] = o["bcstSize"] // 8
            ops[i] = ("M", m)
            nmem += 1
        if tag == "c" and not any(op[0] == "M" and op[1]["bcst"] for op in ops):
            return None
        if tag in ("km", "zm") and not any(op[0] == "M" for op in ops):
            return None
        if tag == "u":
            if not (ops and ops[0][0] == "R" and ops[0][1] in VEC_CLASSES):
                return None
            did = ops[0][2]
            vs = [i for i, op in enumerate(ops) if op[0] == "M" and op[1]["index"] and op[1]["index"][0] in VEC_CLASSES]
            if vs:
                m = dict(ops[vs[0]][1])
                m["index"] = (m["index"][0], did)
                ops[vs[0]] = ("M", m)
            else:
                rs = [i for i, op in enumerate(ops) if i > 0 and op[0] == "R" and op[1] in VEC_CLASSES]
                if not rs:
                    return None
                ops[rs[-1]] = ("R", ops[rs[-1]][1], did)
            meta["u"] = 1
        opts, extra = 0, None
        if tag in ("k", "z", "km", "zm"):
            extra = ("k", rng.range(1, 7))
            if tag in ("z", "zm"):
                opts |= G.OPT_ZMASK
        elif form.get("kmask") and tag == "c":
            extra = ("k", rng.range(1, 7))
        if evex and extra is None and any(o.get("vsibReg") for o in opers):
            extra = ("k", rng.range(1, 7))   # EVEX gather/scatter with k0 is #UD by definition
        if evex:
            opts |= G.OPT_EVEX
        # a free base register for the M-form
        free = [i for i in range(8 if (hi8 or mode == 32) else 16) if i not in used["gp"]]
        if free:
            meta["mb"] = free[rng.below(len(free))]
        return ops, opts, extra, meta

    def signature(self, form, ops, tag, extra, opts):
        """stable, width-agnostic signature of the DATABASE FORM (not of the sampled variant): every register assignment,
        mask and reg/mem choice of a form reports under the same key"""
        return form_sig(form)

    def width_cases(self, form, mode=64):
        """the `d` assignment with ONE free general-purpose register operand given another width (16/32/64): the same database
        form asked and executed at every operand width the validator and the assembler accept for it (movmskps r64, pextrw r64,
        kmovd r64 ... - widths the database does not list as forms of their own). The driver drops what they refuse."""
        r = self.instantiate(form, "d", mode)
        if r is None:
            return []
        ops, opts, extra, meta = r
        widths = ("gp16", "gp32", "gp64") if mode == 64 else ("gp16", "gp32")
        out = []
        for i, (o, op) in enumerate(zip(form["operands"], ops)):
            if op[0] != "R" or op[1] not in widths or o["reg"] in G.FIXED_REGS or (o.get("regIndexRel") or 0):
                continue
            for w in widths:
                if w == op[1]:
                    continue
                ops2 = list(ops)
                ops2[i] = ("R", w, op[2])
                m2 = dict(meta)
                m2["w"] = (i, w)
                c = self.make_case(form, "w", mode=mode, inst=(ops2, opts, extra, m2))
                if c is not None:
                    c["wop"], c["wwidth"], c["wwritten"] = i, w, bool(o["write"])
                    out.append(c)
        return out

    def make_case(self, form, tag, probe=False, mode=64, inst=None):
        r = inst or self.instantiate(form, tag, mode)
        if r is None:
            return None
        ops, opts, extra, meta = r
        name = form["name"]
        fx = ""
        if name in NONDET:
            fx += "n"
        if "FPU" in form["ext"] or "FPU" in form["category"] or any(op_class(o) == "st" for o in form["operands"] if o["reg"]):
            fx += "x"
        if any(o["reg"] and op_class(o) == "mm" for o in form["operands"]):
            fx += "m"
        if name in ("div", "idiv"):
            fx += "d"
        if name == "xgetbv":
            fx += "c"    # ecx selects the XCR; anything but 0/1 is #GP
        if name in ("bsf", "bsr"):
            fx += "z"    # destination undefined when the source is 0 (ZF=1): keeping the old value is not a defined result
        if meta.get("u"):
            fx += "uM"
        if meta.get("w"):
            fx += "w"
        if probe:
            fx += "pM"
        if name in ("insertps", "vinsertps") and any(op[0] == "I" and (op[1] & 0xC0) for op in ops):
            fx += "M"    # register form selects source element imm[7:6]; the m32 form has only one element (documented ISA behaviour)
        if name in ("bt", "btc", "btr", "bts") and len(ops) == 2 and ops[1][0] == "R":
            # bit offsets stay inside the operand: the memory form addresses a bit string (documented ISA behaviour)
            meta["bo"] = ops[0][1]["size"] * 8 if ops[0][0] == "M" else {"gp16": 16, "gp32": 32, "gp64": 64}.get(ops[0][1], 16)
        sig = self.signature(form, ops, tag, extra, opts)
        c = dict(id=self.next_id, arch="x64" if mode == 64 else "x86", form=form["_idx"], name=name, opts=opts, extra=extra, ops=ops, variant=tag, sig=sig)
        self.next_id += 1
        toks = ["sig=" + sig, "uf=%x" % undef_flags(form)]
        if fx:
            toks.append("fx=" + fx)
        for k in ("vs", "mb", "bo"):
            if k in meta:
                toks.append("%s=%d" % (k, meta[k]))
        c["line"] = G.case_line(c) + " " + " ".join(toks)
        return c


def probe_eligible(form):
    """forms whose database extension is absent on the host but that are harmless to try when AsmJit claims that the host
    has every required feature (clause F): register-only SIMD forms - an unknown encoding can only raise #UD"""
    if form["privilege"] != "L3" or form["control"] != "none" or form["arch"] == "X86" or form["name"] in DENY:
        return False
    if "SIMD" not in form["category"] or "AMX" in form["category"]:
        return False
    for o in form["operands"]:
        if o["rel"] or (o["mem"] and not o["reg"]):
            return False
        if o["reg"]:
            cls = op_class(o)
            if cls not in ("xmm", "ymm", "zmm", "k", "gp32", "gp64", "gp16", "gp8"):
                return False
            if o["reg"] in ("sp", "esp", "rsp"):
                return False
            if o.get("regIndexRel"):
                return False
    return True
