"""C08 script generator: emitter-call scripts, a list model of the Builder's node list (cursor, sections, editing), and the
line format read by drv/drv_equiv.cpp.

The generator - never AsmJit - decides what the node list has to look like: `Model` is a plain Python list plus a
cursor that follows the documented behaviour of BaseBuilder (add_node inserts after the cursor and moves it; section()
continues at the end of that section's nodes, or appends the section when it is not part of the list; remove_node /
remove_nodes move a cursor that pointed into the removed part to the node before it; add_before / add_after do not move
the cursor). The order it predicts is replayed into a fresh Assembler by the driver and is the expected result.
"""
import hashlib

from vlib import x86gen as G

# script flags (keep in sync with drv_equiv.cpp)
F_VALIDATE_ASM, F_VALIDATE_INTERMEDIATE, F_LOGGER, F_OPT_SIZE, F_OPT_ALIGN, F_PREDICTED, F_EDIT_COMPILER, F_BASE = 1, 2, 4, 8, 16, 32, 64, 128
F_CONTINUE = 256        # the script is additionally replayed in "go on after a refused call" mode

# every pick of the dimensions added later (branch hints / forced REX bits in the pools, labels created outside the emitter, annotated
# jumps, global constant pool, hand-made nodes, no-op removals, continue-after-error) comes from side streams derived with these constants
SIDE_POOL, SIDE_SCRIPT = 0x7A6B5C4D3E2F1A0B, 0x1D2C3B4A59687766


def side_stream(rng, const):
    return type(rng)(rng.s ^ const)

REL8_ONLY = {"jecxz", "jrcxz", "jcxz", "loop", "loope", "loopne"}

TYPE_SIZES = {34: 1, 35: 1, 36: 2, 37: 2, 38: 4, 39: 4, 40: 8, 41: 8, 42: 4, 43: 8, 44: 10, 45: 1, 46: 2, 47: 4, 48: 8, 49: 4, 50: 8,
              51: 4, 52: 4, 54: 4, 56: 4, 59: 4, 61: 8, 62: 8, 64: 8, 66: 8, 68: 8, 69: 8, 70: 8, 71: 16, 72: 16, 74: 16, 76: 16}


class Invalid(Exception):
    """an edit / call whose precondition does not hold in the model (the generator / minimizer drops it)"""


# ----------------------------------------------------------------------------------------------------------------------
# model of the node list
# ----------------------------------------------------------------------------------------------------------------------
class Model:
    def __init__(self):
        self.nodes = ["S0"]
        self.cursor = "S0"
        self.created = {"S0"}
        self.cn_labels = set()
        self.cn_used = set()
        self.labels = set()
        self.allow_empty = False

    def active(self, k):
        return k in self.nodes

    def add_node(self, k):
        if k in self.nodes:
            raise Invalid("node %s already active" % k)
        if self.cursor is None:
            self.nodes.insert(0, k)
        else:
            self.nodes.insert(self.nodes.index(self.cursor) + 1, k)
        self.cursor = k
        self.created.add(k)

    def section(self, i):
        """BaseBuilder::section() (builder.cpp): every section has exactly one SectionNode.
        * node not active (never added, or removed by an edit): `add_after(node, last_node())` - it becomes the last node - and the
          cursor is that node. With an empty list last_node() is null: not defined, the generator never does it.
        * node active (wherever edits have put it): the cursor goes to the last node of that section's block, i.e. the node before
          the next SectionNode in list order, or the last node of the list when no SectionNode follows.
        Nodes in front of the first SectionNode are serialized into the section the Assembler starts in (.text)."""
        k = "S%d" % i
        if k not in self.nodes:
            if not self.nodes:
                raise Invalid("section() on an empty list")
            self.nodes.append(k)
            self.cursor = k
            self.created.add(k)
        else:
            idx = self.nodes.index(k)
            nxt = None
            for j in range(idx + 1, len(self.nodes)):
                if self.nodes[j][0] == "S":
                    nxt = j
                    break
            self.cursor = self.nodes[nxt - 1] if nxt is not None else self.nodes[-1]

    def remove(self, k):
        if k not in self.nodes:
            if k in self.created:
                return          # remove_node() of a node that is not part of the list: the list stays as it is
            raise Invalid("remove of unknown node")
        if len(self.nodes) == 1 and not self.allow_empty:
            raise Invalid("would empty the list")
        i = self.nodes.index(k)
        prev = self.nodes[i - 1] if i > 0 else None
        del self.nodes[i]
        if self.cursor == k:
            self.cursor = prev

    def remove_range(self, a, b):
        if a not in self.nodes and b not in self.nodes and a in self.created and b in self.created:
            return              # remove_nodes() of nodes that are not part of the list: the list stays as it is
        if a not in self.nodes or b not in self.nodes:
            raise Invalid("range end inactive")
        i, j = self.nodes.index(a), self.nodes.index(b)
        if i > j:
            raise Invalid("range reversed")
        if j - i + 1 == len(self.nodes) and not self.allow_empty:
            raise Invalid("would empty the list")
        prev = self.nodes[i - 1] if i > 0 else None
        gone = self.nodes[i:j + 1]
        del self.nodes[i:j + 1]
        if self.cursor in gone:
            self.cursor = prev

    def add_before(self, k, ref):
        if k in self.nodes or k not in self.created or ref not in self.nodes:
            raise Invalid("add_before precondition")
        self.nodes.insert(self.nodes.index(ref), k)

    def add_after(self, k, ref):
        if k in self.nodes or k not in self.created or ref not in self.nodes:
            raise Invalid("add_after precondition")
        self.nodes.insert(self.nodes.index(ref) + 1, k)

    def set_cursor(self, ref):
        if ref is not None and ref not in self.nodes:
            raise Invalid("cursor to inactive node")
        self.cursor = ref

    # -- emitter calls ---------------------------------------------------------
    def call(self, c):
        kind = c["kind"]
        cid = str(c["cid"])
        for k in c.get("uses", ()):
            if k not in self.labels:
                raise Invalid("label %d used before creation" % k)
        if kind == "NL":
            if c["k"] in self.labels:
                raise Invalid("label created twice")
            self.labels.add(c["k"])
            if c.get("cn"):
                self.cn_labels.add(c["k"])
        elif kind == "SE":
            self.section(c["sec"])
        elif kind == "B":
            if c["k"] in self.cn_labels or c["k"] not in self.labels:
                raise Invalid("bind of a const-pool-node label / unknown label")
            self.add_node("L%d" % c["k"])
        elif kind == "CP":
            if c["k"] in self.cn_labels or c["k"] not in self.labels or ("L%d" % c["k"]) in self.nodes:
                raise Invalid("const pool label already bound")
            self.add_node(cid + ".a")
            self.add_node("L%d" % c["k"])
            self.add_node(cid + ".d")
        elif kind == "CN":
            if c["k"] not in self.cn_labels or c["k"] in self.cn_used:
                raise Invalid("const pool node reused")
            self.cn_used.add(c["k"])
            self.add_node(cid)
        else:
            self.add_node(cid)

    def edit(self, e, calls2):
        op, a, b = e
        if op == "rm":
            self.remove(a)
        elif op == "rr":
            self.remove_range(a, b)
        elif op == "add":
            if a not in self.created or a in self.nodes:
                raise Invalid("add precondition")
            self.add_node(a)
        elif op == "mv":
            ref = None if b == "-" else b
            if a not in self.nodes or ref == a or (ref is not None and ref not in self.nodes):
                raise Invalid("mv precondition")
            self.remove(a)
            self.set_cursor(ref)
            self.add_node(a)
        elif op == "ab":
            self.add_before(a, b)
        elif op == "aa":
            self.add_after(a, b)
        elif op == "cur":
            self.set_cursor(None if a == "-" else a)
        elif op == "sn":
            # a SentinelNode made by hand: part of the list, serializes to nothing
            if a in self.created:
                raise Invalid("sentinel key reused")
            self.add_node(a)
        elif op in ("emit", "ni"):
            c = calls2.get(int(a))
            if c is None:
                raise Invalid("unknown call")
            self.call(c)
        else:
            raise Invalid("unknown edit")

    def tokens(self):
        """node order as driver tokens; an intact align/label/data triple of one embed_const_pool call is one token"""
        out = []
        n = self.nodes
        i = 0
        while i < len(n):
            k = n[i]
            if k.endswith(".a") and i + 2 < len(n) and n[i + 1][0] == "L" and n[i + 2] == k[:-2] + ".d":
                out.append(k[:-2] + ":" + n[i + 1])
                i += 3
                continue
            out.append(k)
            i += 1
        return out


def call_line(c):
    return "C %d %d %s %s" % (c["cid"], c["phase"], c["kind"], c["text"])


def render(script, allow_empty=False):
    """-> (text, info) ; raises Invalid when a call/edit precondition fails (minimizer uses that)"""
    m = Model()
    m.allow_empty = allow_empty
    cp_label = {}
    lines = ["S %s %s %x" % (script["sid"], script["arch"], script["flags"])]
    for s in script["secs"]:
        lines.append("SEC %s %x %d %d" % s)
    for c in script["calls"]:
        m.call(c)
        lines.append(call_line(c))
        if c["kind"] == "CP":
            cp_label[str(c["cid"])] = "L%d" % c["k"]

    def toks():
        out = []
        for t in m.tokens():
            if ":" in t:
                cid, lab = t.split(":")
                if cp_label.get(cid) == lab:
                    out.append(cid)
                else:
                    out += [cid + ".a", lab, cid + ".d"]
            else:
                out.append(t)
        return out

    lines.append("R " + " ".join(toks()))
    calls2 = {c["cid"]: c for c in script.get("calls2", [])}
    if script.get("edits"):
        used = set()
        for e in script["edits"]:
            if e[0] in ("emit", "ni"):
                used.add(int(e[1]))
        for c in script.get("calls2", []):
            if c["cid"] in used:
                lines.append(call_line(c))
                if c["kind"] == "CP":
                    cp_label[str(c["cid"])] = "L%d" % c["k"]
        for e in script["edits"]:
            m.edit(e, calls2)
            lines.append("E %s %s %s" % (e[0], e[1], e[2] if e[2] is not None else ""))
        lines.append("X " + " ".join(toks()))
    lines.append("END")
    return "\n".join(lines) + "\n"


def calls_hash(script):
    h = hashlib.sha1()
    for c in script["calls"]:
        h.update(("%s %s\n" % (c["kind"], c["text"])).encode())
    return h.hexdigest()[:16]


def edits_hash(script):
    if not script.get("edits"):
        return None
    h = hashlib.sha1()
    c2 = {c["cid"]: c for c in script.get("calls2", [])}
    for e in script["edits"]:
        if e[0] in ("emit", "ni"):
            c = c2[int(e[1])]
            h.update(("%s %s %s\n" % (e[0], c["kind"], c["text"])).encode())
        else:
            h.update(("%s %s %s\n" % e).encode())
    return h.hexdigest()[:16]


# ----------------------------------------------------------------------------------------------------------------------
# instruction pools
# ----------------------------------------------------------------------------------------------------------------------
def x86_pool_candidates(rng, forms, mode, budget):
    """-> list of dict(tail=<template with {} label slots>, nlab, short, probe=<drv_emit case line>)"""
    gen = G.Gen(rng, False)
    side = side_stream(rng, SIDE_POOL)
    out = []
    arch = "x64" if mode == 64 else "x86"
    for f in forms:
        if mode not in G.modes_of(f):
            continue
        for c in gen.cases_for_form(f, mode, budget):
            variants = [c]
            if c["opts"] & (G.OPT_REP | G.OPT_REPNE) and not c["extra"] and rng.chance(1, 2):
                c2 = dict(c)
                c2["extra"] = ("gp64" if mode == 64 else "gp32", 1)
                variants.append(c2)
            for c in variants:
                toks = []
                nlab = 0
                for op in c["ops"]:
                    if op[0] == "L":
                        toks.append("L:{}")
                        nlab += 1
                    elif op[0] == "M" and nlab == 0 and rng.chance(1, 3) and op[1]["index"] is None and op[1]["seg"] == 0 and \
                            ((op[1]["base"] and op[1]["base"][0] == "rip") or (mode == 32 and op[1]["base"] is None and op[1]["addr"] == "default")):
                        m = op[1]
                        disp = m["disp"] if -0x1000 <= m["disp"] <= 0x1000 else rng.choice([0, 4, -8, 64])
                        toks.append("M:%d:label:{}:none:0:0:%d:0:%d:default" % (m["size"], disp, m["bcst"]))
                        nlab += 1
                    else:
                        toks.append(G.op_token(op))
                ex = "-" if not c["extra"] else "%s:%d" % c["extra"]
                # option variants of the later dimensions (side stream): branch hints on every conditional jump, forced REX.B/X/R/W bits
                optsets = [(c["opts"], None)]
                is_rel = any(op[0] == "L" for op in c["ops"])
                if is_rel and c["name"][0] == "j" and c["name"] != "jmp" and c["name"] not in REL8_ONLY:
                    optsets += [(c["opts"] | G.OPT_TAKEN, "hint"), (c["opts"] | G.OPT_NOTTAKEN, "hint")]
                elif mode == 64 and not is_rel and c["variant"] in ("base", "base-mem", "random") and side.chance(1, 6):
                    optsets.append((c["opts"] | (side.range(1, 15) << 24), "rexbits"))
                # a memory operand that can stand for a constant of the Compiler's global constant pool (label base, plain shape)
                gcmem = None
                for i, op in enumerate(c["ops"]):
                    if toks[i].startswith("M:") and ":label:{}" in toks[i] and nlab == 1 and op[1]["size"] in (1, 2, 4, 8, 16, 32, 64) and not op[1]["bcst"]:
                        gcmem = (i, op[1]["size"])
                for opts, dim in optsets:
                    tail = "%s %x %s %d %s" % (c["name"], opts, ex, len(toks), " ".join(toks))
                    probe = "%d %s %s" % (len(out), arch, tail.replace("{}", "0"))
                    out.append(dict(tail=tail.rstrip(), nlab=nlab, probe=probe, nops=len(toks), opts=opts, extra=bool(c["extra"]),
                                    short=bool(opts & G.OPT_SHORT) or c["name"] in REL8_ONLY, name=c["name"], dim=dim, gcmem=gcmem))
    return out


def a64_pool_candidates(rng, cases):
    out = []
    for c in cases:
        parts = c["line"].split()
        name, nops, toks = parts[0], int(parts[1]), parts[2:]
        new, probe_toks = [], []
        nlab = 0
        for t in toks:
            if t == "L":
                new.append("L:{}")
                probe_toks.append("L")
                nlab += 1
            elif t.startswith("ML:"):
                new.append("ML:{}:" + t[3:])
                probe_toks.append(t)
                nlab += 1
            elif t.startswith("A:") and rng.chance(2, 3):
                new.append("L:{}")
                probe_toks.append("L")
                nlab += 1
            else:
                new.append(t)
                probe_toks.append(t)
        tail = "%s 0 - %d %s" % (name, nops, " ".join(new))
        probe = "%d %s %d %s" % (len(out), name, nops, " ".join(probe_toks))
        gcmem = None
        ml = [i for i, t in enumerate(new) if t.startswith("ML:{}")]
        if nlab == 1 and ml:
            gcmem = (ml[0], 0)
        out.append(dict(tail=tail.rstrip(), nlab=nlab, probe=probe.rstrip(), nops=nops, opts=0, extra=False, short=False, name=name,
                        status=c["status"], dim=None, gcmem=gcmem))
    return out


class Pool:
    def __init__(self, cands, accepted):
        self.plain = [c for c, ok in zip(cands, accepted) if ok and c["nlab"] == 0]
        self.jump = [c for c, ok in zip(cands, accepted) if ok and c["nlab"] > 0]
        self.invalid = [c for c, ok in zip(cands, accepted) if ok is False and c["nlab"] == 0]
        self.wide = [c for c in self.plain if c["nops"] > 3]
        self.wide6 = [c for c in self.plain if c["nops"] > 4]
        self.fancy = [c for c in self.plain if c["extra"] or c["opts"]]
        # later dimensions
        self.hinted = [c for c in self.jump if c.get("dim") == "hint"]
        self.hinted_long = [c for c in self.hinted if not c["short"]]
        self.jann = [c for c in self.plain + self.jump if c["nops"] == 1 and c["name"] in ("jmp", "br", "b") and not c["short"]]
        self.gcmem = [c for c in self.jump if c.get("gcmem")]


# ----------------------------------------------------------------------------------------------------------------------
# script generation
# ----------------------------------------------------------------------------------------------------------------------
SEC_NAMES = [".data", ".rodata", ".text2", ".extra"]


def hexbytes(rng, n):
    return "".join("%02x" % rng.below(256) for _ in range(n)) if n else "-"


class ScriptGen:
    def __init__(self, rng, pools):
        self.rng = rng
        self.side = side_stream(rng, SIDE_SCRIPT)
        self.pools = pools      # arch -> Pool

    # -- single calls ----------------------------------------------------------
    def _new(self, st, kind, text, **kw):
        c = dict(cid=st["next_cid"], phase=st["phase"], kind=kind, text=text)
        c.update(kw)
        st["next_cid"] += 1
        return c

    def _new_label(self, st, out, cn=False):
        rng = self.rng
        k = st["nlabels"]
        st["nlabels"] += 1
        name = "-"
        ltype = 0
        if not cn and rng.chance(1, 10):
            name = "g%d_%s" % (k, st["sid"].replace("-", "_"))
            ltype = 2
        # who creates the label: 0 = the emitter under test, 1 = CodeHolder::new_label_id() / new_named_label_id(), 2 = another (idle)
        # emitter attached to the same CodeHolder. The Builder then meets a label id it has no LabelNode for.
        # 3 = BaseBuilder::new_label_node() (a LabelNode made by hand; the label comes with it) - plain new_label() for assemblers
        creator = 0
        if not cn and self.side.chance(1, 4):
            creator = self.side.choice([1, 1, 1, 1, 1, 2, 2, 2, 3, 3])
            if creator == 3 and name != "-":
                creator = 1
        out.append(self._new(st, "NL", "%d %s %d %d %d" % (k, name, ltype, int(cn), creator), k=k, cn=cn, creator=creator))
        st["labels"].append(k)
        if cn:
            st["cn"].add(k)
        return k

    def _ref_label(self, st, out):
        """a label to reference: an existing one (bound or not) or a new one"""
        rng = self.rng
        if st["labels"] and rng.chance(3, 5):
            return rng.choice(st["labels"])
        return self._new_label(st, out)

    def _inst(self, st, out, entry, labels=None):
        rng = self.rng
        cm = "-"
        if rng.chance(1, 4):
            cm = "ic%d" % st["next_cid"]
        tail = entry["tail"]
        uses = []
        if entry["nlab"]:
            for _ in range(entry["nlab"]):
                k = labels.pop(0) if labels else self._ref_label(st, out)
                uses.append(k)
            tail = tail.format(*uses)
        out.append(self._new(st, "I", "%s %s" % (cm, tail), uses=uses, wide=entry["nops"] > 3, nops=entry["nops"], fancy=bool(entry["extra"] or entry["opts"]),
                             dim=entry.get("dim")))

    def _annotated_jump(self, st, out, entry, extra=None):
        """JA: Compiler::emit_annotated_jump(inst, target, annotation) - for the other emitters an ordinary one-operand instruction"""
        side = self.side
        cm = "ic%d" % st["next_cid"] if side.chance(1, 3) else "-"
        uses = []
        tail = entry["tail"]
        if entry["nlab"]:
            uses = [self._ref_label(st, out) for _ in range(entry["nlab"])]
            tail = tail.format(*uses)
        if extra:
            parts = tail.split(" ")
            parts[2] = extra
            tail = " ".join(parts)
        ann = []
        if st["labels"]:
            for _ in range(side.below(4)):
                ann.append(side.choice(st["labels"]))
        out.append(self._new(st, "JA", "%s %s %s" % (",".join(str(k) for k in ann) if ann else "-", cm, tail), uses=uses + ann, nops=1,
                             fancy=bool(entry["opts"] or extra),
                             target="label" if " L:{}" in entry["tail"] else "label_mem" if entry["nlab"] else "mem" if entry["tail"].split(" ")[-1][0] == "M" else "reg"))

    def _global_const(self, st, out, entry):
        """GC: Compiler::_new_const(kGlobal, data) + an instruction that reads the constant; for the other emitters the same instruction
        with a [label + offset] operand and the pool embedded after the last node"""
        side = self.side
        k = st.get("gc_label")
        if k is None:
            k = self._new_label(st, out, cn=2)
            st["gc_label"] = k
        idx, size = entry["gcmem"]
        if not size:
            size = side.choice([4, 8, 8, 16])
        if st["gc_consts"] and side.chance(1, 4):
            data = side.choice(st["gc_consts"])      # an earlier constant again (may be shared, may be a part of a wider one)
            if len(data) // 2 > size:
                data = data[:size * 2]
            elif len(data) // 2 < size:
                data = (data * 64)[:size * 2]
        else:
            data = hexbytes(side, size)
        st["gc_consts"].append(data)
        cm = "ic%d" % st["next_cid"] if side.chance(1, 4) else "-"
        parts = entry["tail"].split(" ")
        parts[4 + idx] = "GC"
        out.append(self._new(st, "GC", "%d %s %s %s" % (k, data, cm, " ".join(parts)), uses=[k], k=k, nops=entry["nops"], size=size))

    def _pool_desc(self, a4=False):
        rng = self.rng
        n = rng.choice([0, 1, 1, 2, 2, 3, 4])
        items = []
        for _ in range(n):
            sz = rng.choice([4, 4, 8, 8, 16, 32, 64] if a4 else [1, 2, 4, 4, 8, 8, 16, 32, 64])
            if items and rng.chance(1, 5):
                items.append(items[rng.below(len(items))])
            else:
                items.append("%d:%s" % (sz, hexbytes(rng, sz)))
        return ",".join(items) if items else "-"

    def gen_call(self, st, out, kind, pool, arch):
        """appends one call (plus label creations it needs) to `out`"""
        rng = self.rng
        a4 = st.get("a4", False)     # AArch64: keep everything a multiple of 4 bytes so that code stays aligned
        if kind == "J" and pool.jann and self.side.chance(1, 6) and st["near"] is None:
            self._annotated_jump(st, out, self.side.choice(pool.jann))
            kind = "I"
        elif kind == "J" and pool.hinted_long and (st["flags"] & F_PREDICTED) and st["near"] is None and self.side.chance(1, 3):
            # EncodingOptions::kPredictedJumps is on: make sure conditional jumps that carry kTaken / kNotTaken are present
            self._inst(st, out, self.side.choice(pool.hinted_long))
            kind = "I"
        elif kind == "I" and pool.gcmem and st["gc_ok"] and st["near"] is None and self.side.chance(1, 10):
            self._global_const(st, out, self.side.choice(pool.gcmem))
        elif kind == "I":
            src = pool.plain
            r = rng.below(10)
            if r == 0 and pool.wide:
                src = pool.wide6 if pool.wide6 and rng.chance(1, 4) else pool.wide
            elif r <= 2 and pool.fancy:
                src = pool.fancy
            self._inst(st, out, rng.choice(src))
        elif kind == "J":
            cands = pool.jump
            if not cands:
                return self.gen_call(st, out, "I", pool, arch)
            e = rng.choice(cands)
            if e["short"]:
                if st["phase"] == 2:
                    e2 = [x for x in cands if not x["short"]]
                    if not e2:
                        return self.gen_call(st, out, "I", pool, arch)
                    e = rng.choice(e2)
                    self._inst(st, out, e)
                    return
                if st["recent"] is not None and st["recent"][1] <= 5 and rng.chance(1, 2):
                    self._inst(st, out, e, [st["recent"][0]] * e["nlab"])
                else:
                    k = self._new_label(st, out)
                    self._inst(st, out, e, [k] * e["nlab"])
                    st["near"] = [k, rng.below(5)]
                return
            self._inst(st, out, e)
        elif kind == "B":
            cands = [k for k in st["labels"] if k not in st["bound"] and k not in st["cn"]]
            if not cands:
                k = self._new_label(st, out)
            else:
                k = rng.choice(cands)
            st["bound"].add(k)
            out.append(self._new(st, "B", "%d" % k, k=k, uses=[k]))
            st["recent"] = [k, 0]
            return
        elif kind == "AL":
            al = rng.choice([0, 1, 2, 4, 4, 8, 8, 16, 16, 32, 64])
            out.append(self._new(st, "AL", "%d %d" % (rng.below(3), al)))
        elif kind == "EM":
            n = rng.choice([0, 1, 2, 3, 4, 7, 8, 15, 16, 33, 64]) if rng.chance(1, 2) else rng.range(1, 64)
            if a4:
                n = (n + 3) & ~3
            out.append(self._new(st, "EM", hexbytes(rng, n)))
        elif kind == "ED":
            tid = rng.choice([32, 33] + sorted(TYPE_SIZES))
            size = TYPE_SIZES.get(tid, 8 if arch in ("x64", "a64") else 4)
            items = rng.choice([0, 1, 1, 2, 3, 4, 8])
            rep = rng.choice([0, 1, 1, 1, 2, 3, 4])
            if a4 and size % 4:
                items = rng.choice([0, 4, 8])
            out.append(self._new(st, "ED", "%d %d %d %s" % (tid, items, rep, hexbytes(rng, items * size))))
        elif kind == "CP":
            k = self._new_label(st, out)
            st["bound"].add(k)
            out.append(self._new(st, "CP", "%d %s" % (k, self._pool_desc(a4)), k=k, uses=[k]))
        elif kind == "CN":
            k = self._new_label(st, out, cn=True)
            out.append(self._new(st, "CN", "%d %s" % (k, self._pool_desc(a4)), k=k, uses=[k]))
        elif kind == "EL":
            k = self._ref_label(st, out) if not st["cn"] or rng.chance(4, 5) else rng.choice(sorted(st["cn"]))
            out.append(self._new(st, "EL", "%d %d" % (k, rng.choice([0, 4, 4, 8, 8] if a4 else [0, 0, 1, 2, 4, 4, 8, 8])), uses=[k]))
        elif kind == "LD":
            k = self._ref_label(st, out)
            k2 = self._ref_label(st, out)
            out.append(self._new(st, "LD", "%d %d %d" % (k, k2, rng.choice([0, 4, 4, 8] if a4 else [0, 1, 2, 4, 4, 8])), uses=[k, k2]))
        elif kind == "CM":
            out.append(self._new(st, "CM", "cm_%d" % st["next_cid"]))
        elif kind == "SE":
            s = st.pop("force_sec", None)
            if s is None:
                s = rng.below(st["nsec"] + 1)
            out.append(self._new(st, "SE", "%d" % s, sec=s))
            st["cursec"] = s
        # anything but a small instruction / comment ends the window in which a short jump may go backwards
        if kind in ("I", "J", "CM"):
            if st["recent"] is not None:
                st["recent"][1] += 1
        else:
            st["recent"] = None

    def invalid_call(self, st, pool, arch):
        rng = self.rng
        out = []
        r = rng.below(10)
        jann0 = [e for e in pool.jann if not e["nlab"]]
        if jann0 and self.side.chance(1, 5):
            # an annotated jump that carries an extra register no jump takes (the JumpNode has to keep it for the error to appear)
            self._annotated_jump(st, out, self.side.choice(jann0), extra="k:%d" % self.side.range(1, 7))
        elif r < 6 and pool.invalid:
            self._inst(st, out, rng.choice(pool.invalid))
        elif r == 6:
            out.append(self._new(st, "AL", "%d %d" % ((3, 8) if rng.chance(1, 3) else (rng.below(3), rng.choice([3, 5, 48])))))
        elif r == 7:
            out.append(self._new(st, "ED", "%d 2 1 %s" % (rng.choice([0, 1, 200]), hexbytes(rng, 16))))
        elif r == 8 and st["labels"]:
            k = rng.choice(st["labels"])
            out.append(self._new(st, "EL", "%d %d" % (k, rng.choice([3, 16])), uses=[k]))
        elif st["labels"]:
            k = rng.choice(st["labels"])
            out.append(self._new(st, "LD", "%d %d %d" % (k, k, rng.choice([3, 16])), uses=[k]))
        elif pool.invalid:
            self._inst(st, out, rng.choice(pool.invalid))
        for c in out:
            c["invalid"] = True
        return out

    KINDS = [("I", 50), ("J", 12), ("B", 8), ("AL", 5), ("EM", 4), ("ED", 4), ("CP", 2), ("CN", 2), ("EL", 3), ("LD", 3), ("CM", 4), ("SE", 6)]

    def pick_kind(self, st):
        rng = self.rng
        tot = sum(w for k, w in self.KINDS if k != "SE" or st["nsec"])
        r = rng.below(tot)
        for k, w in self.KINDS:
            if k == "SE" and not st["nsec"]:
                continue
            if r < w:
                return k
            r -= w
        return "I"

    def gen_script(self, sid, arch):
        rng = self.rng
        pool = self.pools[arch]
        r = rng.below(10)
        n = rng.range(1, 8) if r < 3 else rng.range(9, 50) if r < 7 else rng.range(51, 200)
        nsec = rng.choice([0, 0, 0, 0, 0, 0, 0, 0, 1, 1, 1, 2, 2, 2, 2, 3, 3, 3, 3, 3])   # 1..4 sections; 3-4 sections in 45% of the scripts
        flags = 0
        if rng.chance(7, 10):
            flags |= F_VALIDATE_ASM
            if rng.chance(2, 7):
                flags |= F_VALIDATE_INTERMEDIATE
        for bit, num, den in ((F_LOGGER, 1, 4), (F_OPT_SIZE, 1, 5), (F_OPT_ALIGN, 3, 10), (F_PREDICTED, 3, 20), (F_EDIT_COMPILER, 3, 10), (F_BASE, 2, 5)):
            if rng.chance(num, den):
                flags |= bit
        secs = []
        for i in range(nsec):
            secs.append((SEC_NAMES[i], rng.choice([0, 1, 2, 3]), rng.choice([1, 4, 16, 64]), rng.choice([0, 0, 1, -1, 5])))
        st = dict(sid=sid, next_cid=1, phase=1, nlabels=0, labels=[], cn=set(), bound=set(), nsec=nsec, cursec=0, recent=None, near=None,
                  a4=(arch == "a64" and rng.chance(9, 10)), flags=flags, gc_label=None, gc_consts=[], gc_ok=self.side.chance(1, 4))
        calls = []
        while len([c for c in calls if c["kind"] != "NL"]) < n:
            if st["near"] is not None:
                # a short forward jump is pending: only small instructions until its label is bound
                if st["near"][1] <= 0:
                    k = st["near"][0]
                    st["near"] = None
                    st["bound"].add(k)
                    calls.append(self._new(st, "B", "%d" % k, k=k, uses=[k]))
                    st["recent"] = [k, 0]
                else:
                    st["near"][1] -= 1
                    self.gen_call(st, calls, "I" if rng.chance(4, 5) else "CM", pool, arch)
                continue
            self.gen_call(st, calls, self.pick_kind(st), pool, arch)
        if st["near"] is not None:
            k = st["near"][0]
            st["bound"].add(k)
            calls.append(self._new(st, "B", "%d" % k, k=k, uses=[k]))
        rest = [k for k in st["labels"] if k not in st["bound"] and k not in st["cn"]]
        rng.shuffle(rest)
        for k in rest:
            if rng.chance(4, 5):
                st["bound"].add(k)
                calls.append(self._new(st, "B", "%d" % k, k=k, uses=[k]))
        has_invalid = False
        want_invalid = rng.chance(1, 20)
        go_on = False
        if not want_invalid and self.side.chance(1, 25):
            want_invalid = go_on = True
        if want_invalid:
            inv = self.invalid_call(st, pool, arch)
            if inv:
                # after every label it may reference has been created
                lo = 0
                for k in inv[-1].get("uses", ()):
                    lo = max([lo] + [i + 1 for i, c in enumerate(calls) if c["kind"] == "NL" and c["k"] == k])
                pos = rng.range(lo, len(calls))
                if 0 < pos < len(calls) and calls[pos]["kind"] == "GC" and calls[pos - 1]["kind"] == "NL":
                    pos -= 1    # the Compiler creates the global pool's label inside the first GC call
                    if pos < lo:
                        pos = len(calls)
                calls[pos:pos] = inv
                has_invalid = True
                if go_on or self.side.chance(1, 2):
                    flags |= F_CONTINUE
        script = dict(sid=sid, arch=arch, flags=flags, secs=secs, calls=calls, edits=[], calls2=[], has_invalid=has_invalid)
        if len(calls) >= 2 and rng.chance(9, 20):
            self.gen_edits(script, st, pool, arch)
        return script

    # -- edit scripts ----------------------------------------------------------
    def gen_edits(self, script, st, pool, arch):
        rng = self.rng
        m = Model()
        try:
            for c in script["calls"]:
                m.call(c)
        except Invalid:
            return
        st["phase"] = 2
        st["near"] = None
        st["recent"] = None
        calls2 = {}
        edits = []
        nops = rng.range(1, 10)
        ops = [("rm", 20), ("mv", 15), ("ab", 10), ("aa", 10), ("rr", 12), ("cur", 12), ("emit", 35), ("add", 10), ("sn", 4)]
        # section-centred edit scripts: SectionNodes are removed (alone / with their block), re-inserted elsewhere, and section() is called
        # for active, removed and never-added sections, always followed by calls that show where the cursor went
        nsec = st["nsec"]
        sec_mode = nsec >= 1 and rng.chance(3, 5 if nsec >= 2 else 12)
        sec_stats = {}
        xstats = {}
        force = []          # kinds of the next emits: "SE:<n>" / "SE:last" / "SE:other" / "SE:any" / a call kind
        if nsec:
            w = 25 if sec_mode else 2
            ops += [("rmsec", w), ("rmblock", w), ("addsec", w), ("se", w)]
        if sec_mode:
            nops = rng.range(3, 10)
            if rng.chance(1, 2):
                # make sure the cached section links have been computed with every section present
                order = list(range(1, nsec + 1))
                rng.shuffle(order)
                for x in order:
                    force += ["SE:%d" % x, "body"]
                force += ["SE:any", "body"]
        tot = sum(w for _, w in ops)
        force_emit = 0
        tries = 0
        steps = 0           # forced follow-up emits do not use up the budget of edit steps
        while (steps < nops or force) and tries < 160:
            tries += 1
            r = rng.below(tot)
            op = "emit"
            for k, w in ops:
                if r < w:
                    op = k
                    break
                r -= w
            if force_emit:
                op = "emit"
                force_emit -= 1
            forced_kind = None
            if force:
                op = "emit"
                forced_kind = force.pop(0)
            active = list(m.nodes)
            inactive = sorted(k for k in m.created if k not in m.nodes)

            def pick_active(allow_section=False):
                c = [k for k in active if allow_section or k[0] != "S"]
                return rng.choice(c) if c else None

            new = []
            xnew = []
            try:
                if op in ("rm", "rr") and inactive and self.side.chance(1, 12):
                    # removal of nodes that are not part of the list: nothing may change (followed by an emit that shows the cursor)
                    if op == "rm" or self.side.chance(1, 3):
                        new.append(("rm", self.side.choice(inactive), ""))
                    else:
                        new.append(("rr", self.side.choice(inactive), self.side.choice(inactive)))
                    xnew.append("removal_of_inactive_node_by_" + ("remove_node" if new[-1][0] == "rm" else "remove_nodes"))
                    force_emit = 1
                elif op == "rm":
                    k = pick_active(rng.chance(1, 8))
                    if k is None:
                        continue
                    new.append(("rm", k, ""))
                elif op == "rr":
                    if len(active) < 3:
                        continue
                    i = rng.range(1 if rng.chance(7, 8) else 0, len(active) - 1)
                    j = min(len(active) - 1, i + rng.below(6))
                    if rng.chance(1, 2):
                        # park the cursor inside the range first: remove_nodes has to move it out
                        new.append(("cur", active[rng.range(i, j)], ""))
                        force_emit = 1
                    new.append(("rr", active[i], active[j]))
                elif op == "add":
                    if not inactive:
                        continue
                    new.append(("add", rng.choice(inactive), ""))
                elif op == "mv":
                    k = pick_active(rng.chance(1, 10))
                    if k is None:
                        continue
                    refs = [x for x in active if x != k]
                    ref = "-" if (not refs or rng.chance(1, 12)) else rng.choice(refs)
                    new.append(("mv", k, ref))
                elif op in ("ab", "aa"):
                    if inactive and rng.chance(1, 2):
                        k = rng.choice(inactive)
                    else:
                        k = pick_active()
                        if k is None:
                            continue
                        new.append(("rm", k, ""))
                    refs = [x for x in active if x != k]
                    if not refs:
                        continue
                    new.append((op, k, rng.choice(refs)))
                elif op == "sn":
                    new.append(("sn", "Z%d" % len([k for k in m.created if k[0] == "Z"]), ""))
                elif op == "cur":
                    new.append(("cur", "-" if rng.chance(1, 12) else rng.choice(active), ""))
                    force_emit = 1
                elif op == "rmsec":
                    c = [k for k in active if k[0] == "S" and (k != "S0" or rng.chance(1, 4))]
                    if not c:
                        continue
                    k = rng.choice(c)
                    new.append(("rm", k, ""))
                    r2 = rng.below(4)
                    if r2 == 0:      # re-open the removed section (appended at the end), look at another one, come back
                        force += ["SE:" + k[1:], "body", "SE:other", "SE:" + k[1:], "body"]
                    elif r2 == 1:
                        force += ["SE:other", "SE:last", "body"]
                    elif r2 == 2:
                        force += ["SE:any", "body"]
                elif op == "rmblock":
                    c = [i for i, k in enumerate(active) if k[0] == "S" and (k != "S0" or rng.chance(1, 4))]
                    if not c:
                        continue
                    i = rng.choice(c)
                    j = i
                    while j + 1 < len(active) and active[j + 1][0] != "S":
                        j += 1
                    if rng.chance(1, 3):
                        new.append(("cur", active[rng.range(i, j)], ""))
                    new.append(("rr", active[i], active[j]))
                    force += rng.choice([["SE:other", "SE:last", "body"], ["SE:last", "body"], ["SE:any", "body", "SE:last", "body"],
                                         ["SE:" + active[i][1:], "body", "SE:other", "SE:" + active[i][1:], "body"]])
                elif op == "addsec":
                    c = [k for k in inactive if k[0] == "S"]
                    if not c:
                        continue
                    k = rng.choice(c)
                    how = rng.below(3)
                    refs = list(active)
                    if how == 0 or not refs:
                        if rng.chance(1, 2) and refs:
                            new.append(("cur", rng.choice(refs), ""))
                        new.append(("add", k, ""))
                    else:
                        new.append(("aa" if how == 1 else "ab", k, rng.choice(refs)))
                    force += rng.choice([["body", "SE:other", "SE:" + k[1:], "body"], ["SE:last", "body"], ["SE:any", "body"], ["body"]])
                elif op == "se":
                    force += ["SE:%d" % rng.below(nsec + 1), "body"] + (["SE:any", "body"] if rng.chance(1, 2) else [])
                    continue
                elif op == "emit":
                    kind = self.pick_kind(st)
                    if kind == "CN" and rng.chance(1, 2):
                        kind = "I"
                    if forced_kind is not None:
                        kind = forced_kind
                        if kind == "body":
                            kind = rng.choice(["I", "I", "EM", "EM", "ED", "B", "CM"])
                        elif kind.startswith("SE:"):
                            secs_active = [int(k[1:]) for k in active if k[0] == "S"]
                            t = kind[3:]
                            if t == "last":
                                t = secs_active[-1] if secs_active else rng.below(nsec + 1)
                            elif t == "other":
                                c = secs_active[:-1] or secs_active
                                t = rng.choice(c) if c else 0
                            elif t == "any":
                                t = rng.below(nsec + 1)
                            st["force_sec"] = int(t)
                            kind = "SE"
                    tmp = []
                    # labels bound in the model, not in generation history, decide what may be bound again
                    st["bound"] = set(int(k[1:]) for k in m.nodes if k[0] == "L")
                    self.gen_call(st, tmp, kind, pool, arch)
                    for c in tmp:
                        calls2[c["cid"]] = c
                        # 1 in 6 of the calls that make exactly one node: the node is made by hand (new_inst_node + set_op + ..., new_align_node,
                        # new_embed_data_node, new_comment_node) and linked with add_node() instead of going through the emitter call
                        by_hand = c["kind"] in ("I", "AL", "EM", "ED", "CM") and self.side.chance(1, 6)
                        new.append(("ni" if by_hand else "emit", str(c["cid"]), ""))
                # what the section-related edits of this step are (coverage accounting, from the model state before the step)
                step_stats = []
                for e in new:
                    if e[0] == "emit" and calls2[int(e[1])]["kind"] == "SE":
                        k = "S%d" % calls2[int(e[1])]["sec"]
                        step_stats.append("section()_of_" + ("active" if k in m.nodes else "removed" if k in m.created else "never_added") + "_section")
                    elif e[0] == "rm" and e[1][0] == "S":
                        step_stats.append("section_node_removed_alone")
                    elif e[0] == "rr" and e[1] in m.nodes and e[2] in m.nodes:
                        i, j = m.nodes.index(e[1]), m.nodes.index(e[2])
                        if any(k[0] == "S" for k in m.nodes[i:j + 1]):
                            step_stats.append("section_node_removed_in_range")
                    elif e[0] in ("add", "aa", "ab", "mv") and e[1][0] == "S":
                        step_stats.append("section_node_inserted_by_" + {"add": "add_node", "aa": "add_after", "ab": "add_before", "mv": "set_cursor+add_node"}[e[0]])
                # apply to a copy first so that a failing precondition leaves the model untouched
                trial = Model()
                trial.__dict__.update({k: (set(v) if isinstance(v, set) else list(v) if isinstance(v, list) else v) for k, v in m.__dict__.items()})
                for e in new:
                    trial.edit(e, calls2)
                m = trial
                edits += new
                if forced_kind is None:
                    steps += 1
                for x in step_stats:
                    sec_stats[x] = sec_stats.get(x, 0) + 1
                for e in new:
                    if e[0] == "ni":
                        xnew.append("node_made_by_hand_" + calls2[int(e[1])]["kind"])
                for x in xnew:
                    xstats[x] = xstats.get(x, 0) + 1
            except Invalid:
                st.pop("force_sec", None)
                for e in new:
                    if e[0] in ("emit", "ni"):
                        c = calls2.pop(int(e[1]), None)
                        if c and c["kind"] == "NL" and c["k"] == st.get("gc_label"):
                            st["gc_label"] = None       # the step that would have created the global pool's label was dropped
                continue
        used = set(int(e[1]) for e in edits if e[0] in ("emit", "ni"))
        script["edits"] = edits
        script["sec_stats"] = sec_stats
        script["xstats"] = xstats
        script["sec_mode"] = sec_mode
        script["calls2"] = [calls2[c] for c in sorted(calls2) if c in used]


# ----------------------------------------------------------------------------------------------------------------------
# fixed probes (run isolated, one script per process)
# ----------------------------------------------------------------------------------------------------------------------
PROBE_INSTS = {
    "x64": ["nop 0 - 0", "push 0 - 1 R:gp64:3", "mov 0 - 2 R:gp32:1 R:gp32:2", "shld 0 - 3 R:gp32:1 R:gp32:2 I:3",
            "vpblendvb 0 - 4 R:xmm:1 R:xmm:2 R:xmm:3 R:xmm:4", "vpermil2ps 0 - 5 R:xmm:1 R:xmm:2 R:xmm:3 R:xmm:4 I:1",
            "pcmpestri 0 - 6 R:xmm:1 R:xmm:2 I:3 R:gp32:1 R:gp32:0 R:gp32:2"],
    "a64": ["nop 0 - 0", "br 0 - 1 G:x:3", "mov 0 - 2 G:x:1 G:x:2", "add 0 - 3 G:x:1 G:x:2 G:x:3", "madd 0 - 4 G:x:1 G:x:2 G:x:3 G:x:4"],
}


def probe_scripts(pools=None):
    """fixed scripts (independent of seed and pools) for observations that need a dedicated history"""
    out = []
    for arch in ("x64", "a64"):
        insts = PROBE_INSTS[arch]
        # (1) every node removed, then finalize()
        calls = [dict(cid=1, phase=1, kind="I", text="- " + insts[2]), dict(cid=2, phase=1, kind="CM", text="cm_2")]
        out.append(("empty-node-list", dict(sid="probe-empty-%s" % arch, arch=arch, flags=F_VALIDATE_ASM, secs=[], calls=calls,
                                            edits=[("rr", "S0", "2")], calls2=[], allow_empty=True)))
        # (2) InstNode made with new_inst_node() + set_op() for op_count operands + add_node()
        for nops, tail in enumerate(insts):
            calls = [dict(cid=1, phase=1, kind="CM", text="cm_1")]
            calls2 = [dict(cid=2, phase=2, kind="I", text="- " + tail)]
            out.append(("new_inst_node:ops=%d" % nops, dict(sid="probe-ni%d-%s" % (nops, arch), arch=arch, flags=F_VALIDATE_ASM, secs=[], calls=calls,
                                                            edits=[("ni", "2", "")], calls2=calls2)))
        # (3) `.byte L1 - L0` (delta 200) emitted into .data before both labels are bound in .text
        calls = [dict(cid=1, phase=1, kind="NL", text="0 - 0 0", k=0), dict(cid=2, phase=1, kind="NL", text="1 - 0 0", k=1),
                 dict(cid=3, phase=1, kind="SE", text="1", sec=1), dict(cid=4, phase=1, kind="LD", text="1 0 1", uses=[0, 1]),
                 dict(cid=5, phase=1, kind="SE", text="0", sec=0), dict(cid=6, phase=1, kind="B", text="0", k=0, uses=[0]),
                 dict(cid=7, phase=1, kind="EM", text="1f2003d5" * 50), dict(cid=8, phase=1, kind="B", text="1", k=1, uses=[1])]
        out.append(("label-delta-200-in-1-byte", dict(sid="probe-delta-%s" % arch, arch=arch, flags=0, secs=[(".data", 0, 1, 1)], calls=calls, edits=[], calls2=[])))
        # (4) a section that once had a successor becomes the last active section; section() must then continue at its end
        em = lambda cid, ph, b: dict(cid=cid, phase=ph, kind="EM", text=b * 4)
        se = lambda cid, ph, n: dict(cid=cid, phase=ph, kind="SE", text="%d" % n, sec=n)
        secs3 = [(".data", 0, 1, 0), (".rodata", 0, 1, 0)]
        calls = [se(1, 1, 1), em(2, 1, "a1"), se(3, 1, 2), em(4, 1, "b2"), se(5, 1, 0), em(6, 1, "c0")]      # T,X,Y ; links computed at call 5
        #   (a) Y's SectionNode is removed together with its block; T is visited (links recomputed); X is re-entered
        out.append(("section-becomes-last:remove-nodes", dict(sid="probe-seclast-a-%s" % arch, arch=arch, flags=0, secs=secs3, calls=list(calls),
                    edits=[("rr", "S2", "4"), ("emit", "7", ""), ("emit", "8", ""), ("emit", "9", "")], calls2=[se(7, 2, 0), se(8, 2, 1), em(9, 2, "d1")])))
        #   (b) X's SectionNode is removed and X re-opened (T,X,Y -> T,Y,X); T is visited; X is re-entered
        out.append(("section-becomes-last:reopen", dict(sid="probe-seclast-b-%s" % arch, arch=arch, flags=0, secs=secs3, calls=list(calls),
                    edits=[("rm", "S1", ""), ("emit", "7", ""), ("emit", "8", ""), ("emit", "9", ""), ("emit", "10", "")],
                    calls2=[se(7, 2, 1), se(8, 2, 0), se(9, 2, 1), em(10, 2, "d1")])))
        #   (c) Y's SectionNode alone is removed (its block falls to X), then re-inserted in front of X with add_before; both are re-entered
        out.append(("section-becomes-last:add-before", dict(sid="probe-seclast-c-%s" % arch, arch=arch, flags=0, secs=secs3, calls=list(calls),
                    edits=[("rm", "S2", ""), ("ab", "S2", "S1"), ("emit", "7", ""), ("emit", "8", ""), ("emit", "9", ""), ("emit", "10", ""), ("emit", "11", "")],
                    calls2=[se(7, 2, 0), se(8, 2, 1), em(9, 2, "d1"), se(10, 2, 2), em(11, 2, "e2")])))
    return out
