"""x86/x64 case generator: turns ISA-database forms into emitter calls (cases).

The generator - not AsmJit - decides what every case means. A case is a dict:
  id, arch ('x86'|'x64'), form (index into isadb.x86_forms()), name, opts (InstOptions bits),
  extra (None | ('k', id)), ops: list of operands, variant (class label used for coverage accounting)
Operands:
  ('R', rtype, id)                rtype in gp8lo gp8hi gp16 gp32 gp64 xmm ymm zmm mm k sreg creg dreg st bnd tmm
  ('M', dict(size, base, index, shift, disp, seg, bcst, addr))   base/index = (rtype, id) | None | ('rip', 0)
  ('I', value)
  ('L', n)                        label n (driver: 0 = bound immediately before this instruction)
"""

# InstOptions (asmjit/core/inst.h) - public API constants the driver passes through
OPT_SHORT, OPT_LONG = 0x10, 0x20
OPT_TAKEN, OPT_NOTTAKEN = 0x40, 0x80
OPT_MODMR, OPT_MODRM = 0x100, 0x200
OPT_VEX3, OPT_VEX, OPT_EVEX = 0x400, 0x800, 0x1000
OPT_LOCK, OPT_REP, OPT_REPNE = 0x2000, 0x4000, 0x8000
OPT_XACQUIRE, OPT_XRELEASE = 0x10000, 0x20000
OPT_ER, OPT_SAE = 0x40000, 0x80000
OPT_RN, OPT_RD, OPT_RU, OPT_RZ = 0, 0x200000, 0x400000, 0x600000
OPT_ZMASK = 0x800000
OPT_REX = 0x40000000
# EncodingOptions (asmjit/core/emitter.h): per-case, passed to the driver as a trailing `eo=<hex>` token
EO_OPTSIZE, EO_PREDICTED_JUMPS = 0x1, 0x10
# CodeHolder base addresses of the absolute-operand dimension (None: no base address, the JIT default)
ABS_BASES = [("none", None), ("zero", 0), ("low", 0x10000), ("high", 0x140001000), ("top", 0x00007FFE12340000)]
SIDE_STREAM = 0x5EEDA11CE0C01B11   # the extended dimensions draw from rng.s ^ SIDE_STREAM: the main stream is untouched

FIXED_REGS = {}
for i, n in enumerate(["al", "cl", "dl", "bl"]):
    FIXED_REGS[n] = ("gp8lo", i)
for i, n in enumerate(["ah", "ch", "dh", "bh"]):
    FIXED_REGS[n] = ("gp8hi", i)
for i, n in enumerate(["ax", "cx", "dx", "bx", "sp", "bp", "si", "di"]):
    FIXED_REGS[n] = ("gp16", i)
    FIXED_REGS["e" + n] = ("gp32", i)
    FIXED_REGS["r" + n] = ("gp64", i)
for i, n in enumerate(["es", "cs", "ss", "ds", "fs", "gs"]):
    FIXED_REGS[n] = ("sreg", i + 1)
FIXED_REGS["xmm0"] = ("xmm", 0)
FIXED_REGS["st(0)"] = ("st", 0)

CLASS_OF = {"r8": "gp8", "r16": "gp16", "r32": "gp32", "r64": "gp64", "xmm": "xmm", "ymm": "ymm", "zmm": "zmm",
            "mm": "mm", "k": "k", "tmm": "tmm", "sreg": "sreg", "creg": "creg", "dreg": "dreg", "st": "st",
            "st(i)": "st", "bnd": "bnd"}

MEM_BYTES = {"m16_16": 4, "m16_32": 6, "m16_64": 10, "m80fp": 10, "m80dec": 10, "m80bcd": 10, "m384": 48}


def reg_ids(cls, mode, deep):
    """ids worth sweeping for a register class in a mode"""
    if cls in ("gp8",):
        if mode == 32:
            return [("gp8lo", i) for i in range(4)] + [("gp8hi", i) for i in range(4)]
        lo = range(16) if deep else (0, 1, 3, 4, 5, 6, 7, 8, 12, 13, 15)
        return [("gp8lo", i) for i in lo] + [("gp8hi", i) for i in range(4)]
    if cls in ("gp16", "gp32", "gp64"):
        if mode == 32:
            return [(cls, i) for i in range(8)]
        ids = range(16) if deep else (0, 1, 3, 4, 5, 7, 8, 12, 13, 15)
        return [(cls, i) for i in ids]
    if cls in ("xmm", "ymm", "zmm"):
        if mode == 32:
            return [(cls, i) for i in range(8)]
        ids = range(32) if deep else (0, 1, 4, 5, 7, 8, 13, 15, 16, 23, 24, 31)
        return [(cls, i) for i in ids]
    if cls in ("mm", "st", "tmm"):
        return [(cls, i) for i in range(8)]
    if cls == "k":
        return [(cls, i) for i in range(8)]
    if cls == "sreg":
        return [(cls, i) for i in range(1, 7)]
    if cls in ("creg", "dreg"):
        return [(cls, i) for i in ((0, 2, 3, 4, 8) if cls == "creg" and mode == 64 else (0, 2, 3, 4) if cls == "creg" else (0, 1, 2, 3, 6, 7))]
    if cls == "bnd":
        return [(cls, i) for i in range(4)]
    return []


def out_of_range_ids(cls, mode):
    """ids that exist in the operand model but that the mode/encoding cannot express (must be refused, or
    if accepted still decode correctly)"""
    if cls in ("gp16", "gp32", "gp64"):
        return [(cls, i) for i in ((8, 15, 16, 31) if mode == 32 else (16, 31))]
    if cls == "gp8":
        return [("gp8lo", i) for i in ((4, 7, 8) if mode == 32 else (16,))] + [("gp8hi", 4)]
    if cls in ("xmm", "ymm", "zmm"):
        return [(cls, i) for i in ((8, 16, 31) if mode == 32 else (32,))]
    if cls in ("mm", "k", "st", "tmm"):
        return [(cls, 8)]
    if cls == "sreg":
        return [(cls, 0), (cls, 7)]
    if cls == "bnd":
        return [(cls, 4)]
    return []


DISPS = [0, 1, -1, 127, -128, 128, -129, 0x7FFFFFFF, -0x80000000, 0x12345678, 64, 256, 2032, 4064, 8128, -8192, 8192]


class Gen:
    def __init__(self, rng, deep=False):
        self.rng = rng
        self.deep = deep
        self.next_id = 0
        self.canonical = False   # low registers and plain [base] memory operands only (C13's representative instantiation)
        # extended dimensions (C01/C13 round 11): implicit operands omitted, ModMR/ModRM on every prefix class, long form on
        # non-branches, branch hints / size optimisation (EncodingOptions), address-size x index-type matrix, disp8*N
        # boundaries under every addressing style. Off by default so that every other user of this generator (C08, C12,
        # C14, C20) keeps exactly the case set it had; all picks come from a side stream.
        self.ext = False
        self.ext_fraction = 1.0  # --scale < 1: keep this fraction of the extended variants

    # -- operand instantiation ------------------------------------------------
    def pick_reg(self, cls, mode, avoid_hi=False, low_only=False):
        ids = reg_ids(cls, mode, True)
        if self.canonical:
            low_only = True
            avoid_hi = True
        if avoid_hi:
            ids = [r for r in ids if r[0] != "gp8hi"]
        if low_only:
            ids = [r for r in ids if r[1] < 8 and not (r[0] == "gp8lo" and r[1] >= 4)]
        return self.rng.choice(ids)

    def mem_operand(self, o, mode, form, style=None):
        """build a memory operand for db operand `o`"""
        rng = self.rng
        mem = o["mem"]
        bits = o["memSize"]
        size = MEM_BYTES.get(mem, bits // 8 if bits and bits > 0 else 0)
        m = dict(size=size, base=None, index=None, shift=0, disp=0, seg=0, bcst=0, addr="default")
        if mem.startswith("moff"):
            m["disp"] = rng.choice([0x1000, 0x7FFFFFFF, 0x12345678, 0x11223344 if mode == 32 else 0x1122334455667788])
            if mode == 32:
                m["disp"] &= 0xFFFFFFFF
            m["addr"] = "abs"
            return m
        areg = "gp64" if mode == 64 else "gp32"
        if style is None and o.get("memSegment") in ("es", "ds") and ((form["opcode"]["mod"] == "" and form["encoding"] in ("OP", "NONE", "RM", "MR")) or form["name"].startswith(("maskmov", "vmaskmov"))):
            # implicit memory operand (string instructions, maskmov*): es:[zdi] / ds:[zsi]-style, nothing else is encodable
            m["base"] = (areg, 7 if o["memSegment"] == "es" else (7 if form["name"].startswith(("maskmov", "vmaskmov")) else 6))
            if form["name"] in ("xlatb",):
                m["base"] = (areg, 3)
            if form["name"] in ("clzero", "monitor", "monitorx", "umonitor", "invlpga", "vmload", "vmsave", "vmrun"):
                m["base"] = (areg, 0)
            return m
        if style is None and self.canonical:
            style = "b"
        if style is None:
            style = rng.choice(["b", "bd8", "bd32", "bis", "bisd", "isd", "abs", "rip" if mode == 64 else "bd8",
                                "a32" if mode == 64 else "a16", "bsp", "bbp", "seg"])
        if o.get("vsibReg"):
            vreg = o["vsibReg"]
            m["index"] = self.pick_reg(vreg, mode)
            m["shift"] = rng.below(4)
            if style not in ("isd", "abs"):
                breg = areg
                if self.ext and style in ("a32", "a16"):
                    breg = "gp32" if mode == 64 else "gp16"   # other address size with a vector index (same number of draws)
                m["base"] = self.pick_reg(breg, mode)
            m["disp"] = rng.choice(DISPS[:10]) if style != "b" else 0
            return m
        if mem == "tmem" and style in ("rip", "abs", "a32", "a16", "isd"):
            style = rng.choice(["b", "bd8", "bis", "bisd", "bbp", "bsp"])   # sibmem: base required, index optional
        if style == "b":
            m["base"] = self.pick_reg(areg, mode)
        elif style == "bd8":
            m["base"] = self.pick_reg(areg, mode)
            m["disp"] = rng.choice([1, -1, 127, -128, 64, -64, 8])
        elif style == "bd32":
            m["base"] = self.pick_reg(areg, mode)
            m["disp"] = rng.choice([128, -129, 0x7FFFFFFF, -0x80000000, 0x12345678, 4064, 8192])
        elif style in ("bis", "bisd"):
            m["base"] = self.pick_reg(areg, mode)
            idx = self.pick_reg(areg, mode)
            while idx[1] == 4:
                idx = self.pick_reg(areg, mode)
            m["index"] = idx
            m["shift"] = rng.below(4)
            if style == "bisd":
                m["disp"] = rng.choice(DISPS)
        elif style == "isd":
            idx = self.pick_reg(areg, mode)
            while idx[1] == 4:
                idx = self.pick_reg(areg, mode)
            m["index"] = idx
            m["shift"] = rng.below(4)
            m["disp"] = rng.choice([0, 16, -16, 0x12345678])
        elif style == "abs":
            m["disp"] = rng.choice([0x1000, 0x7FFFFFF0, 0x12345678])
            if mode == 64 and rng.chance(1, 3) and form["name"] not in ("lea", "bndldx", "bndstx", "bndmk"):
                # (lea: AsmJit legitimately uses the 32-bit operand size instead of a prefix; bnd*: a base register is added)
                # unsigned 32-bit addresses with bit 31 set: not reachable by a sign-extended disp32, the assembler has to
                # insert an address-size prefix in front of the bytes it has already produced
                m["disp"] = rng.choice([0x80000000, 0xFFFFFFF0, 0xFFFFFFFF, 0x9ABCDEF0])
            # in 64-bit mode a plain absolute address is relocatable ([rip+rel] + relocation entry): that path is C04's
            m["addr"] = "abs" if (mode == 64 or rng.chance(1, 2)) else "default"
        elif style == "rip":
            m["base"] = ("rip", 0)
            m["disp"] = rng.choice([0, 16, -16, 0x12345678, -0x80000000, 0x7FFFFFFF])
        elif style == "a32":  # 32-bit address registers in 64-bit mode (0x67)
            m["base"] = self.pick_reg("gp32", mode)
            if rng.chance(1, 2):
                idx = self.pick_reg("gp32", mode)
                while idx[1] == 4:
                    idx = self.pick_reg("gp32", mode)
                m["index"] = idx
                m["shift"] = rng.below(4)
            m["disp"] = rng.choice([0, 8, -8, 0x1000])
        elif style == "a16":  # 16-bit addressing in 32-bit mode
            combos = [((3, 6)), ((3, 7)), ((5, 6)), ((5, 7)), (6, None), (7, None), (5, None), (3, None)]
            b, i = rng.choice(combos)
            m["base"] = ("gp16", b)
            if i is not None:
                m["index"] = ("gp16", i)
            m["disp"] = rng.choice([0, 1, -1, 127, -128, 128, 0x1234, -0x8000 + 1])
        elif style == "bsp":
            m["base"] = (areg, 4)
            m["disp"] = rng.choice([0, 8, 0x100])
        elif style == "bbp":
            m["base"] = (areg, rng.choice([5, 13]) if mode == 64 else 5)
            m["disp"] = rng.choice([0, 0, 8, 0x100])
        elif style == "seg":
            m["base"] = self.pick_reg(areg, mode)
            m["disp"] = rng.choice([0, 4, 0x200])
            m["seg"] = rng.range(1, 6)
        if mem in ("mib",) and m["base"] is None and m["index"] is None:
            m["base"] = self.pick_reg(areg, mode)
        return m

    def imm_values(self, o):
        bits = o["imm"]
        sign = o.get("immSign") or "any"
        vals = [0, 1]
        if bits == 4:
            return [0, 1, 7, 15]
        if sign in ("any", "signed"):
            vals += [-1, (1 << (bits - 1)) - 1, -(1 << (bits - 1))]
        if sign in ("any", "unsigned") and bits < 64:
            vals += [(1 << bits) - 1, 1 << (bits - 1)]
        if bits >= 16:
            vals += [127, 128, -128, -129, 255, 256]
        if bits >= 32:
            vals += [0x7FFF, 0x8000, -0x8000, -0x8001, 0x12345678]
        if bits == 64:
            vals += [0x7FFFFFFF, 0x80000000, -0x80000000, -0x80000001, 0xFFFFFFFF, 0x100000000, 0x123456789ABCDEF0 - (1 << 64) if False else 0x123456789ABCDEF]
        out = []
        for v in vals:
            if sign == "signed" and not (-(1 << (bits - 1)) <= v < (1 << (bits - 1))):
                continue
            if sign == "unsigned" and not (0 <= v < (1 << bits)):
                continue
            if sign == "any" and not (-(1 << (bits - 1)) <= v < (1 << bits)):
                continue
            if v not in out:
                out.append(v)
        return out

    def instantiate(self, form, mode, want_mem=None, mem_style=None):
        """one operand list for the form. want_mem: None=random for reg/mem operands, True/False forced"""
        rng = self.rng
        ops = []
        lead = None
        classes_used = []
        rex_needed = False
        for oi, o in enumerate(form["operands"]):
            data = o["data"]
            if data == "1":
                ops.append(("I", 1))
                continue
            if o["imm"]:
                ops.append(("I", rng.choice(self.imm_values(o))))
                continue
            if o["rel"]:
                ops.append(("L", 0))
                continue
            if data == "1":
                ops.append(("I", 1))
                continue
            if data == "dfv":
                ops.append(("I", rng.below(16)))
                continue
            has_reg = bool(o["reg"])
            has_mem = bool(o["mem"])
            use_mem = has_mem and (not has_reg or (want_mem if want_mem is not None else rng.chance(1, 2)))
            if use_mem:
                ops.append(("M", self.mem_operand(o, mode, form, mem_style)))
                continue
            reg = o["reg"]
            if reg in FIXED_REGS:
                ops.append(("R",) + FIXED_REGS[reg])
                continue
            cls = CLASS_OF.get(o["regType"]) or CLASS_OF.get(reg)
            if cls is None:
                return None
            rel = o.get("regIndexRel") or 0
            if rel and lead is not None:
                ops.append(("R", lead[0], lead[1] + rel))
                continue
            r = self.pick_reg(cls, mode)
            # lead of a run of consecutive registers (next operands carry regIndexRel): align the lead to the run length
            run = 1
            for nxt in form["operands"][oi + 1:]:
                if nxt.get("regIndexRel") or 0:
                    run += 1
                else:
                    break
            if run > 1 and lead is None:
                n = 1
                while n < run:
                    n *= 2
                top = {"k": 8, "tmm": 8}.get(cls, 32 if mode == 64 else 8)
                r = (r[0], rng.below(top // n) * n)
                lead = r
            ops.append(("R",) + r)
        # AH..BH cannot be combined with REX: re-pick conflicting registers so the base case is encodable
        has_hi = any(op[0] == "R" and op[1] == "gp8hi" for op in ops)
        if has_hi and mode == 64:
            fixed = []
            for op in ops:
                if op[0] == "R" and op[1] in ("gp8lo", "gp16", "gp32", "gp64") and (op[2] >= 8 or (op[1] == "gp8lo" and op[2] >= 4)):
                    op = ("R", op[1], op[2] & 3)
                if op[0] == "M":
                    m = dict(op[1])
                    for k in ("base", "index"):
                        if m[k] and m[k][0] in ("gp32", "gp64") and m[k][1] >= 8:
                            m[k] = (m[k][0], m[k][1] & 7 if (m[k][1] & 7) != 4 else 3)
                    op = ("M", m)
                fixed.append(op)
            ops = fixed
        return ops

    def new_case(self, form, mode, ops, variant, opts=0, extra=None, eopts=0):
        c = dict(id=self.next_id, arch="x64" if mode == 64 else "x86", form=form["_idx"], name=form["name"],
                 opts=opts, extra=extra, ops=ops, variant=variant)
        if eopts:
            c["eopts"] = eopts
        self.next_id += 1
        return c

    # -- variants -------------------------------------------------------------
    def cases_for_form(self, form, mode, budget):
        """a list of cases for one form in one mode"""
        rng = self.rng
        side = type(rng)(rng.s ^ SIDE_STREAM ^ (form["_idx"] * 2 + (mode == 64)))
        out = []
        opers = form["operands"]
        rm_idx = [i for i, o in enumerate(opers) if o["reg"] and o["mem"]]
        mem_idx = [i for i, o in enumerate(opers) if o["mem"]]
        # base cases: register form and memory form
        for want_mem in ([False, True] if rm_idx else [None]):
            ops = self.instantiate(form, mode, want_mem)
            if ops is None:
                return out
            out.append(self.new_case(form, mode, ops, "base-mem" if want_mem else "base"))
        base = out[0]["ops"]
        variants = []
        # register sweeps: one operand at a time around the base assignment
        for oi, o in enumerate(opers):
            if not o["reg"] or o["reg"] in FIXED_REGS or (o.get("regIndexRel") or 0):
                continue
            cls = CLASS_OF.get(o["regType"])
            if cls is None:
                continue
            for r in reg_ids(cls, mode, self.deep):
                ops = list(base)
                if ops[oi][0] != "R":
                    ops = list(self.instantiate(form, mode, False) or base)
                    if ops[oi][0] != "R":
                        continue
                ops[oi] = ("R",) + r
                variants.append(("reg%d" % oi + ("-ext" if r[1] >= 8 else "-hi" if r[0] == "gp8hi" else ""), ops, 0, None))
            for r in out_of_range_ids(cls, mode):
                ops = list(base)
                if ops[oi][0] != "R":
                    continue
                ops[oi] = ("R",) + r
                variants.append(("reg%d-oob" % oi, ops, 0, None))
        # implicit memory operands (string instructions, maskmov*, xlatb): the registers are fixed, but the DS:[zSI]-style
        # operand takes any segment override and both take the other address size - with valid registers, so that these are
        # judged as ordinary cases (the generic styles below give such forms registers that do not exist for them)
        impl = [i for i, o in enumerate(opers) if o["mem"] and o.get("memSegment") in ("es", "ds") and not o["mem"].startswith("moff")]
        if impl:
            iops = self.instantiate(form, mode, True, None)
            if iops and all(iops[i][0] == "M" and iops[i][1]["base"] and not iops[i][1]["index"] for i in impl):
                small = "gp32" if mode == 64 else "gp16"
                for seg in (0, 2, 3, 4, 5, 6):
                    for a32 in (False, True):
                        if not seg and not a32:
                            continue
                        ops = list(iops)
                        for i in impl:
                            m = dict(ops[i][1])
                            if a32:
                                m["base"] = (small, m["base"][1])
                            if seg and opers[i].get("memSegment") == "ds":
                                m["seg"] = seg
                            ops[i] = ("M", m)
                        variants.append(("implicit-%s%s" % ("seg%d" % seg if seg else "", "-a32" if a32 else ""), ops, 0, None))
        # memory form sweeps
        if mem_idx:
            styles = ["b", "bd8", "bd32", "bis", "bisd", "isd", "abs", "bsp", "bbp", "seg"]
            styles += ["rip", "a32"] if mode == 64 else ["a16"]
            for st in styles:
                for rep in range(3 if self.deep else 1):
                    ops = self.instantiate(form, mode, True, st)
                    if ops:
                        variants.append(("mem-" + st, ops, 0, None))
            # disp8*N boundaries for EVEX forms
            if form["prefix"] == "EVEX" and not any(o.get("vsibReg") for o in opers):
                for n in (1, 2, 4, 8, 16, 32, 64):
                    for k in (127, 128, -128, -129):
                        ops = self.instantiate(form, mode, True, "bd8")
                        if ops is None:
                            continue
                        for i, op in enumerate(ops):
                            if op[0] == "M":
                                m = dict(op[1])
                                m["disp"] = n * k
                                ops[i] = ("M", m)
                        variants.append(("mem-disp8xN", ops, 0, None))
            # size-less memory operand
            ops = self.instantiate(form, mode, True, "bd8")
            if ops:
                for i, op in enumerate(ops):
                    if op[0] == "M":
                        m = dict(op[1])
                        m["size"] = 0
                        ops[i] = ("M", m)
                variants.append(("mem-nosize", ops, 0, None))
        # broadcast
        if form.get("broadcast"):
            for i, o in enumerate(opers):
                if o.get("bcstSize", -1) and o.get("bcstSize", -1) > 0 and o["mem"]:
                    n = o["memSize"] // o["bcstSize"]
                    code = {2: 1, 4: 2, 8: 3, 16: 4, 32: 5, 64: 6}.get(n)
                    for st in ("b", "bd8", "bd32", "bisd"):
                        ops = self.instantiate(form, mode, True, st)
                        if ops is None or code is None:
                            continue
                        m = dict(ops[i][1])
                        m["bcst"] = code
                        m["size"] = o["bcstSize"] // 8
                        if st == "bd8":
                            m["disp"] = rng.choice([127, 128, -128, -129]) * (o["bcstSize"] // 8)
                        ops[i] = ("M", m)
                        variants.append(("bcst", ops, 0, None))
                    # a wrong broadcast factor must be refused
                    ops = self.instantiate(form, mode, True, "b")
                    if ops and code is not None:
                        m = dict(ops[i][1])
                        m["bcst"] = code + 1 if code < 6 else code - 1
                        m["size"] = o["bcstSize"] // 8
                        ops[i] = ("M", m)
                        variants.append(("bcst-wrong", ops, 0, None))
        # immediates
        for oi, o in enumerate(opers):
            if o["imm"] and o["data"] != "1":
                for v in self.imm_values(o):
                    ops = list(base)
                    ops[oi] = ("I", v)
                    variants.append(("imm%d" % oi, ops, 0, None))
                bits = o["imm"]
                for v in ((1 << bits), -(1 << (bits - 1)) - 1) if bits < 64 else ():
                    ops = list(base)
                    ops[oi] = ("I", v)
                    variants.append(("imm%d-oob" % oi, ops, 0, None))
        # masks / zeroing / rounding
        if form.get("kmask"):
            for k in range(1, 8):
                variants.append(("k", list(base), 0, ("k", k)))
            if form.get("zmask"):
                variants.append(("kz", list(base), OPT_ZMASK, ("k", rng.range(1, 7))))
                variants.append(("z-without-k", list(base), OPT_ZMASK, None))
            if rm_idx or mem_idx:
                ops = self.instantiate(form, mode, True)
                if ops:
                    variants.append(("k-mem", ops, 0, ("k", rng.range(1, 7))))
        else:
            variants.append(("k-illegal", list(base), 0, ("k", 1)))
        regonly = self.instantiate(form, mode, False)
        if regonly and not any(op[0] == "M" for op in regonly):
            if form.get("er"):
                for rc in (OPT_RN, OPT_RD, OPT_RU, OPT_RZ):
                    variants.append(("er", list(regonly), OPT_ER | rc, None))
                variants.append(("er-k", list(regonly), OPT_ER | OPT_RZ, ("k", 3) if form.get("kmask") else None))
            elif form["prefix"] == "EVEX":
                variants.append(("er-illegal", list(regonly), OPT_ER | OPT_RU, None))
            if form.get("sae"):
                variants.append(("sae", list(regonly), OPT_SAE, None))
            elif form["prefix"] == "EVEX" and not form.get("er"):
                variants.append(("sae-illegal", list(regonly), OPT_SAE, None))
        # prefixes / options
        pf = form.get("prefixes") or {}
        memform = self.instantiate(form, mode, True) if mem_idx else None
        for name, bit in (("lock", OPT_LOCK), ("xacquire", OPT_XACQUIRE), ("xrelease", OPT_XRELEASE)):
            if pf.get(name) or (name == "lock" and pf.get("ilock")):
                if memform:
                    o2 = bit | (OPT_LOCK if name != "lock" and pf.get("lock") else 0)
                    variants.append((name, list(memform), o2, None))
            elif memform and rng.chance(1, 4):
                variants.append((name + "-illegal", list(memform), bit, None))
        for name, bit in (("rep", OPT_REP), ("repne", OPT_REPNE)):
            if pf.get(name):
                variants.append((name, list(base), bit, None))
            elif rng.chance(1, 8):
                variants.append((name + "-illegal", list(base), bit, None))
        if form["prefix"] == "VEX":
            variants.append(("vex3", list(base), OPT_VEX3, None))
            variants.append(("evex-opt", list(base), OPT_EVEX, None))
            if memform:
                variants.append(("vex3-mem", list(memform), OPT_VEX3, None))
        if form["prefix"] == "EVEX":
            variants.append(("vex-opt", list(base), OPT_VEX, None))
            variants.append(("evex-opt", list(base), OPT_EVEX, None))
        if form["prefix"] == "" and form["encoding"] in ("MR", "RM") and not mem_idx == [] and rm_idx:
            variants.append(("modmr", list(base), OPT_MODMR, None))
            variants.append(("modrm", list(base), OPT_MODRM, None))
        if mode == 64 and form["prefix"] == "":
            variants.append(("rex", list(base), OPT_REX, None))
        if any(o["rel"] for o in opers):
            variants.append(("short", list(base), OPT_SHORT, None))
            variants.append(("long", list(base), OPT_LONG, None))
        # fully random combinations (operands, mask, options the form allows)
        for _ in range(40 if self.deep else 2):
            ops = self.instantiate(form, mode, None)
            if ops:
                o2 = 0
                if form.get("zmask") and rng.chance(1, 4):
                    o2 |= OPT_ZMASK
                if form["prefix"] == "VEX" and rng.chance(1, 4):
                    o2 |= OPT_VEX3
                ex = ("k", rng.range(1, 7)) if form.get("kmask") and (o2 & OPT_ZMASK or rng.chance(1, 2)) else None
                if o2 & OPT_ZMASK and ex is None:
                    o2 &= ~OPT_ZMASK
                variants.append(("random", ops, o2, ex))
        # budget: stratified - keep one of each variant class first, then fill randomly
        chosen = []
        if budget is None or len(variants) <= budget:
            chosen = variants
        else:
            by = {}
            for v in variants:
                by.setdefault(v[0], []).append(v)
            keys = sorted(by)
            rng.shuffle(keys)
            while len(chosen) < budget and keys:
                for k in list(keys):
                    if not by[k]:
                        keys.remove(k)
                        continue
                    chosen.append(by[k].pop(rng.below(len(by[k]))))
                    if len(chosen) >= budget:
                        break
        for name, ops, opts, extra in chosen:
            out.append(self.new_case(form, mode, ops, name, opts, extra))
        if self.ext:
            for v in self.ext_variants(form, mode, base, side):
                c = self.new_case(form, mode, v[1], v[0], v[2], v[3], v[4] if len(v) > 4 else 0)
                if len(v) > 5:
                    c.update(v[5])
                out.append(c)
        return out


    # -- extended dimensions (side stream) --------------------------------------
    def _asz_cells(self, mode, vsib):
        """(label, base class | None, index class | None | 'vec'): the address-size x index-type matrix of one mode.
        Cells that mix two address sizes, or give a vector index a 16-bit base, cannot be encoded: they must be refused
        (an accepted one is judged like every other case)."""
        if vsib:
            return ([("b32v", "gp32", "vec"), ("nov", None, "vec"), ("b64v", "gp64", "vec")] if mode == 64 else
                    [("b16v", "gp16", "vec"), ("nov", None, "vec"), ("b32v", "gp32", "vec")])
        if mode == 64:
            return [("b32", "gp32", None), ("i32", None, "gp32"), ("b32i32", "gp32", "gp32"), ("b32i64", "gp32", "gp64"),
                    ("b64i32", "gp64", "gp32"), ("i64", None, "gp64")]
        return [("b16", "gp16", None), ("i16", None, "gp16"), ("b16i16", "gp16", "gp16"), ("b16i32", "gp16", "gp32"),
                ("b32i16", "gp32", "gp16"), ("i32", None, "gp32")]

    def _asz_mem(self, m, o, mode, cell):
        rng = self.rng
        label, bcls, icls = cell
        m = dict(m)
        m["seg"] = 0
        m["addr"] = "default"
        m["base"] = m["index"] = None
        m["shift"] = 0
        if bcls == "gp16":
            m["base"] = ("gp16", rng.choice([3, 5, 6, 7]))
        elif bcls:
            m["base"] = self.pick_reg(bcls, mode)
        if icls == "vec":
            m["index"] = self.pick_reg(o["vsibReg"], mode)
            m["shift"] = rng.below(4)
        elif icls == "gp16":
            m["index"] = ("gp16", rng.choice([6, 7]))
            if m["base"] and m["base"][0] == "gp16":
                m["base"] = ("gp16", rng.choice([3, 5]))
        elif icls:
            idx = self.pick_reg(icls, mode)
            while idx[1] == 4:
                idx = self.pick_reg(icls, mode)
            m["index"] = idx
            m["shift"] = rng.below(4) if icls != "gp16" else 0
        m["disp"] = rng.choice([0, 8, -8, 127, -128, 128, 0x1000, -0x1000])
        return m


    def _absrel_target(self, side, cbase, pad, kind):
        """a requested absolute address of class `kind` for code that starts at cbase (+pad), or None when the class does not
        exist for this base"""
        b = (cbase or 0) + pad
        if kind == "near+":
            t = b + 0x200000 + side.below(64)
        elif kind == "near-":
            t = b - 0x100000 + side.below(64)
        elif kind == "edge+":      # around rip + 2^31 - 1 (rip = b + instruction length)
            t = b + 0x7FFFFFFF + side.range(-2, 20)
        elif kind == "edge-":      # around rip - 2^31
            t = b - 0x80000000 + side.range(-4, 20)
        elif kind == "low32":
            t = side.choice([0x1000, 0x7FFFFFF0, 0x12345678])
        elif kind == "u32":
            t = side.choice([0x80000000, 0xFFFFFFF0, 0x9ABCDEF0])
        else:                      # far: not reachable from the code, not a 32-bit value
            t = b + (1 << 33) + side.below(4096)
        return t if t >= 0 else None

    def _absrel_variants(self, form, mode, side, out):
        """(7) base-less, index-less (absolute) memory operands x address type {abs, rel, default} x CodeHolder base address
        {none, 0, low, > 4 GiB} x requested address {32-bit, near the code, at the edge of the rel32 reach, out of reach}.
        With a known base the assembler turns rel/default operands into [rip+disp32] itself: disp32 counts from the end of
        the instruction, i.e. behind a trailing immediate / is4 / 3DNow! suffix byte."""
        opers = form["operands"]
        deep = self.deep
        mems = [i for i, o in enumerate(opers) if o["mem"] and not o.get("vsibReg") and o["mem"] not in ("tmem", "mib") and
                not (o.get("memSegment") in ("es", "ds") and not o["mem"].startswith("moff"))]
        if not mems or form["name"] in ("lea", "bndldx", "bndstx", "bndmk", "bndcl", "bndcu", "bndcn"):
            return
        trail = any(o["imm"] for o in opers) or "/is4" in form["opcodeString"] or form["prefix"] == "3DNOW"
        if mode == 64:
            ripcells = [(a, bn, t) for a in ("rel", "default") for bn in ("zero", "low", "high", "top")
                        for t in ("near+", "near-", "edge+", "edge-", "far") if not (bn in ("zero", "low") and t in ("near-", "edge-"))]
            allcells = ripcells + [(a, bn, t) for a in ("abs", "rel", "default") for bn in ("none", "zero", "low", "high", "top") for t in ("low32", "u32")] + \
                [("abs", bn, t) for bn in ("none", "high") for t in ("near+", "far")] + [(a, "none", "near+") for a in ("rel", "default")]
            if deep:
                cells = allcells
            else:
                cells = [side.choice(ripcells)]
                if trail or side.chance(1, 2):
                    cells.append(side.choice(allcells))
        else:
            allcells = [(a, bn, t) for a in ("abs", "default", "rel") for bn in ("none", "zero", "low") for t in ("low32", "u32", "far")]
            cells = allcells if deep else ([side.choice(allcells)] if side.chance(1, 2) else [])
        bases = dict(ABS_BASES)
        for addr, bn, tk in cells:
            ops = self.instantiate(form, mode, True, "b")
            if not ops:
                continue
            pad = side.choice([0, 0, 1, 7, 100, 4099])
            t = self._absrel_target(side, bases[bn], pad, tk)
            if t is None:
                continue
            i = next((j for j in mems if ops[j][0] == "M"), None)
            if i is None:
                continue
            seg = side.choice([5, 6]) if side.chance(1, 10) else 0
            ops[i] = ("M", dict(ops[i][1], base=None, index=None, shift=0, disp=t, seg=seg, bcst=0, addr=addr))
            ex = ("k", side.range(1, 7)) if form.get("kmask") and side.chance(1, 3) else None
            out.append(("mem-absrel-%s-%s-%s" % (addr, bn, tk), ops, 0, ex, 0, {"cbase": bases[bn], "pad": pad, "trail": bool(trail)}))

    def ext_variants(self, form, mode, base, side):
        """Variants of the extended dimensions: (name, ops, opts, extra, eopts). They are appended after the budgeted
        selection (never compete with it) and every random pick comes from `side`."""
        main = self.rng
        self.rng = side
        try:
            out = self._ext_variants(form, mode, base, side)
        finally:
            self.rng = main
        if self.ext_fraction < 1.0:
            out = [v for v in out if side.below(1000) < int(self.ext_fraction * 1000)]
        return out

    def _ext_variants(self, form, mode, base, side):
        out = []
        deep = self.deep
        opers = form["operands"]
        rm_idx = [i for i, o in enumerate(opers) if o["reg"] and o["mem"]]
        mem_idx = [i for i, o in enumerate(opers) if o["mem"]]
        has_rel = any(o["rel"] for o in opers)
        # (1) the call shapes of the typed API: implicit operands omitted
        imp = form.get("implicit") or 0
        if imp:
            for want_mem in ([False, True] if rm_idx else [None]):
                ops = self.instantiate(form, mode, want_mem)
                if ops:
                    kept = [op for i, op in enumerate(ops) if not (imp >> i) & 1]
                    out.append(("impomit-mem" if want_mem else "impomit", kept, 0, None, 0))
                    pf = form.get("prefixes") or {}
                    if want_mem is not False and (pf.get("lock") or pf.get("ilock")) and any(op[0] == "M" for op in kept):
                        out.append(("impomit-lock", kept, OPT_LOCK, None, 0))
        # (2) ModMR / ModRM on every form with two register operands, whatever its prefix class
        regonly = self.instantiate(form, mode, False)
        nregs = sum(1 for op in (regonly or []) if op[0] == "R")
        budgeted = form["prefix"] == "" and form["encoding"] in ("MR", "RM") and mem_idx and rm_idx
        if regonly and nregs >= 2 and not any(op[0] == "M" for op in regonly) and not budgeted:
            which = [("modmr", OPT_MODMR), ("modrm", OPT_MODRM)]
            if not deep:
                which = [side.choice(which)]
            for name, bit in which:
                out.append((name, list(regonly), bit, None, 0))
            if deep and form.get("kmask"):
                out.append(("modmr-k", list(regonly), OPT_MODMR, ("k", side.range(1, 7)), 0))
        # (3) long form on non-branch instructions: immediates that fit a shorter field, accumulator short forms
        imm_idx = [i for i, o in enumerate(opers) if (o["imm"] or o["data"] == "1") and not o["rel"]]
        if imm_idx and not has_rel and form["prefix"] == "":
            small = [0, 1, -1, 127, -128, 2, 100]
            for want_mem in ([False, True] if rm_idx else [None]):
                for rep in range(4 if deep else 1):
                    ops = self.instantiate(form, mode, want_mem)
                    if not ops:
                        continue
                    for i in imm_idx:
                        if opers[i]["data"] != "1":
                            ok = [v for v in small if v in self.imm_values(opers[i]) or (opers[i]["imm"] >= 8 and 0 <= v < 128)]
                            ops[i] = ("I", side.choice(ok or [0]))
                    out.append(("long-imm" + ("-mem" if want_mem else ""), ops, OPT_LONG, None, 0))
        gp_free = [i for i, o in enumerate(opers) if o["reg"] and o["reg"] not in FIXED_REGS and CLASS_OF.get(o["regType"]) in ("gp8", "gp16", "gp32", "gp64")
                   and not (o.get("regIndexRel") or 0)]
        if gp_free and form["prefix"] == "" and regonly and not has_rel:
            for i in (gp_free if deep else [side.choice(gp_free)]):
                if regonly[i][0] != "R":
                    continue
                for opt, nm in ((OPT_LONG, "long-acc"), (0, "acc")):
                    ops = list(regonly)
                    ops[i] = ("R", "gp8lo" if ops[i][1] == "gp8hi" else ops[i][1], 0)
                    out.append((nm, ops, opt, None, 0))
        # (4) EncodingOptions: branch hints on every relative form (only jcc takes them), size optimisation
        if has_rel:
            for nm, bit in (("taken", OPT_TAKEN), ("nottaken", OPT_NOTTAKEN)):
                out.append((nm, list(base), bit, None, EO_PREDICTED_JUMPS))
            out.append(("taken-off", list(base), side.choice([OPT_TAKEN, OPT_NOTTAKEN]), None, 0))
            out.append(("taken-short", list(base), side.choice([OPT_TAKEN, OPT_NOTTAKEN]) | OPT_SHORT, None, EO_PREDICTED_JUMPS))
            out.append(("taken-long", list(base), side.choice([OPT_TAKEN, OPT_NOTTAKEN]) | OPT_LONG, None, EO_PREDICTED_JUMPS))
        if mode == 64 and form["prefix"] == "" and regonly and any(o["regType"] == "r64" and o["reg"] not in FIXED_REGS for o in opers):
            real_imm = [i for i in imm_idx if opers[i]["data"] != "1"]
            if real_imm:
                free64 = [j for j, o in enumerate(opers) if o["regType"] == "r64" and o["reg"] and o["reg"] not in FIXED_REGS and not (o.get("regIndexRel") or 0)]
                for i in real_imm:
                    vals = self.imm_values(opers[i])
                    probe = [v for v in (1, 0x7FFFFFFF, 0x80000000, 0xFFFFFFFF, -1, 0x12345678) if v in vals] + [side.choice(vals)]
                    for v in (vals if deep else probe):
                        for hi in (False, True):
                            for want_mem in ([False, True] if rm_idx and deep else [False]):
                                ops = self.instantiate(form, mode, want_mem)
                                if not ops:
                                    continue
                                ops[i] = ("I", v)
                                for j in free64:
                                    if ops[j][0] == "R":
                                        ops[j] = ("R", "gp64", side.choice([8, 9, 10, 11, 12, 13, 14, 15] if hi else [0, 1, 2, 3, 5, 6, 7]))
                                out.append(("optsize", ops, 0, None, EO_OPTSIZE))
                    ops = self.instantiate(form, mode, False)
                    if ops:
                        ops[i] = ("I", side.choice(probe))
                        out.append(("optsize-long", ops, OPT_LONG, None, EO_OPTSIZE))
            else:
                out.append(("optsize-noimm", list(regonly), 0, None, EO_OPTSIZE))
        # (5) address size x index type: every explicit memory operand under the other address size, with and without base,
        #     with a scalar or a vector index; mixed sizes must be refused
        expl = [i for i in mem_idx if not opers[i]["mem"].startswith("moff") and
                not (opers[i].get("memSegment") in ("es", "ds") and ((form["opcode"]["mod"] == "" and form["encoding"] in ("OP", "NONE", "RM", "MR")) or
                                                                     form["name"].startswith(("maskmov", "vmaskmov"))))]
        if expl:
            vsib = any(opers[i].get("vsibReg") for i in expl)
            cells = self._asz_cells(mode, vsib)
            if not deep and not vsib:
                cells = [side.choice(cells)]
            for cell in cells:
                for rep in range(2 if deep else 1):
                    ops = self.instantiate(form, mode, True, "b")
                    if not ops:
                        continue
                    for i in expl:
                        if ops[i][0] == "M":
                            ops[i] = ("M", self._asz_mem(ops[i][1], opers[i], mode, cell))
                    ex = ("k", side.range(1, 7)) if form.get("kmask") and (vsib or side.chance(1, 2)) else None
                    out.append(("mem-asz-" + cell[0], ops, 0, ex, 0))
            # a broadcast on an operand that has none must be refused (no encoding can express it)
            if not form.get("broadcast") and (deep or side.chance(1, 2)):
                ops = self.instantiate(form, mode, True, "b")
                if ops:
                    for i in expl:
                        if ops[i][0] == "M" and not opers[i].get("vsibReg"):
                            ops[i] = ("M", dict(ops[i][1], bcst=side.range(1, 4), size=side.choice([0, 4, 8])))
                            out.append(("bcst-illegal", ops, 0, None, 0))
                            break
        # (6) disp8*N boundaries under every addressing style (the budgeted ones only use [base+disp])
        if mem_idx and form["prefix"] == "EVEX":
            vsib = any(o.get("vsibReg") for o in opers)
            styles = ["bd8"] if vsib else ["bis", "bsp", "bbp", "seg", "a32" if mode == 64 else "a16"]
            if vsib:
                styles += ["a32"] if mode == 64 else []
            picks = [(st, n, k) for st in styles for n in (1, 2, 4, 8, 16, 32, 64) for k in (127, 128, -128, -129)]
            if deep:
                side.shuffle(picks)
                picks = picks[:len(picks) // 2]
            else:
                picks = [side.choice(picks) for _ in range(3 if vsib else 2)]
            for st, n, k in picks:
                ops = self.instantiate(form, mode, True, st)
                if not ops:
                    continue
                for i, op in enumerate(ops):
                    if op[0] == "M":
                        m = dict(op[1])
                        m["disp"] = n * k
                        if st == "a16" and not -0x8000 <= m["disp"] <= 0x7FFF:
                            m["disp"] = k
                        ops[i] = ("M", m)
                ex = ("k", side.range(1, 7)) if form.get("kmask") and (vsib or side.chance(1, 3)) else None
                out.append(("mem-disp8xN-" + st, ops, 0, ex, 0))
            # broadcast operands: N is the element size
            if form.get("broadcast"):
                for i, o in enumerate(opers):
                    if (o.get("bcstSize") or -1) > 0 and o["mem"]:
                        n = o["memSize"] // o["bcstSize"]
                        code = {2: 1, 4: 2, 8: 3, 16: 4, 32: 5, 64: 6}.get(n)
                        if code is None:
                            continue
                        for st in (styles if deep else [side.choice(styles)]):
                            ops = self.instantiate(form, mode, True, st)
                            if not ops or ops[i][0] != "M":
                                continue
                            m = dict(ops[i][1])
                            m["bcst"] = code
                            m["size"] = o["bcstSize"] // 8
                            m["disp"] = side.choice([127, 128, -128, -129]) * side.choice([o["bcstSize"] // 8, o["memSize"] // 8])
                            if st == "a16" and not -0x8000 <= m["disp"] <= 0x7FFF:
                                m["disp"] = 127 * (o["bcstSize"] // 8)
                            ops[i] = ("M", m)
                            out.append(("bcst-disp8xN-" + st, ops, 0, None, 0))
        # (7) absolute operands x address type x CodeHolder base address (its own side stream: earlier variants keep theirs)
        self.rng = type(side)(side.s ^ 0xAB5E11ADD2E55ED1)
        self._absrel_variants(form, mode, self.rng, out)
        self.rng = side
        return out


def modes_of(form):
    a = form["arch"]
    return [32, 64] if a == "ANY" else [64] if a == "X64" else [32]


# -- case -> driver line ------------------------------------------------------
def op_token(op):
    if op[0] == "R":
        return "R:%s:%d" % (op[1], op[2])
    if op[0] == "I":
        return "I:%d" % op[1]
    if op[0] == "L":
        return "L:%d" % op[1]
    m = op[1]
    b = m["base"] or ("none", 0)
    i = m["index"] or ("none", 0)
    return "M:%d:%s:%d:%s:%d:%d:%d:%d:%d:%s" % (m["size"], b[0], b[1], i[0], i[1], m["shift"], m["disp"], m["seg"], m["bcst"], m["addr"])


def case_line(c):
    ex = "-" if not c["extra"] else "%s:%d" % c["extra"]
    return "%d %s %s %x %s %d %s" % (c["id"], c["arch"], c["name"], c["opts"], ex, len(c["ops"]), " ".join(op_token(o) for o in c["ops"])) + \
        (" eo=%x" % c["eopts"] if c.get("eopts") else "") + \
        (" base=%s pad=%d" % ("none" if c["cbase"] is None else "%x" % c["cbase"], c.get("pad", 0)) if "cbase" in c else "")
