"""ABI probes for C06: what do gcc 12 and clang 14 do with a given C signature?

For every (oracle target, signature) we generate a small C function

    RT CC f<N>(T0 a0, T1 a1, ...) { s<N>_0 = a0; s<N>_1 = a1; ...; return rv<N>; }

(callee side), or for variadic signatures a caller

    void c<N>(void) { sr<N> = g<N>(v<N>_0, v<N>_1, ...); }

compile batches of them with `-S`, and run a tiny data-flow simulator over the assembly text that tells
where each `a_k` comes from at function entry (register, `[sp+N]` relative to the caller's argument area,
directly or through a pointer), where the return value is left, and the `ret N` operand (callee pops).
Nothing here knows anything about AsmJit's answer; vlib/props/c06.py does the comparison.

Results are cached per (compiler command line, function source) under /verif/.cache/c06-probes.
"""
import hashlib
import os
import pickle
import re
import subprocess
import tempfile
from concurrent.futures import ThreadPoolExecutor

from vlib import common

PARSER_VERSION = "13"
CACHE_DIR = os.path.join(common.VERIF, ".cache", "c06-probes")

# ---------------------------------------------------------------------------------------------
# Type alphabet: name -> (C type per compiler family, size, class)
# ---------------------------------------------------------------------------------------------

SCALARS = {
    "i8": "signed char", "u8": "unsigned char", "i16": "short", "u16": "unsigned short",
    "i32": "int", "u32": "unsigned int", "i64": "long long", "u64": "unsigned long long",
    "f32": "float", "f64": "double",
    # AVX-512 mask types are plain integer typedefs in C (__mmask8/16/32/64)
    "k8": "unsigned char", "k16": "unsigned short", "k32": "unsigned int", "k64": "unsigned long long",
}
VEC_ELEM = {"i8": "signed char", "u8": "unsigned char", "i16": "short", "u16": "unsigned short", "i32": "int",
            "u32": "unsigned int", "i64": "long long", "u64": "unsigned long long", "f32": "float", "f64": "double"}
ELEM_SIZE = {"i8": 1, "u8": 1, "i16": 2, "u16": 2, "i32": 4, "u32": 4, "i64": 8, "u64": 8, "f32": 4, "f64": 8}


def type_size(t):
    if t in SCALARS:
        return {"i8": 1, "u8": 1, "i16": 2, "u16": 2, "i32": 4, "u32": 4, "i64": 8, "u64": 8, "f32": 4, "f64": 8,
                "k8": 1, "k16": 2, "k32": 4, "k64": 8}[t]
    if t == "mmx64":
        return 8
    if t == "mmx32":
        return 4
    m = re.match(r"([iuf]\d+)x(\d+)$", t)
    return ELEM_SIZE[m.group(1)] * int(m.group(2))


def type_class(t):
    """coarse class used in violation keys"""
    if t in ("i8", "u8", "i16", "u16", "i32", "u32", "i64", "u64", "f32", "f64"):
        return t[0].replace("u", "i") + t[1:] if t[0] in "iu" else t
    if t.startswith("k"):
        return "mask"
    if t in ("mmx64", "mmx32"):
        return "mmx"
    return "v%d" % (type_size(t) * 8)


def c_typedefs(compiler):
    out = []
    for e, ce in VEC_ELEM.items():
        for total in (4, 8, 16, 32, 64):
            n = total // ELEM_SIZE[e]
            if n >= 1 and n * ELEM_SIZE[e] == total:
                out.append("typedef %s T_%sx%d __attribute__((vector_size(%d)));" % (ce, e, n, total))
    # the compilers' own definition of __m64
    if compiler == "gcc":
        out.append("typedef int T_mmx64 __attribute__((vector_size(8), may_alias));")
    else:
        out.append("typedef long long T_mmx64 __attribute__((vector_size(8), aligned(8)));")
    return "\n".join(out) + "\n"


def c_type(t):
    return SCALARS.get(t) or ("T_" + t)


# ---------------------------------------------------------------------------------------------
# Oracle targets
# ---------------------------------------------------------------------------------------------

COMMON_FLAGS = ["-O1", "-fno-pic", "-fno-pie", "-fomit-frame-pointer", "-fno-asynchronous-unwind-tables",
                "-fno-stack-protector", "-fno-optimize-sibling-calls", "-w", "-S"]
X86_FLAGS = ["-mavx512f", "-mavx512bw", "-mmmx"]
GCC_X86 = ["gcc", "-masm=intel", "-fcf-protection=none"] + X86_FLAGS
CLANG_X86 = ["clang", "-mllvm", "--x86-asm-syntax=intel"] + X86_FLAGS


class Oracle:
    def __init__(self, name, compiler, argv, arch, attr):
        self.name, self.compiler, self.argv, self.arch, self.attr = name, compiler, argv, arch, attr
        self.bits = 32 if arch == "x86" else 64


def oracles_for(env, conv):
    """-> list of Oracle for AsmJit's (environment, calling convention), [] if there is no platform ABI."""
    O = Oracle
    if env in ("x64-linux", "x64-win"):
        win = env == "x64-win"
        if conv == "vectorcall":
            return [O("clang-win64-vectorcall", "clang", CLANG_X86 + ["--target=x86_64-pc-windows-msvc"], "x64", "__vectorcall")]
        if conv == "win64" or (win and conv in ("cdecl", "stdcall", "fastcall", "thiscall", "regparm1", "regparm2", "regparm3")):
            return [O("gcc-ms_abi", "gcc", GCC_X86, "x64", "__attribute__((ms_abi))"),
                    O("clang-win64", "clang", CLANG_X86 + ["--target=x86_64-pc-windows-msvc"], "x64", "")]
        if conv == "sysv64" or (not win and conv in ("cdecl", "stdcall", "fastcall", "thiscall", "regparm1", "regparm2", "regparm3")):
            return [O("gcc-sysv64", "gcc", GCC_X86, "x64", "__attribute__((sysv_abi))"),
                    O("clang-sysv64", "clang", CLANG_X86, "x64", "__attribute__((sysv_abi))")]
        return []
    if env in ("x86-linux", "x86-win"):
        win = env == "x86-win"
        gattr = {"cdecl": "__attribute__((cdecl))", "stdcall": "__attribute__((stdcall))", "fastcall": "__attribute__((fastcall))",
                 "thiscall": "__attribute__((thiscall))", "regparm1": "__attribute__((regparm(1)))",
                 "regparm2": "__attribute__((regparm(2)))", "regparm3": "__attribute__((regparm(3)))"}
        if conv == "thiscall" and not win:
            conv = "cdecl"       # documented: replaced by cdecl where the platform has no __thiscall
        if win:
            wattr = dict(gattr)
            wattr["vectorcall"] = "__vectorcall"
            if conv not in wattr:
                return []
            res = [O("clang-i386-win-" + conv, "clang", CLANG_X86 + ["--target=i386-pc-windows-msvc"], "x86", wattr[conv])]
            if conv in gattr:
                res.insert(0, O("gcc-m32-" + conv, "gcc", GCC_X86 + ["-m32"], "x86", gattr[conv]))
            return res
        if conv not in gattr:
            return []
        return [O("gcc-m32-" + conv, "gcc", GCC_X86 + ["-m32"], "x86", gattr[conv]),
                O("clang-m32-" + conv, "clang", CLANG_X86 + ["-m32"], "x86", gattr[conv])]
    if env == "a64-linux":
        if conv in ("lightcall2", "lightcall3", "lightcall4"):
            return []
        return [O("clang-aarch64-linux", "clang", ["clang", "--target=aarch64-linux-gnu"], "a64", "")]
    if env == "a64-apple":
        if conv in ("lightcall2", "lightcall3", "lightcall4"):
            return []
        return [O("clang-arm64-apple", "clang", ["clang", "--target=arm64-apple-darwin"], "a64", "")]
    return []


# ---------------------------------------------------------------------------------------------
# Probe source
# ---------------------------------------------------------------------------------------------

def probe_source(orc, sig, n):
    """sig = (ret, [arg types], va_index or None). Function number n (unique in its file)."""
    ret, args, va = sig
    rt = "void" if ret == "void" else c_type(ret)
    s = []
    if va is None:
        for k, t in enumerate(args):
            s.append("extern %s s%d_%d;" % (c_type(t), n, k))
        if ret != "void":
            s.append("extern %s rv%d;" % (rt, n))
        params = ", ".join("%s a%d" % (c_type(t), k) for k, t in enumerate(args)) or "void"
        body = "".join("s%d_%d = a%d; " % (n, k, k) for k in range(len(args)))
        if ret != "void":
            body += "return rv%d;" % n
        s.append("%s %s f%d(%s) { %s }" % (rt, orc.attr, n, params, body))
    else:
        for k, t in enumerate(args):
            s.append("extern %s v%d_%d;" % (c_type(t), n, k))
        named = ", ".join(c_type(t) for t in args[:va])
        s.append("%s %s g%d(%s%s...);" % (rt, orc.attr, n, named, ", " if named else ""))
        call = "g%d(%s)" % (n, ", ".join("v%d_%d" % (n, k) for k in range(len(args))))
        if ret != "void":
            s.append("extern %s sr%d;" % (rt, n))
            s.append("void c%d(void) { sr%d = %s; }" % (n, n, call))
        else:
            s.append("void c%d(void) { %s; }" % (n, call))
    return "\n".join(s)


# ---------------------------------------------------------------------------------------------
# Assembly data-flow simulators
# ---------------------------------------------------------------------------------------------

class Unparsed(Exception):
    pass


GP64 = ["rax", "rcx", "rdx", "rbx", "rsp", "rbp", "rsi", "rdi"] + ["r%d" % i for i in range(8, 16)]
GP32 = ["eax", "ecx", "edx", "ebx", "esp", "ebp", "esi", "edi"] + ["r%dd" % i for i in range(8, 16)]
GP16 = ["ax", "cx", "dx", "bx", "sp", "bp", "si", "di"] + ["r%dw" % i for i in range(8, 16)]
GP8 = ["al", "cl", "dl", "bl", "spl", "bpl", "sil", "dil"] + ["r%db" % i for i in range(8, 16)]
X86REG = {}
for i in range(16):
    X86REG[GP64[i]] = ("gp", i, 8)
    X86REG[GP32[i]] = ("gp", i, 4)
    X86REG[GP16[i]] = ("gp", i, 2)
    X86REG[GP8[i]] = ("gp", i, 1)
for i in range(32):
    X86REG["xmm%d" % i] = ("vec", i, 16)
    X86REG["ymm%d" % i] = ("vec", i, 32)
    X86REG["zmm%d" % i] = ("vec", i, 64)
for i, n in enumerate(["ah", "ch", "dh", "bh"]):
    X86REG[n] = ("gph", i, 1)
for i in range(8):
    X86REG["mm%d" % i] = ("mm", i, 8)
    X86REG["k%d" % i] = ("k", i, 8)

SIZE_WORDS = {"byte": 1, "word": 2, "dword": 4, "qword": 8, "xmmword": 16, "ymmword": 32, "zmmword": 64, "tbyte": 10,
              "mmword": 8, "oword": 16}

X86_MOVES = {"mov", "movzx", "movsx", "movsxd", "movd", "movq", "movss", "movsd", "movaps", "movups", "movapd", "movupd",
             "movdqa", "movdqu", "movlps", "movlpd", "movabs", "kmovb", "kmovw", "kmovd", "kmovq", "movdq2q", "movq2dq",
             "movzbl", "cvtss2sd_never"}
X86_IGNORE = {"vzeroupper", "nop", "endbr64", "endbr32", "cld", "emms", "vzeroall"}


def split_ops(s):
    out, depth, cur = [], 0, ""
    for ch in s:
        if ch in "[(":
            depth += 1
        elif ch in "])":
            depth -= 1
        if ch == "," and depth == 0:
            out.append(cur.strip())
            cur = ""
        else:
            cur += ch
    if cur.strip():
        out.append(cur.strip())
    return out


def symname(tok):
    """strip platform decoration: _s1_2, "s1_2", s1_2@GOTOFF ... -> s1_2 (or None)"""
    t = tok.strip().strip('"')
    m = re.match(r"^_?((?:s|v|rv|sr)\d+(?:_\d+)?)$", t)
    return m.group(1) if m else None


class X86Sim:
    def __init__(self, bits):
        self.bits = bits
        self.W = bits // 8
        self.spname = "rsp" if bits == 64 else "esp"
        self.reg = {}            # (grp,id) -> origin
        self.sp = 0              # current sp relative to entry sp, None after realignment
        self.mem = {}            # entry-relative offset -> (origin, width)
        self.fp = []             # x87 stack of origins
        self.sinks = {}          # sym -> {byteoff: (origin, width)}
        self.indstores = []      # (ptr_origin, disp, origin, width)
        self.calls = []          # snapshots
        self.ret_pop = None
        self.ret_regs = None
        self.saved = set()       # registers whose entry value was stored to the frame (push / mov [sp+x])
        self.redzone_min = 0     # most negative sp-relative store offset seen without frame allocation

    def origin(self, r):
        g, i, w = r
        if g == "gp" and i == 4:
            return ("spaddr", self.sp) if self.sp is not None else None
        return self.reg.get((g, i), ("reg", g, i))

    def setreg(self, r, org):
        self.reg[(r[0], r[1])] = org
        if r[0] == "gp" and r[1] < 4 and r[2] >= 2:
            self.reg[("gph", r[1])] = None

    def parse_op(self, s):
        s = s.strip()
        low = s
        if low in X86REG:
            return ("r", X86REG[low])
        if low in ("st", "st(0)"):
            return ("st", 0)
        m = re.match(r"^st\((\d)\)$", low)
        if m:
            return ("st", int(m.group(1)))
        if re.match(r"^-?(0x[0-9a-f]+|\d+)$", low):
            return ("i", int(low, 0))
        # memory operand
        size = None
        m = re.match(r"^(\w+) ptr (.*)$", low)
        if m and m.group(1) in SIZE_WORDS:
            size = SIZE_WORDS[m.group(1)]
            low = m.group(2).strip()
        if low.startswith("offset "):
            sym = symname(low.split()[-1])
            if sym:
                return ("symaddr", sym)
            raise Unparsed("offset operand " + s)
        seg = re.match(r"^([cdefgs]s):(.*)$", low)
        if seg:
            low = seg.group(2)
        # gcc: sym[rip], sym+4[rip], 4[esp], [rsp+8], sym ; clang: [rip + sym], [esp + 4], [sym+4]
        expr = low.replace("[", "+").replace("]", "")
        toks = [t for t in re.split(r"(?=[+-])", expr.replace(" ", "")) if t not in ("", "+")]
        base, disp, sym, index = None, 0, None, False
        for t in toks:
            sign = -1 if t.startswith("-") else 1
            t2 = t.lstrip("+-")
            if not t2:
                continue
            if "*" in t2:
                index = True
                continue
            if t2 in X86REG or t2 in ("rip", "eip"):
                if t2 in ("rip", "eip"):
                    continue
                if base is not None:
                    index = True
                base = X86REG[t2]
                continue
            if re.match(r"^(0x[0-9a-f]+|\d+)$", t2):
                disp += sign * int(t2, 0)
                continue
            t3 = t2.split("@")[0]
            sn = symname(t3)
            if sn is None:
                raise Unparsed("symbol " + t2 + " in " + s)
            sym = sn
        if "[" not in s and sym is None and base is None:
            raise Unparsed("operand " + s)
        return ("m", base, disp, sym, index, size)

    def resolve_mem(self, m):
        _, base, disp, sym, index, size = m
        if index:
            return None
        if sym is not None and base is None:
            return ("symmem", sym, disp)
        if sym is not None and base is not None:
            # 32-bit PIC style or sym[reg] - not expected with -fno-pic
            return None
        if base is None:
            return None
        if base[0] == "gp" and base[1] == 4:
            if self.sp is None:
                return None
            return ("stkmem", self.sp + disp)
        org = self.origin(base)
        if org is None:
            return None
        if org[0] == "spaddr":
            return ("stkmem", org[1] + disp)
        if org[0] == "symaddr":
            return ("symmem", org[1], org[2] + disp)
        return ("indmem", org, disp)

    def load(self, m, width):
        a = self.resolve_mem(m)
        if a is None:
            return None
        if a[0] == "symmem":
            return ("sym", a[1], a[2])
        if a[0] == "stkmem":
            off = a[1]
            if off in self.mem:
                return self.mem[off][0]
            if off >= self.W:
                return ("stk", off - self.W)
            return None
        if a[0] == "indmem":
            return ("ind", a[1], a[2])
        return None

    def store(self, m, org, width, srcreg=None):
        a = self.resolve_mem(m)
        if a is None:
            return
        if a[0] == "symmem":
            self.sinks.setdefault(a[1], {})[a[2]] = (org, width)
        elif a[0] == "stkmem":
            self.mem[a[1]] = (org, width)
            if org is not None and org[0] == "reg" and srcreg is not None and (org[1], org[2]) == (srcreg[0], srcreg[1]):
                self.saved.add((org[1], org[2]))
            if self.sp is not None and a[1] < self.sp:
                self.redzone_min = min(self.redzone_min, a[1] - self.sp)
        elif a[0] == "indmem":
            self.indstores.append((a[1], a[2], org, width))

    def step(self, mn, ops):
        W = self.W
        if mn in X86_IGNORE:
            return
        if mn.startswith("v") and mn[1:] in X86_MOVES | {"movdqa32", "movdqa64", "movdqu32", "movdqu64", "movdqu8", "movdqu16"}:
            mn = mn[1:]
            if mn.startswith("movdq") and mn[-1].isdigit():
                mn = mn.rstrip("0123456789")
        if mn == "push":
            o = self.parse_op(ops[0])
            if self.sp is None:
                raise Unparsed("push after realign")
            pushed_org = self.origin(o[1]) if o[0] == "r" else None      # `push rsp` stores the value before the decrement
            self.sp -= W
            if o[0] == "r":
                org = pushed_org
                self.mem[self.sp] = (org, W)
                if org and org[0] == "reg" and (org[1], org[2]) == (o[1][0], o[1][1]):
                    self.saved.add((org[1], org[2]))
            elif o[0] == "m":
                self.mem[self.sp] = (self.load(o, W), W)
            else:
                self.mem[self.sp] = (None, W)
            return
        if mn == "pop":
            o = self.parse_op(ops[0])
            if self.sp is None:
                raise Unparsed("pop after realign")
            v = self.mem.get(self.sp, (None, W))[0]
            self.sp += W
            if o[0] == "r":
                self.setreg(o[1], v)
            return
        if mn in ("sub", "add") and ops and ops[0] == self.spname:
            o = self.parse_op(ops[1])
            if o[0] != "i":
                raise Unparsed("sp arithmetic")
            if self.sp is not None:
                self.sp += o[1] if mn == "add" else -o[1]
            return
        if mn == "and" and ops and ops[0] == self.spname:
            # realignment: the real distance is unknown but irrelevant as long as no access crosses it; a fictitious 1 MiB gap
            # keeps everything recorded so far (entry-relative) and everything from now on (relative to the new sp) apart
            if self.sp is not None:
                self.sp -= 1 << 20
            return
        if mn == "lea":
            d = self.parse_op(ops[0])
            s = self.parse_op(ops[1])
            a = self.resolve_mem(s) if s[0] == "m" else None
            if d[0] == "r" and d[1][0] == "gp" and d[1][1] == 4:
                if a and a[0] == "stkmem":
                    self.sp = a[1]
                    return
                raise Unparsed("lea to sp")
            if a and a[0] == "stkmem":
                self.setreg(d[1], ("spaddr", a[1]))
            elif a and a[0] == "symmem":
                self.setreg(d[1], ("symaddr", a[1], a[2]))
            else:
                self.setreg(d[1], None)
            return
        if mn == "leave":
            org = self.origin(("gp", 5, self.W))
            if not org or org[0] != "spaddr":
                raise Unparsed("leave")
            self.sp = org[1]
            v = self.mem.get(self.sp, (None, W))[0]
            self.sp += W
            self.setreg(("gp", 5, W), v)
            return
        if mn in ("ret", "retn"):
            n = 0
            if ops:
                o = self.parse_op(ops[0])
                n = o[1]
            self.ret_pop = n
            self.ret_regs = dict(self.reg)
            self.ret_fp = list(self.fp)
            return "ret"
        if mn == "call":
            snap = {"reg": dict(self.reg), "mem": dict(self.mem), "sp": self.sp, "target": ops[0]}
            self.calls.append(snap)
            # after the call every register holds "its value after the call"
            self.reg = {}
            for (g, n) in [("gp", i) for i in range(16)] + [("vec", i) for i in range(32)] + [("mm", i) for i in range(8)]:
                self.reg[(g, n)] = ("ret", g, n)
            self.fp = [("ret", "st", 0)]
            return
        if mn in ("fld",):
            o = self.parse_op(ops[0])
            if o[0] == "m":
                self.fp.insert(0, self.load(o, o[5] or 4))
            else:
                self.fp.insert(0, None)
            return
        if mn in ("fstp", "fst"):
            o = self.parse_op(ops[0])
            v = self.fp[0] if self.fp else None
            if mn == "fstp" and self.fp:
                self.fp.pop(0)
            if o[0] == "m":
                self.store(o, v if v is None else ("x87", v), o[5] or 4)
            return
        if mn in ("movhpd", "movhps", "vmovhpd", "vmovhps") and len(ops) in (2, 3):
            d = self.parse_op(ops[0])
            m = self.parse_op(ops[-1])
            lo = self.parse_op(ops[1]) if len(ops) == 3 else d
            if d[0] == "r" and m[0] == "m" and lo[0] == "r":
                lo_org = self.origin(lo[1])
                hi_org = self.load(m, 8)
                ok = False
                if lo_org and hi_org and lo_org[0] == "stk" and hi_org[0] == "stk" and hi_org[1] == lo_org[1] + 8:
                    ok = True
                if lo_org and hi_org and lo_org[0] == "ind" and hi_org[0] == "ind" and hi_org[1] == lo_org[1] and hi_org[2] == lo_org[2] + 8:
                    ok = True
                if lo_org and hi_org and lo_org[0] == "sym" and hi_org[0] == "sym" and hi_org[1] == lo_org[1] and hi_org[2] == lo_org[2] + 8:
                    ok = True
                self.setreg(d[1], lo_org if ok else None)
                return
            if d[0] == "m":
                self.store(d, None, 8)
                return
            raise Unparsed("movh form")
        if mn in X86_MOVES:
            if len(ops) != 2:
                raise Unparsed("move with %d operands: %s" % (len(ops), mn))
            d = self.parse_op(ops[0])
            s = self.parse_op(ops[1])
            if d[0] == "r":
                if d[1][0] == "gp" and d[1][1] == 4:
                    org = self.origin(s[1]) if s[0] == "r" else None
                    if org and org[0] == "spaddr":
                        self.sp = org[1]
                        return
                    raise Unparsed("write to sp")
                if s[0] == "r":
                    if s[1][0] == "gp" and s[1][1] == 4:
                        self.setreg(d[1], ("spaddr", self.sp) if self.sp is not None else None)
                    else:
                        self.setreg(d[1], self.origin(s[1]))
                elif s[0] == "m":
                    w = s[5] or d[1][2]
                    self.setreg(d[1], self.load(s, w))
                elif s[0] == "symaddr":
                    self.setreg(d[1], ("symaddr", s[1], 0))
                else:
                    self.setreg(d[1], None)
                return
            if d[0] == "m":
                if s[0] == "r":
                    w = d[5] or s[1][2]
                    if mn in ("movss", "movd"):
                        w = 4
                    elif mn in ("movsd", "movq", "movlps", "movlpd"):
                        w = 8
                    w = min(w, s[1][2]) if s[1][0] != "vec" else w
                    self.store(d, self.origin(s[1]), w, s[1])
                else:
                    self.store(d, None, d[5] or 0)
                return
            raise Unparsed("move form " + mn + " " + ",".join(ops))
        if mn.startswith("j") or mn in ("loop",):
            raise Unparsed("branch " + mn)
        # any other instruction: destination (first operand) becomes unknown
        if ops:
            try:
                d = self.parse_op(ops[0])
            except Unparsed:
                return
            if d[0] == "r":
                if d[1][0] == "gp" and d[1][1] == 4:
                    raise Unparsed("sp modified by " + mn)
                self.setreg(d[1], None)
            elif d[0] == "m":
                self.store(d, None, d[5] or 0)
            if mn in ("xchg", "xadd", "cmpxchg") and len(ops) > 1:
                s = self.parse_op(ops[1])
                if s[0] == "r":
                    self.setreg(s[1], None)


A64_W = {"w": 4, "x": 8, "b": 1, "h": 2, "s": 4, "d": 8, "q": 16}


def a64_reg(tok):
    t = tok.strip()
    if t == "sp":
        return ("sp", 31, 8)
    if t in ("wzr", "xzr"):
        return ("zr", 31, 8)
    if t in ("fp", "x29"):
        return ("gp", 29, 8)
    if t in ("lr", "x30"):
        return ("gp", 30, 8)
    m = re.match(r"^([wxbhsdq])(\d+)$", t)
    if m:
        g = "gp" if m.group(1) in "wx" else "vec"
        return (g, int(m.group(2)), A64_W[m.group(1)])
    m = re.match(r"^v(\d+)\.(\d+)([bhsd])$", t)
    if m:
        return ("vec", int(m.group(1)), int(m.group(2)) * A64_W[m.group(3)])
    return None


class A64Sim:
    W = 0
    bits = 64

    def __init__(self):
        self.reg = {}
        self.sp = 0
        self.mem = {}
        self.sinks = {}
        self.indstores = []
        self.calls = []
        self.ret_pop = None
        self.ret_regs = None
        self.ret_fp = []
        self.saved = set()
        self.redzone_min = 0

    def origin(self, r):
        if r[0] == "zr":
            return None
        if r[0] == "sp":
            return ("spaddr", self.sp)
        return self.reg.get((r[0], r[1]), ("reg", r[0], r[1]))

    def setreg(self, r, org):
        if r[0] in ("zr",):
            return
        if r[0] == "sp":
            raise Unparsed("write to sp")
        self.reg[(r[0], r[1])] = org

    def parse_mem(self, s):
        """-> (base_reg, disp, sym, writeback:None|'pre'|'post', post_imm)"""
        s = s.strip()
        m = re.match(r"^\[([^\]]*)\](!)?(?:\s*,\s*#?(-?\w+))?$", s)
        if not m:
            raise Unparsed("a64 mem " + s)
        inner = [x.strip() for x in m.group(1).split(",")]
        base = a64_reg(inner[0])
        if base is None:
            raise Unparsed("a64 mem base " + s)
        disp, sym = 0, None
        for x in inner[1:]:
            x = x.lstrip("#")
            if re.match(r"^-?(0x[0-9a-f]+|\d+)$", x):
                disp += int(x, 0)
            else:
                mm = re.match(r"^(?::(?:got_)?lo12:)?_?([a-z]+\d+(?:_\d+)?)(@(?:GOT)?PAGEOFF)?$", x, re.I)
                if not mm:
                    raise Unparsed("a64 mem term " + x)
                sym = (mm.group(1), "got" in x.lower())
        wb = None
        post = 0
        if m.group(2):
            wb = "pre"
        elif m.group(3) is not None:
            wb = "post"
            post = int(m.group(3), 0)
        return base, disp, sym, wb, post

    def addr(self, base, disp, sym):
        """-> resolved address tuple or None"""
        if base[0] == "sp":
            return ("stkmem", self.sp + disp)
        org = self.origin(base)
        if org is None:
            return None
        if org[0] == "page":
            if sym and sym[0] == org[1]:
                if sym[1] or org[2]:
                    return ("gotslot", org[1])
                return ("symmem", org[1], disp)
            return None
        if org[0] == "symaddr":
            return ("symmem", org[1], org[2] + disp)
        if org[0] == "spaddr":
            return ("stkmem", org[1] + disp)
        return ("indmem", org, disp)

    def do_load(self, dst, a, width):
        if a is None:
            self.setreg(dst, None)
        elif a[0] == "gotslot":
            self.setreg(dst, ("symaddr", a[1], 0))
        elif a[0] == "symmem":
            self.setreg(dst, ("sym", a[1], a[2]))
        elif a[0] == "stkmem":
            off = a[1]
            if off in self.mem:
                self.setreg(dst, self.mem[off][0])
            elif off >= 0:
                self.setreg(dst, ("stk", off))
            else:
                self.setreg(dst, None)
        else:
            self.setreg(dst, ("ind", a[1], a[2]))

    def do_store(self, src, a, width):
        org = self.origin(src) if src[0] != "zr" else None
        if a is None:
            return
        if a[0] == "symmem":
            self.sinks.setdefault(a[1], {})[a[2]] = (org, width)
        elif a[0] == "stkmem":
            self.mem[a[1]] = (org, width)
            if org is not None and org[0] == "reg" and (org[1], org[2]) == (src[0], src[1]):
                self.saved.add((org[1], org[2]))
            if a[1] < self.sp:
                self.redzone_min = min(self.redzone_min, a[1] - self.sp)
        elif a[0] == "indmem":
            self.indstores.append((a[1], a[2], org, width))

    def step(self, mn, ops):
        if mn in ("nop", "bti", "hint", "paciasp", "autiasp"):
            return
        if mn == "ret":
            self.ret_pop = 0
            self.ret_regs = dict(self.reg)
            return "ret"
        if mn in ("bl", "blr"):
            self.calls.append({"reg": dict(self.reg), "mem": dict(self.mem), "sp": self.sp, "target": ops[0]})
            self.reg = {}
            for g, n in [("gp", i) for i in range(31)] + [("vec", i) for i in range(32)]:
                self.reg[(g, n)] = ("ret", g, n)
            return
        if mn.startswith("b.") or mn in ("b", "cbz", "cbnz", "tbz", "tbnz", "br"):
            raise Unparsed("branch " + mn)
        if mn == "adrp":
            d = a64_reg(ops[0])
            mm = re.match(r"^_?([a-z]+\d+(?:_\d+)?)(@(?:GOT)?PAGE)?$", ops[1].strip(), re.I)
            m2 = re.match(r"^:got:_?([a-z]+\d+(?:_\d+)?)$", ops[1].strip(), re.I)
            if m2:
                self.setreg(d, ("page", m2.group(1), True))
            elif mm:
                self.setreg(d, ("page", mm.group(1), "GOTPAGE" in ops[1].upper()))
            else:
                self.setreg(d, None)
            return
        if mn in ("add", "sub") and len(ops) >= 3:
            d = a64_reg(ops[0])
            n = a64_reg(ops[1])
            o2 = ops[2].strip()
            imm = None
            if re.match(r"^#?-?(0x[0-9a-f]+|\d+)$", o2):
                imm = int(o2.lstrip("#"), 0)
                if len(ops) > 3:
                    sh = re.match(r"lsl #(\d+)", ops[3].strip())
                    if sh:
                        imm <<= int(sh.group(1))
                if mn == "sub":
                    imm = -imm
            if d and d[0] == "sp":
                if n and n[0] == "sp" and imm is not None:
                    self.sp += imm
                    return
                raise Unparsed("sp arithmetic")
            if d is None:
                return
            if n and n[0] == "sp" and imm is not None:
                self.setreg(d, ("spaddr", self.sp + imm))
                return
            org = self.origin(n) if n else None
            if org and org[0] == "page" and not org[2]:
                mm = re.match(r"^(?::lo12:)?_?([a-z]+\d+(?:_\d+)?)(@PAGEOFF)?$", o2, re.I)
                if mm and mm.group(1) == org[1]:
                    self.setreg(d, ("symaddr", org[1], 0))
                    return
            if org and org[0] in ("symaddr",) and imm is not None:
                self.setreg(d, ("symaddr", org[1], org[2] + imm))
                return
            if org and org[0] == "spaddr" and imm is not None:
                self.setreg(d, ("spaddr", org[1] + imm))
                return
            self.setreg(d, None)
            return
        if mn in ("mov", "fmov") and len(ops) == 2:
            d = a64_reg(ops[0])
            s = a64_reg(ops[1])
            if d is None:
                raise Unparsed("mov dest " + ops[0])
            if d[0] == "sp":
                raise Unparsed("mov to sp")
            if s is None:
                self.setreg(d, None)
            else:
                self.setreg(d, self.origin(s))
            return
        ld = re.match(r"^(ldr|ldur)(b|h|sb|sh|sw)?$", mn)
        st = re.match(r"^(str|stur)(b|h)?$", mn)
        if ld or st:
            r = a64_reg(ops[0])
            if r is None:
                raise Unparsed("ld/st reg " + ops[0])
            base, disp, sym, wb, post = self.parse_mem(", ".join(ops[1:]))
            width = r[2]
            suf = (ld or st).group(2)
            if suf:
                width = {"b": 1, "h": 2, "sb": 1, "sh": 2, "sw": 4}[suf]
            if wb == "pre":
                if base[0] != "sp":
                    raise Unparsed("writeback on non-sp")
                self.sp += disp
                disp = 0
            a = self.addr(base, disp, sym)
            if ld:
                self.do_load(r, a, width)
            else:
                self.do_store(r, a, width)
            if wb == "post":
                if base[0] != "sp":
                    raise Unparsed("writeback on non-sp")
                self.sp += post
            return
        if mn in ("ldp", "stp", "ldnp", "stnp"):
            r1, r2 = a64_reg(ops[0]), a64_reg(ops[1])
            base, disp, sym, wb, post = self.parse_mem(", ".join(ops[2:]))
            if wb == "pre":
                if base[0] != "sp":
                    raise Unparsed("writeback on non-sp")
                self.sp += disp
                disp = 0
            for i, r in enumerate((r1, r2)):
                a = self.addr(base, disp + i * r[2], sym)
                if mn.startswith("ld"):
                    self.do_load(r, a, r[2])
                else:
                    self.do_store(r, a, r[2])
            if wb == "post":
                if base[0] != "sp":
                    raise Unparsed("writeback on non-sp")
                self.sp += post
            return
        # anything else: first operand unknown
        if ops:
            d = a64_reg(ops[0])
            if d is not None:
                if d[0] == "sp":
                    raise Unparsed("sp modified by " + mn)
                self.setreg(d, None)


# ---------------------------------------------------------------------------------------------
# Location summaries
# ---------------------------------------------------------------------------------------------

def loc_of(org):
    """origin tuple -> canonical location dict or None (unknown)"""
    if org is None:
        return None
    k = org[0]
    if k == "reg":
        return {"k": "reg", "g": org[1], "id": org[2]}
    if k == "stk":
        return {"k": "stack", "off": org[1]}
    if k == "ind":
        p = loc_of(org[1])
        if p is None or p["k"] == "ind":
            return None
        return {"k": "ind", "ptr": p, "disp": org[2]}
    if k == "x87":
        return loc_of(org[1])
    return None


def split_functions(text, arch):
    """-> {label: [(mnemonic, [operands])]}"""
    funcs, cur = {}, None
    for raw in text.splitlines():
        line = raw
        if arch == "a64":
            line = re.split(r"//|;", line)[0]
        else:
            line = line.split("#")[0]
        line = line.strip()
        if not line:
            continue
        m = re.match(r'^"?([_@?\w$.]+?)"?:$', line)
        if m:
            lab = m.group(1)
            mm = re.match(r"^[_@]*([fcpz]\d+)(?:@+\d+)?$", lab)
            if mm:
                cur = mm.group(1)
                funcs[cur] = []
            elif lab.startswith((".L", "L")) or lab.startswith("Lloh"):
                pass
            else:
                cur = None
            continue
        if line.startswith("."):
            continue
        if cur is None:
            continue
        parts = line.split(None, 1)
        mn = parts[0].lower()
        ops = split_ops(parts[1]) if len(parts) > 1 else []
        if arch != "a64":
            ops = [o.lower().replace("offset flat:", "offset ") for o in ops]
        funcs[cur].append((mn, ops))
    return funcs


def run_sim(insts, arch):
    sim = A64Sim() if arch == "a64" else X86Sim(32 if arch == "x86" else 64)
    done = False
    for mn, ops in insts:
        if done:
            break
        try:
            if sim.step(mn, ops) == "ret":
                done = True
        except Unparsed:
            if sim.calls:
                done = True      # call-site probe: what the epilogue does after the call is of no interest
                break
            raise
    if not done:
        raise Unparsed("no ret")
    return sim


def part_locs(parts, size):
    """parts: {byteoff: (origin,width)} -> list of (byteoff, width, loc) sorted, or raises Unparsed"""
    out = []
    for off in sorted(parts):
        org, w = parts[off]
        l = loc_of(org)
        if l is None:
            raise Unparsed("unknown origin for part %d" % off)
        out.append((off, w, l))
    if not out or out[0][0] != 0:
        raise Unparsed("no part at offset 0")
    return out


def analyse_callee(sim, n, sig, W):
    ret, args, va = sig
    res = {"args": [], "ret": None, "pop": sim.ret_pop}
    for k, t in enumerate(args):
        parts = sim.sinks.get("s%d_%d" % (n, k))
        if not parts:
            raise Unparsed("no store for arg %d" % k)
        res["args"].append(part_locs(parts, type_size(t)))
    if ret != "void":
        rl = []
        name = "rv%d" % n
        for (g, i), org in sim.ret_regs.items():
            if org and org[0] == "sym" and org[1] == name:
                rl.append((org[2], {"k": "reg", "g": g, "id": i}))
        fp = getattr(sim, "ret_fp", [])
        if fp and fp[0] and fp[0][0] == "sym" and fp[0][1] == name:
            rl.append((0, {"k": "reg", "g": "st", "id": 0}))
        for ptr, disp, org, w in sim.indstores:
            if org and org[0] == "sym" and org[1] == name:
                p = loc_of(ptr)
                if p:
                    rl.append((org[2] - 0, {"k": "sret", "ptr": p, "disp": disp}))
        if not rl:
            raise Unparsed("return value location not found")
        # a value may sit in several registers (e.g. sret pointer also returned); keep all, sorted
        rl.sort(key=lambda x: (x[0], x[1]["k"], x[1].get("g", ""), x[1].get("id", 0)))
        res["ret"] = rl
    return res


def al_at_call(insts, n):
    """value the caller loads into AL/EAX before `call g<n>` (SysV: number of vector registers used), None if not a constant"""
    val = None
    for mn, ops in insts:
        if mn == "call" and ops and re.search(r"g%d\b" % n, ops[0]):
            return val
        if not ops:
            continue
        d = ops[0].strip()
        if d in ("eax", "al", "rax", "ax"):
            if mn in ("mov", "movabs") and len(ops) == 2 and re.match(r"^(0x[0-9a-f]+|\d+)$", ops[1].strip()):
                val = int(ops[1].strip(), 0)
            elif mn == "xor" and len(ops) == 2 and ops[1].strip() == d:
                val = 0
            else:
                val = None
    return None


def analyse_caller(sim, n, sig, W):
    """variadic call site: where does the caller put value k at the call instruction?"""
    ret, args, va = sig
    snaps = [c for c in sim.calls if re.search(r"g%d\b" % n, c["target"])]
    if len(snaps) != 1:
        raise Unparsed("call site not found")
    c = snaps[0]
    if c["sp"] is None:
        raise Unparsed("sp unknown at call")
    sp = c["sp"]
    res = {"args": [], "ret": None, "pop": None, "caller": True}
    locs = {k: [] for k in range(len(args))}

    def val_k(org):
        if org and org[0] == "sym":
            m = re.match(r"^v%d_(\d+)$" % n, org[1])
            if m:
                return int(m.group(1)), org[2]
        return None

    pointed = set()
    for org in list(c["reg"].values()) + [m[0] for off, m in c["mem"].items() if off >= sp]:
        if org and org[0] == "spaddr":
            pointed.add(org[1])
    for (g, i), org in c["reg"].items():
        vk = val_k(org)
        if vk:
            locs[vk[0]].append((vk[1], {"k": "reg", "g": g, "id": i}))
        elif org and org[0] == "spaddr" and org[1] in c["mem"]:
            vk = val_k(c["mem"][org[1]][0])
            if vk and vk[1] == 0:
                locs[vk[0]].append((0, {"k": "ind", "ptr": {"k": "reg", "g": g, "id": i}, "disp": 0}))
    for off, (org, w) in c["mem"].items():
        if off < sp:
            continue
        vk = val_k(org)
        if vk:
            if off in pointed:
                continue        # copy made for passing by reference; its address is the argument
            locs[vk[0]].append((vk[1], {"k": "stack", "off": off - sp}))
        elif org and org[0] == "spaddr" and org[1] in c["mem"]:
            vk = val_k(c["mem"][org[1]][0])
            if vk and vk[1] == 0:
                locs[vk[0]].append((0, {"k": "ind", "ptr": {"k": "stack", "off": off - sp}, "disp": 0}))
    for k in range(len(args)):
        if not any(o == 0 for o, _ in locs[k]):
            raise Unparsed("value %d not found at call site" % k)
        res["args"].append(sorted(locs[k], key=lambda x: (x[0], str(x[1]))))
    if ret != "void":
        parts = sim.sinks.get("sr%d" % n)
        if parts:
            rl = []
            for off in sorted(parts):
                org, w = parts[off]
                if org and org[0] == "ret":
                    rl.append((off, {"k": "reg", "g": org[1], "id": org[2]}))
                elif org and org[0] == "x87" and org[1] and org[1][0] == "ret":
                    rl.append((off, {"k": "reg", "g": "st", "id": 0}))
            if rl:
                res["ret"] = rl
    return res


# ---------------------------------------------------------------------------------------------
# Batch compile + cache
# ---------------------------------------------------------------------------------------------

class ProbeCache:
    def __init__(self, name):
        os.makedirs(CACHE_DIR, exist_ok=True)
        self.path = os.path.join(CACHE_DIR, name + ".pkl")
        try:
            with open(self.path, "rb") as fh:
                self.d = pickle.load(fh)
        except Exception:
            self.d = {}
        self.dirty = False

    def save(self):
        if not self.dirty:
            return
        # merge with what another process may have written meanwhile
        try:
            with open(self.path, "rb") as fh:
                other = pickle.load(fh)
            other.update(self.d)
            self.d = other
        except Exception:
            pass
        fd, tmp = tempfile.mkstemp(dir=CACHE_DIR)
        with os.fdopen(fd, "wb") as fh:
            pickle.dump(self.d, fh, protocol=4)
        os.replace(tmp, self.path)
        self.dirty = False


def compile_text(orc, text, extra=()):
    with tempfile.TemporaryDirectory(dir=CACHE_DIR) as td:
        src = os.path.join(td, "p.c")
        with open(src, "w") as fh:
            fh.write(text)
        flags = [f for f in COMMON_FLAGS]
        if orc.arch == "a64":
            flags = [f for f in flags if f not in ("-fno-pie",)]
        cmd = orc.argv + flags + list(extra) + [src, "-o", os.path.join(td, "p.s")]
        p = subprocess.run(cmd, stdout=subprocess.PIPE, stderr=subprocess.PIPE, text=True)
        if p.returncode != 0:
            return None, p.stderr
        with open(os.path.join(td, "p.s")) as fh:
            return fh.read(), p.stderr


class Stats:
    def __init__(self):
        self.compiled_functions = 0
        self.compiler_invocations = 0
        self.cache_hits = 0
        self.compile_errors = 0


def probe_many(orc, sigs, stats, batch=400, workers=16):
    """sigs: list of (ret, args tuple, va). -> list of result dict or {"unparsed": reason}"""
    os.makedirs(CACHE_DIR, exist_ok=True)
    cache = ProbeCache(orc.name)
    cmdkey = " ".join(orc.argv + COMMON_FLAGS) + "|" + orc.attr + "|" + PARSER_VERSION
    keys, results, todo = [], [None] * len(sigs), []
    for i, sig in enumerate(sigs):
        canon = probe_source(orc, sig, 0)
        key = hashlib.sha1((cmdkey + "\n" + canon).encode()).hexdigest()
        keys.append(key)
        if key in cache.d:
            results[i] = cache.d[key]
            stats.cache_hits += 1
        else:
            todo.append(i)
    # de-duplicate identical sources inside this request
    first = {}
    uniq = []
    for i in todo:
        if keys[i] in first:
            continue
        first[keys[i]] = i
        uniq.append(i)
    batches = [uniq[j:j + batch] for j in range(0, len(uniq), batch)]

    def do_batch(idx):
        text = c_typedefs(orc.compiler) + "\n".join(probe_source(orc, sigs[i], n) for n, i in enumerate(idx))
        asm, err = compile_text(orc, text)
        out = {}
        if asm is None:
            if len(idx) == 1:
                out[idx[0]] = {"unparsed": "compile error: " + err.strip().splitlines()[0][:200] if err.strip() else "compile error"}
                return out, 1, 1
            # bisect: one bad type must not take the batch down
            mid = len(idx) // 2
            a, na, ea = do_batch(idx[:mid])
            b, nb, eb = do_batch(idx[mid:])
            a.update(b)
            return a, na + nb + 1, ea + eb
        funcs = split_functions(asm, orc.arch)
        W = 0 if orc.arch == "a64" else (4 if orc.arch == "x86" else 8)
        for n, i in enumerate(idx):
            sig = sigs[i]
            lab = ("c%d" if sig[2] is not None else "f%d") % n
            try:
                if lab not in funcs:
                    raise Unparsed("function label not found")
                sim = run_sim(funcs[lab], orc.arch)
                out[i] = (analyse_caller if sig[2] is not None else analyse_callee)(sim, n, sig, W)
            except Unparsed as e:
                out[i] = {"unparsed": str(e)[:200]}
            except (ValueError, KeyError, IndexError, AttributeError, TypeError) as e:
                out[i] = {"unparsed": "parser: %s: %s" % (type(e).__name__, str(e)[:160])}
            if sig[2] is not None and orc.arch == "x64" and lab in funcs:
                out[i]["al"] = al_at_call(funcs[lab], n)
        return out, 1, 0

    with ThreadPoolExecutor(workers) as ex:
        for out, ninv, nerr in ex.map(do_batch, batches):
            stats.compiler_invocations += ninv
            stats.compile_errors += nerr
            for i, r in out.items():
                cache.d[keys[i]] = r
                cache.dirty = True
                stats.compiled_functions += 1
    for i in todo:
        results[i] = cache.d[keys[i]]
    cache.save()
    return results


# ---------------------------------------------------------------------------------------------
# Preserved registers / red zone probes
# ---------------------------------------------------------------------------------------------

def clobber_probe(orc):
    """-> {"gp": set(ids), "vec": set(ids)} the compiler saves when everything is clobbered, or None"""
    if orc.arch == "a64":
        regs = ["x%d" % i for i in range(31) if i != 18] + ["v%d" % i for i in range(32)]
        if "apple" not in orc.name:
            regs.append("x18")
    elif orc.arch == "x64":
        regs = [r for r in GP64 if r not in ("rsp",)] + ["xmm%d" % i for i in range(32)]
    else:
        regs = [r for r in GP32[:8] if r not in ("esp",)] + ["xmm%d" % i for i in range(8)]
    text = "%s void p0(void) { __asm__ volatile(\"\" ::: %s); }\n" % (orc.attr, ", ".join('"%s"' % r for r in regs))
    asm, err = compile_text(orc, text)
    if asm is None:
        return None
    funcs = split_functions(asm, orc.arch)
    if "p0" not in funcs:
        return None
    try:
        sim = run_sim(funcs["p0"], orc.arch)
    except Unparsed:
        return None
    res = {"gp": set(), "vec": set()}
    for g, i in sim.saved:
        if g in res:
            res[g].add(i)
    return res


def redzone_probe(orc):
    """-> largest n in a small ladder for which a leaf function keeps n bytes of locals below sp without adjusting sp (0 = no red zone)"""
    best = 0
    for n in (8, 64, 120, 128, 136, 256):
        text = ("%s int z0(int a) { volatile char t[%d]; t[0] = (char)a; t[%d] = (char)a; return t[0] + t[%d]; }\n" % (orc.attr, n, n - 1, n - 1))
        asm, err = compile_text(orc, text)
        if asm is None:
            return None
        funcs = split_functions(asm, orc.arch)
        if "z0" not in funcs:
            return None
        adjusts = False
        for mn, ops in funcs["z0"]:
            if mn in ("sub", "add", "push", "stp", "lea", "and") and ops and ops[0].strip() in ("rsp", "esp", "sp"):
                adjusts = True
            if mn == "push":
                adjusts = True
            if mn in ("stp", "str") and any("!" in o for o in ops):
                adjusts = True
        if not adjusts:
            best = n
    return best
