"""Typed emitter methods vs instruction ids: `a.stlr(...)` must emit the instruction called stlr.

The emitter headers declare every typed method with a macro row `ASMJIT_INST_<n>x(method, IdName, operand types...)`. The rows
of the tree's headers are compiled into a table {method, Inst::kId<IdName>} (so every IdName must exist), and a small driver asks
the public API for the name of each id (`InstAPI::inst_id_to_string`). The method name must be that name (a trailing `_` avoids C++
keywords; `_v` ids are the vector siblings of a mnemonic; x86 condition-code families expand `cc`)."""
import hashlib
import json
import os
import re

from vlib import build, common

ROW = re.compile(r"^\s*ASMJIT_INST_(\d)([xc])\(\s*(\w+)\s*,\s*(\w+)")
# documented aliases: the method is another spelling of the same instruction
ALIASES = {("x86", "sal"): "shl"}


def rows(arch):
    path = os.path.join(common.REPO, "asmjit", "arm" if arch == "a64" else "x86", "a64emitter.h" if arch == "a64" else "x86emitter.h")
    out = []
    for ln in open(path, encoding="utf-8", errors="replace"):
        m = ROW.match(ln)
        if m:
            out.append((m.group(3), m.group(4), m.group(2)))
    return out


def check(chk):
    """returns counters; violations are reported through chk.violation"""
    src_lines = ['#include <asmjit/core.h>', '#include <asmjit/x86.h>', '#include <asmjit/a64.h>', '#include <stdio.h>', 'using namespace asmjit;',
                 'struct Row { const char* arch; const char* method; const char* idname; unsigned id; };', 'static const Row rows[] = {']
    table = {}
    for arch in ("x86", "a64"):
        rs = rows(arch)
        if len(rs) < 500:
            raise common.HarnessError("only %d typed-method rows found in the %s emitter header" % (len(rs), arch))
        table[arch] = rs
        ns = "a64" if arch == "a64" else "x86"
        for method, idn, kind in rs:
            if kind == "c":
                continue   # condition-code families (jcc/setcc/cmovcc): the id is composed at run time
            src_lines.append('  { "%s", "%s", "%s", unsigned(%s::Inst::kId%s) },' % (arch, method, idn, ns, idn))
    src_lines += ['};', 'int main() {', '  for (const Row& r : rows) {', '    String s;',
                  '    Error e = InstAPI::inst_id_to_string(r.arch[0] == \'a\' ? Arch::kAArch64 : Arch::kX64, r.id, InstStringifyOptions::kNone, s);',
                  '    printf("%s %s %s %u %u %s\\n", r.arch, r.method, r.idname, r.id, unsigned(e), s.data());', '  }', '  return 0;', '}']
    src = "\n".join(src_lines) + "\n"
    d = os.path.join(build.CACHE, "tmp")
    os.makedirs(d, exist_ok=True)
    path = os.path.join(d, "typedemit-%s.cpp" % hashlib.sha256(src.encode()).hexdigest()[:16])
    if not os.path.exists(path):
        with open(path + ".tmp%d" % os.getpid(), "w") as fh:
            fh.write(src)
        os.rename(path + ".tmp%d" % os.getpid(), path)
    exe = build.build_driver("typedemit", "plain", sources=[path])
    rc, out, err = common.run_child([exe], timeout=300)
    if rc != 0:
        raise common.HarnessError("typedemit driver failed: %s" % err[-300:])
    n = 0
    for ln in out.decode().splitlines():
        arch, method, idn, iid, e, *name = ln.split(" ")
        name = name[0] if name else ""
        n += 1
        want = method[:-1] if method.endswith("_") else method
        want = ALIASES.get((arch, want), want)
        if e != "0" or not name:
            chk.violation("typed-method:id-has-no-name:%s:%s" % (arch, method), "method %s() emits id %s (kId%s) which the API cannot name" % (method, iid, idn), [arch, method, idn])
        elif name != want:
            chk.violation("typed-method:emits-other-instruction:%s:%s" % (arch, method),
                          "the typed emitter method %s() emits Inst::kId%s, which is the instruction '%s'" % (method, idn, name), [arch, method, idn, name])
    return {"typed_methods_checked": n, "typed_method_rows_x86": len(table["x86"]), "typed_method_rows_a64": len(table["a64"])}
