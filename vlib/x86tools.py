"""Independent x86 tools: GNU objdump and LLVM (llvm-mc as assembler, llvm-objdump as decoder) run over batches.

Instructions are laid out in 16-byte slots padded with NOPs so that a wrong length desynchronises visibly."""
import os
import re
import subprocess
import tempfile

from vlib import common

SLOT = 32
LLVM_ATTRS = ("+avx512f,+avx512vl,+avx512bw,+avx512dq,+avx512cd,+avx512ifma,+avx512vbmi,+avx512vbmi2,+avx512vnni,"
              "+avx512bitalg,+avx512vpopcntdq,+avx512bf16,+avx512fp16,+avx512vp2intersect,+avx512er,+avx512pf,"
              "+avxvnni,+gfni,+vaes,+vpclmulqdq,+sha,+amx-tile,+amx-int8,+amx-bf16,+3dnow,+3dnowa,+xop,+fma4,+tbm,+lwp,"
              "+sse4a,+fma,+f16c,+bmi,+bmi2,+adx,+aes,+pclmul,+rdrnd,+rdseed,+lzcnt,+popcnt,+movbe,+xsave,+xsaveopt,"
              "+xsavec,+xsaves,+clflushopt,+clwb,+cldemote,+movdiri,+movdir64b,+enqcmd,+serialize,+tsxldtrk,+uintr,"
              "+waitpkg,+wbnoinvd,+pconfig,+ptwrite,+rdpid,+rdpru,+mwaitx,+clzero,+prefetchwt1,+prfchw,+fsgsbase,"
              "+rtm,+sgx,+shstk,+vmx,+svm,+smap,+invpcid,+pku,+mmx,+sse,+sse2,+sse3,+ssse3,+sse4.1,+sse4.2,+avx,+avx2,"
              "+cx16,+cx8,+cmov,+sahf,+hreset,+kl,+widekl,+crc32,+x87,+fxsr")


def _tmpdir():
    d = os.path.join(common.VERIF, ".cache", "tmp")
    os.makedirs(d, exist_ok=True)
    return tempfile.mkdtemp(dir=d)


def _run(cmd, inp=None, timeout=900):
    p = subprocess.run(cmd, input=inp, stdout=subprocess.PIPE, stderr=subprocess.PIPE, timeout=timeout)
    return p.returncode, p.stdout.decode("utf-8", "replace"), p.stderr.decode("utf-8", "replace")


def layout(byte_list):
    """bytes per case (or None) -> one blob, slot i at i*SLOT, NOP padded"""
    blob = bytearray(b"\x90" * (SLOT * len(byte_list)))
    for i, b in enumerate(byte_list):
        if b:
            blob[i * SLOT:i * SLOT + len(b)] = b[:SLOT]
    return bytes(blob)


_OBJ_LINE = re.compile(r"^\s*([0-9a-f]+):\s+((?:[0-9a-f]{2} )+)\s*(?:\t(.*))?$")


def _slots_from_lines(lines, nslots):
    """lines: iterable of (addr, nbytes, text). Returns per slot: list of (offset_in_slot, nbytes, text)"""
    slots = [[] for _ in range(nslots)]
    merged = []
    for addr, n, text in lines:
        # llvm-objdump wraps long instructions: the continuation line carries bytes but no text
        if text == "" and merged and merged[-1][0] + merged[-1][1] == addr:
            merged[-1] = (merged[-1][0], merged[-1][1] + n, merged[-1][2])
        else:
            merged.append((addr, n, text))
    for addr, n, text in merged:
        s = addr // SLOT
        if s < nslots:
            slots[s].append((addr - s * SLOT, n, text))
    return slots


def objdump(blob, mode):
    """GNU objdump over the blob. Returns per-slot instruction lists."""
    d = _tmpdir()
    try:
        path = os.path.join(d, "b.bin")
        with open(path, "wb") as fh:
            fh.write(blob)
        arch = "i386:x86-64" if mode == 64 else "i386"
        rc, out, err = _run(["objdump", "-D", "-b", "binary", "-m", arch, "-M", "intel", "-w", path])
        if rc != 0:
            raise common.HarnessError("objdump failed: " + err[-500:])
        lines = []
        for ln in out.splitlines():
            m = _OBJ_LINE.match(ln)
            if m:
                lines.append((int(m.group(1), 16), len(m.group(2).split()), (m.group(3) or "").strip()))
        return _slots_from_lines(lines, len(blob) // SLOT)
    finally:
        import shutil
        shutil.rmtree(d, ignore_errors=True)


def llvm_objdump(blob, mode):
    """LLVM's decoder over the blob (wrapped into an object by llvm-mc .byte directives)."""
    d = _tmpdir()
    try:
        s = os.path.join(d, "b.s")
        o = os.path.join(d, "b.o")
        with open(s, "w") as fh:
            fh.write(".text\n")
            for i in range(0, len(blob), 64):
                fh.write(".byte " + ",".join(str(x) for x in blob[i:i + 64]) + "\n")
        triple = "x86_64" if mode == 64 else "i386"
        rc, out, err = _run(["llvm-mc", "-triple=" + triple, "-filetype=obj", "-o", o, s])
        if rc != 0:
            raise common.HarnessError("llvm-mc (.byte wrap) failed: " + err[-500:])
        rc, out, err = _run(["llvm-objdump", "-d", "--x86-asm-syntax=intel", "--mattr=" + LLVM_ATTRS, "--no-leading-addr" if False else "--print-imm-hex", o])
        if rc != 0:
            raise common.HarnessError("llvm-objdump failed: " + err[-500:])
        lines = []
        for ln in out.splitlines():
            m = _OBJ_LINE.match(ln)
            if m:
                lines.append((int(m.group(1), 16), len(m.group(2).split()), (m.group(3) or "").strip().replace("\t", " ")))
        return _slots_from_lines(lines, len(blob) // SLOT)
    finally:
        import shutil
        shutil.rmtree(d, ignore_errors=True)


_ENC = re.compile(r"encoding: \[([^\]]*)\]")


def llvm_assemble(texts, mode):
    """texts: list of assembly statements in Intel syntax (or None). Returns list of bytes|None (None: LLVM refused
    the text or produced a fixup, i.e. no verdict)."""
    d = _tmpdir()
    try:
        s = os.path.join(d, "a.s")
        with open(s, "w") as fh:
            fh.write(".intel_syntax noprefix\n")
            for i, t in enumerate(texts):
                fh.write("vcase_%d:\n" % i)
                if t:
                    fh.write(t + "\n")
        triple = "x86_64" if mode == 64 else "i386"
        rc, out, err = _run(["llvm-mc", "-triple=" + triple, "-mattr=" + LLVM_ATTRS, "-show-encoding", s])
        res = [None] * len(texts)
        cur = None
        bad = set()
        for ln in out.splitlines():
            ln = ln.strip()
            if ln.startswith("vcase_") and ln.endswith(":"):
                cur = int(ln[6:-1])
                continue
            if cur is None:
                continue
            m = _ENC.search(ln)
            if m:
                try:
                    b = bytes(int(x, 16) for x in m.group(1).split(",") if x.strip())
                except ValueError:
                    bad.add(cur)  # fixup placeholders (A,A,A,A)
                    continue
                # prefixes written as separate words (lock, rep, xacquire ...) are printed as separate statements
                res[cur] = (res[cur] or b"") + b
            elif "fixup" in ln:
                bad.add(cur)
        for i in bad:
            res[i] = None
        return res
    finally:
        import shutil
        shutil.rmtree(d, ignore_errors=True)


PREFIX_TOKENS = {"lock", "rep", "repz", "repe", "repnz", "repne", "xacquire", "xrelease", "bnd", "notrack", "cs", "ds", "es", "ss",
                 "fs", "gs", "rex", "data16", "data32", "addr32", "addr16", "wait", "fwait"}


def decode_slot(slot, nbytes):
    """Judge a slot holding an instruction of `nbytes` appended bytes.
    Returns (ok_length, text): ok_length says that the decoder's instruction boundaries include offset `nbytes`,
    that decoding started at offset 0 and that everything after is plain NOP padding; text is the decoded text of
    [0, nbytes) with prefix-only lines merged."""
    if not slot or slot[0][0] != 0:
        return False, ""
    texts = []
    pos = 0
    i = 0
    while i < len(slot) and pos < nbytes:
        off, k, t = slot[i]
        if off != pos:
            return False, " ".join(texts)
        texts.append(t)
        pos += k
        i += 1
    if pos != nbytes:
        return False, " ".join(texts)
    for off, k, t in slot[i:]:
        if off != pos or not re.match(r"^(nop|xchg\s+eax,\s*eax)\s*$", t):
            return False, " ".join(texts)
        pos += k
    return True, " ".join(texts)


_WS = re.compile(r"\s+")


def canon(text, mode=None):
    """normalise decoder text for same-decoder comparisons: whitespace, case, encoding-hint pseudo prefixes, and the
    order of leading prefix tokens (decoders print prefixes in byte order; the order has no meaning). A bare `rex`
    token (REX without any bit set) is dropped."""
    t = text.split("#")[0].strip().lower()
    t = _WS.sub(" ", t)
    for p in ("{evex} ", "{vex} ", "{vex3} ", "{vex2} ", "{disp8} ", "{disp32} "):
        t = t.replace(p, "")
    toks = t.split(" ")
    pre = []
    while toks and toks[0] in PREFIX_TOKENS:
        pre.append(toks.pop(0))
    pre = sorted(set(x for x in pre if x != "rex"))
    t = " ".join(pre + toks)
    # `ret 0` == `ret` (AsmJit drops a zero pop count); xchg/test operands commute
    t = re.sub(r"\b(ret|retf|retfq|retfw|lret) 0x0$", r"\1", t)
    t = re.sub(r",0x1$", ",1", t)   # shift/rotate by 1: the imm8 form and the by-one form mean the same
    # `movabs r64, imm64` (B8+r) and `mov r64, simm32` (C7 /0) with the same 64-bit value are the same instruction in another
    # encoding (AsmJit's long form option selects the former); objdump prints the full 64-bit value for both
    t = re.sub(r"^movabs (r[a-z0-9]+),(0x[0-9a-f]+|1)$", r"mov \1,\2", t)
    if mode == 32 and t in ("xchg eax,eax", "xchg ax,ax"):
        # 32-bit mode: 87 C0 (the long form) and 90 / 66 90 do the same thing (no zero extension to lose)
        t = "nop" if t == "xchg eax,eax" else "data16 nop"
    m = re.match(r"^((?:[a-z0-9]+ )*)(xchg|test) ([^,]+),(.+)$", t)
    if m:
        a, b = sorted([m.group(3).strip(), m.group(4).strip()])
        t = "%s%s %s,%s" % (m.group(1), m.group(2), a, b)
    return t
