"""ISA database access: dumps /repo/db through its own reader (nodejs/dump_forms.js), cached by db hash."""
import json
import os
import shutil
import subprocess

from vlib import build, common


def _dump_dir():
    d = os.path.join(build.CACHE, "forms-" + build.db_hash())
    with build.Lock(os.path.join(build.CACHE, "forms.lock")):
        if not os.path.exists(os.path.join(d, "x86_forms.json")):
            tmp = d + ".tmp%d" % os.getpid()
            shutil.rmtree(tmp, ignore_errors=True)
            os.makedirs(tmp)
            p = subprocess.run(["node", os.path.join(common.VERIF, "nodejs", "dump_forms.js"), build.REPO, tmp],
                               stdout=subprocess.PIPE, stderr=subprocess.PIPE, text=True, timeout=300)
            if p.returncode != 0 or not os.path.exists(os.path.join(tmp, "x86_forms.json")):
                shutil.rmtree(tmp, ignore_errors=True)
                raise common.HarnessError("ISA database dump failed: " + p.stderr[-2000:])
            shutil.rmtree(d, ignore_errors=True)
            os.rename(tmp, d)
            build.prune("forms", 2)
    return d


_cache = {}


def x86_forms():
    if "x86" not in _cache:
        forms = json.load(open(os.path.join(_dump_dir(), "x86_forms.json")))
        for i, f in enumerate(forms):
            f["_idx"] = i
        _cache["x86"] = forms
    return _cache["x86"]


def a64_forms():
    if "a64" not in _cache:
        p = os.path.join(_dump_dir(), "a64_forms.json")
        if not os.path.exists(p):
            raise common.HarnessError("AArch64 ISA database dump missing")
        forms = json.load(open(p))
        for i, f in enumerate(forms):
            f["_idx"] = i
        _cache["a64"] = forms
    return _cache["a64"]
