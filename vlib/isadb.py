"""ISA database access: dumps /repo/db through its own reader (nodejs/dump_forms.js), cached by db hash."""
import json
import os
import shutil
import subprocess

from vlib import build, common


def _dump_dir():
    d = os.path.join(build.CACHE, "forms-" + build.db_hash())
    with build.Lock(os.path.join(build.CACHE, "forms.lock")):
        if not os.path.exists(os.path.join(d, "x86_forms.json")):
            tmp = d + ".tmp%d" % os.getpid()
            shutil.rmtree(tmp, ignore_errors=True)
            os.makedirs(tmp)
            p = subprocess.run(["node", os.path.join(common.VERIF, "nodejs", "dump_forms.js"), build.REPO, tmp],
                               stdout=subprocess.PIPE, stderr=subprocess.PIPE, text=True, timeout=300)
            if p.returncode != 0 or not os.path.exists(os.path.join(tmp, "x86_forms.json")):
                shutil.rmtree(tmp, ignore_errors=True)
                raise common.HarnessError("ISA database dump failed: " + p.stderr[-2000:])
            shutil.rmtree(d, ignore_errors=True)
            os.rename(tmp, d)
            build.prune("forms", 2)
    return d


_cache = {}


def x86_forms():
    if "x86" not in _cache:
        forms = json.load(open(os.path.join(_dump_dir(), "x86_forms.json")))
        for i, f in enumerate(forms):
            f["_idx"] = i
        _cache["x86"] = forms
    return _cache["x86"]


# Forms a64::Assembler implements but db/isa_aarch64.json has no (AdvSIMD / general purpose) record for. They are appended
# AFTER the database records (indexes of those stay) in the shape of the dump, flagged `_supplement` (the generator draws
# their random picks from a side stream). Templates are written from the Arm ARM (C7.2.78/79 FCVTXN, C6.2 AND/ANDS/ORR/EOR
# (immediate), of which `bic/bics/orn/eon Rd, Rn, #imm` are the assemblers' inverted-immediate spellings).
_A64_SUPPLEMENT = [
    ("fcvtxn", ["Sd", "Dn"], "01111110|01|10000|10110|10|Vn|Vd", "ASIMD", None),
    ("fcvtxn", ["Vd.2S", "Vn.2D"], "00101110|01|10000|10110|10|Vn|Vd", "ASIMD", None),
    ("fcvtxn2", ["Vx.4S", "Vn.2D"], "01101110|01|10000|10110|10|Vn|Vx", "ASIMD", None),
    # (the database has these with wrong operands: fcvtn Vd.4S, Vn.4H; crc32x Xd, Xn, Xm; frecpx Sd, Sn, Sm; xpaclri Xd; chkfeat
    # without its X16 - AsmJit refuses those, rightly, and the instructions were never exercised)
    ("fcvtn", ["Vd.4H", "Vn.4S"], "00001110|00|10000|10110|10|Vn|Vd", "ASIMD", None),
    ("fcvtn", ["Vd.2S", "Vn.2D"], "00001110|01|10000|10110|10|Vn|Vd", "ASIMD", None),
    ("fcvtn2", ["Vx.8H", "Vn.4S"], "01001110|00|10000|10110|10|Vn|Vx", "ASIMD", None),
    ("fcvtn2", ["Vx.4S", "Vn.2D"], "01001110|01|10000|10110|10|Vn|Vx", "ASIMD", None),
    ("crc32x", ["Wd", "Wn", "Xm"], "10011010110|Rm|010|0|11|Rn|Rd", "GP", None),
    ("crc32cx", ["Wd", "Wn", "Xm"], "10011010110|Rm|010|1|11|Rn|Rd", "GP", None),
    ("frecpx", ["Hd", "Hn"], "01011110|11|11100|11111|10|Vn|Vd", "ASIMD", None),
    ("frecpx", ["Sd", "Sn"], "01011110|10|10000|11111|10|Vn|Vd", "ASIMD", None),
    ("frecpx", ["Dd", "Dn"], "01011110|11|10000|11111|10|Vn|Vd", "ASIMD", None),
    ("xpaclri", [], "11010101000000110010000011111111", "GP", None),
    ("chkfeat", ["X16"], "11010101000000110010010100011111", "GP", None),
    ("bic", ["Wd|WSP", "Wn", "#log_imm"], "00010010|0|imm:13|Rn|Rd", "GP", "ImmLogical"),
    ("bic", ["Xd|SP", "Xn", "#log_imm"], "10010010|0|imm:13|Rn|Rd", "GP", "ImmLogical"),
    ("bics", ["Wd", "Wn", "#log_imm"], "01110010|0|imm:13|Rn|Rd", "GP", "ImmLogical"),
    ("bics", ["Xd", "Xn", "#log_imm"], "11110010|0|imm:13|Rn|Rd", "GP", "ImmLogical"),
    ("orn", ["Wd|WSP", "Wn", "#log_imm"], "00110010|0|imm:13|Rn|Rd", "GP", "ImmLogical"),
    ("orn", ["Xd|SP", "Xn", "#log_imm"], "10110010|0|imm:13|Rn|Rd", "GP", "ImmLogical"),
    ("eon", ["Wd|WSP", "Wn", "#log_imm"], "01010010|0|imm:13|Rn|Rd", "GP", "ImmLogical"),
    ("eon", ["Xd|SP", "Xn", "#log_imm"], "11010010|0|imm:13|Rn|Rd", "GP", "ImmLogical"),
]


def _supplement_record(name, ops, opcode, category, imm_call):
    fields, value, pos = {}, 0, 32
    for part in opcode.split("|"):
        if set(part) <= set("01"):
            pos -= len(part)
            value |= int(part, 2) << pos
            continue
        fname, _, bits = part.partition(":")
        n = int(bits) if bits else 5
        pos -= n
        fields[fname] = {"index": pos, "values": [{"index": pos, "from": 0, "size": n}], "bits": n, "mask": (1 << n) - 1, "lbit": 0, "hbit": 0}
    if pos != 0:
        raise common.HarnessError("supplemental template %s %s is not 32 bits wide" % (name, opcode))
    operands = []
    for d in ops:
        if d.startswith("#"):
            operands.append({"type": "imm", "data": d, "imm": d[1:]})
        else:
            operands.append({"type": "reg", "data": d})
    rec = {"name": name, "arch": "ANY", "operands": operands, "opcodeString": opcode, "opcodeValue": value, "fields": fields,
           "category": {category: True}, "ext": {}, "_supplement": True, "negated_logical": imm_call is not None}
    if imm_call:
        rec["imm"] = {"type": "call", "name": imm_call, "args": []}
    return rec


def a64_forms():
    if "a64" not in _cache:
        p = os.path.join(_dump_dir(), "a64_forms.json")
        if not os.path.exists(p):
            raise common.HarnessError("AArch64 ISA database dump missing")
        forms = json.load(open(p))
        have = set((f["name"], ",".join(o["data"] for o in f["operands"])) for f in forms)
        for spec in _A64_SUPPLEMENT:
            if (spec[0], ",".join(spec[1])) not in have:      # (the database may gain the record one day)
                forms.append(_supplement_record(*spec))
        for i, f in enumerate(forms):
            f["_idx"] = i
        _cache["a64"] = forms
    return _cache["a64"]
