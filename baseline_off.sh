#!/bin/sh
# Rebuilds /repo/_build WITHOUT the ASMJIT_VERIF guard (the repository's own cmake build) and runs the 10 baseline tests.
set -e
cmake -S /repo -B /repo/_build -G Ninja -DCMAKE_BUILD_TYPE=RelWithDebInfo -DASMJIT_TEST=ON -DCMAKE_CXX_FLAGS=-Wno-error >/dev/null
cmake --build /repo/_build -j16
if grep -rq "ASMJIT_VERIF" /repo/_build/build.ninja; then echo "guard leaked into baseline build"; exit 1; fi
ctest --test-dir /repo/_build -j8 --timeout 900
