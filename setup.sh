#!/bin/sh
# Builds the sanitizer flavour archives of /repo's working tree and every driver (offline).
cd "$(dirname "$0")" || exit 2
exec python3 tools/setup.py
