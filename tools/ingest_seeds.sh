#!/bin/sh
# usage: tools/ingest_seeds.sh C01-4 C02-4 ...   verifies each seeded change (tools/verify_seed.sh), removes its worktree and runs
# the property's check against it (tools/run_seeded.py). /repo/_build must hold the unchanged tree (baseline_off.sh).
cd /verif
IDS=""
for id in "$@"; do
  P=${id%-*}; N=${id#*-}
  out=$(sh tools/verify_seed.sh $P $N 2>&1 | tail -1)
  echo "$out"
  case "$out" in
    *"0 tests failed out of 10 | demo with change rc="[1-9]" | demo on unchanged tree rc=0"*) IDS="$IDS $id"; git -C /repo worktree remove --force /tmp/seed-$id 2>/dev/null;;
    *) echo "NOT CONFIRMED: $id (worktree kept)";;
  esac
done
[ -n "$IDS" ] && python3 tools/run_seeded.py $IDS $RUNSEEDED_FLAGS 2>&1 | grep "^|"
