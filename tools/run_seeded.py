#!/usr/bin/env python3
"""Applies every seeded change under /verif/seeded/<id>/patch.diff to /repo, runs the quick tier of the named
checks (default: the property the change targets), and reverts /repo. Appends the outcome to seeded/RESULTS.md.

usage: tools/run_seeded.py [seed-id ...] [--checks C01,C13] [--all-checks]
Never commits anything to /repo; refuses to run if /repo has uncommitted changes."""
import json
import os
import subprocess
import sys
import time

HERE = os.path.dirname(os.path.dirname(os.path.abspath(__file__)))
REPO = "/repo"
# With --scratch the patch is applied to a scratch worktree of /repo's HEAD and the check runs against it through VERIF_REPO
# (used while background runs read /repo itself); without it the patch is applied to /repo and reverted afterwards.
SCRATCH = "/var/tmp/verif-seedrun"


def sh(cmd, **kw):
    return subprocess.run(cmd, shell=isinstance(cmd, str), stdout=subprocess.PIPE, stderr=subprocess.STDOUT, text=True, **kw)


def main():
    args = [a for a in sys.argv[1:] if not a.startswith("--")]
    checks_opt = None
    for a in sys.argv[1:]:
        if a.startswith("--checks"):
            checks_opt = a.split("=", 1)[1].split(",") if "=" in a else None
    all_checks = "--all-checks" in sys.argv
    global REPO
    scratch = "--scratch" in sys.argv
    if scratch:
        if not os.path.isdir(SCRATCH):
            sh(["git", "-C", "/repo", "worktree", "add", "--detach", SCRATCH, "HEAD"])
        head = sh("git -C /repo rev-parse HEAD").stdout.strip()
        sh(["git", "-C", SCRATCH, "checkout", "-q", "--detach", head])
        sh(["git", "-C", SCRATCH, "checkout", "--", "."])
        REPO = SCRATCH
    if sh("git -C %s status --porcelain --untracked-files=no" % REPO).stdout.strip():
        print("refusing: /repo has uncommitted changes")
        return 2
    seeds = args or sorted(d for d in os.listdir(os.path.join(HERE, "seeded")) if os.path.isdir(os.path.join(HERE, "seeded", d)))
    manifest = json.load(open(os.path.join(HERE, "MANIFEST.json")))
    claimed = [c["property_id"] for c in manifest["checks"]]
    out_lines = []
    for sid in seeds:
        d = os.path.join(HERE, "seeded", sid)
        patch = os.path.join(d, "patch.diff")
        meta = json.load(open(os.path.join(d, "meta.json")))
        prop = meta.get("property", sid.split("-")[0])
        checks = checks_opt or (claimed if all_checks else [prop])
        r = sh(["git", "-C", REPO, "apply", "--check", patch])
        if r.returncode != 0:
            out_lines.append("| %s | %s | patch does not apply: %s | |" % (sid, prop, r.stdout.strip()[:80]))
            continue
        sh(["git", "-C", REPO, "apply", patch])
        try:
            for c in checks:
                if c not in claimed:
                    out_lines.append("| %s | %s | %s | no check claimed | |" % (sid, prop, c))
                    continue
                t0 = time.time()
                r = sh(["./check", c, "--tier", "quick"], cwd=HERE, timeout=3600,
                       env=dict(os.environ, VERIF_EVIDENCE_DIR="/var/tmp/verif-seeded-evidence", **({"VERIF_REPO": SCRATCH} if scratch else {})))
                keys = [l.split("key=", 1)[1].split(" ")[0] for l in r.stdout.splitlines() if l.strip().startswith("key=")]
                verdict = {0: "MISSED (exit 0)", 1: "caught", 2: "inconclusive (exit 2)"}.get(r.returncode, "exit %d" % r.returncode)
                out_lines.append("| %s | %s | %s | %s | %s | %.0fs |" % (sid, prop, c, verdict, "; ".join(keys[:4])[:160], time.time() - t0))
                print(out_lines[-1], flush=True)
        finally:
            sh(["git", "-C", REPO, "checkout", "--", "."])
    with open(os.path.join(HERE, "seeded", "RESULTS.md"), "a") as fh:
        fh.write("\n## run %s\n\n| seed | property | check | verdict | keys | time |\n|---|---|---|---|---|---|\n" % time.strftime("%Y-%m-%d %H:%M"))
        fh.write("\n".join(out_lines) + "\n")
    return 0


if __name__ == "__main__":
    sys.exit(main())
