#!/bin/sh
# usage: tools/verify_seed.sh <PROP> <N>   - confirms a seeded change from /tmp/seed-<PROP> and stores it as seeded/<PROP>-<N>
# (1) the patch is applied in the worktree and its library is built; (2) the 10 baseline tests pass there;
# (3) the demonstration fails against the changed library and (4) passes against the unchanged /repo/_build library.
P=$1; N=${2:-1}; W=/tmp/seed-$P-$N; [ -d $W ] || W=/tmp/seed-$P; D=/verif/seeded/$P-$N
set -e
mkdir -p $D
cp $W/_seed/patch.diff $W/_seed/demo.cpp $W/_seed/meta.json $D/
cd $W
git diff --stat -- asmjit db tools | tail -1
cmake --build $W/_build -j16 >/dev/null 2>&1
T=$(ctest --test-dir $W/_build -j8 --timeout 900 2>&1 | grep "tests passed" || true)
cd $W/_seed
EXTRA=$(head -5 demo.cpp | grep -o "\-D[A-Z_]*\|-lpthread\|-pthread\|-ldl\|-O[0-9]\|-mavx[0-9a-z]*\|-msse[0-9.]*\|-mfma\|-mbmi2\?\|-march=[a-z0-9-]*" | tr '\n' ' ')
g++ -std=c++17 -I$W demo.cpp -L$W/_build -lasmjit -Wl,-rpath,$W/_build -lpthread $EXTRA -o demo_changed 2>/dev/null || echo "demo build (changed) needs a custom command"
g++ -std=c++17 -I/repo demo.cpp -L/repo/_build -lasmjit -Wl,-rpath,/repo/_build -lpthread $EXTRA -o demo_orig 2>/dev/null || echo "demo build (orig) needs a custom command"
set +e
timeout 300 ./demo_changed >/dev/null 2>&1; RC1=$?
timeout 300 ./demo_orig >/dev/null 2>&1; RC0=$?
echo "$P-$N: tests: $T | demo with change rc=$RC1 | demo on unchanged tree rc=$RC0"
python3 - "$D" "$T" "$RC1" "$RC0" <<'PY'
import json,sys
d,t,rc1,rc0=sys.argv[1:5]
m=json.load(open(d+'/meta.json'))
m['confirmed_by_lead']={'baseline_tests_with_change':t.strip(),'demo_rc_with_change':int(rc1),'demo_rc_unchanged_tree':int(rc0),
  'how':'tools/verify_seed.sh: rebuilt the seeded worktree, ran ctest there, built demo.cpp against the changed library and against /repo/_build (unchanged tree)'}
json.dump(m,open(d+'/meta.json','w'),indent=1)
PY
