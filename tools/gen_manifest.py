#!/usr/bin/env python3
"""Generates /verif/MANIFEST.json from the table below (single source of truth for what is claimed)."""
import json, os, subprocess
HERE = os.path.dirname(os.path.dirname(os.path.abspath(__file__)))

CHECKS = {
 "C09": dict(
   category="exploration",
   text="Runtime monitoring: bounded-exhaustive (depth 5 quick / 6 thorough over a small op alphabet) and random histories (to 1e5 ops) of the real JitAllocator under ASan+UBSan, every step judged by a sequential model (interval map, shadow contents, statistics, reuse, fill pattern, retention policy) and by hook H2 walking the allocator's bookkeeping under its own lock. Held on the histories executed, nothing more.",
   design_ref="DESIGN.md section 2, C09",
   note="Trusts the model in drv/drv_jitalloc.cpp, gcc ASan/UBSan, and that hook H2 only reads state. Large pages unavailable here (fallback path only).",
   technique="sanitizer build + reference-model monitor over operation histories + invariant hook"),
}

NOT_YET = {}

def main():
    props = [json.loads(l) for l in open(os.path.join(HERE, "properties.jsonl"))]
    hooks = subprocess.run(["git", "-C", "/repo", "log", "--format=%H %s"], capture_output=True, text=True).stdout.splitlines()
    hook_commits = [l.split()[0] for l in hooks if " verif hook " in " " + l]
    checks = []
    na = []
    for p in props:
        pid = p["id"]
        c = CHECKS.get(pid)
        if not c:
            na.append({"property_id": pid, "reason": NOT_YET.get(pid, "check not built yet in this round (runtime monitor planned in DESIGN.md); not claimed until it runs clean on the unchanged tree")})
            continue
        checks.append({
            "property_id": pid,
            "quick_cmd": "./check %s --tier quick" % pid,
            "thorough_cmd": "./check %s --tier thorough" % pid,
            "evidence_file": "evidence/%s.json" % pid,
            "replay_cmd_template": "./check %s --replay {path}" % pid,
            "engine": c.get("engine", "drivers"),
            "level_claimed": {"category": c["category"], "text": c["text"], "design_ref": c["design_ref"]},
            "level_note": c["note"],
            "technique": c["technique"],
        })
    m = {
        "version": 1,
        "setup_cmd": "./setup.sh",
        "hooks": {
            "guard": "ASMJIT_VERIF",
            "enable": "vlib/build.py compiles /repo/asmjit/**/*.cpp (current working tree) with -DASMJIT_VERIF -DASMJIT_STATIC into per-sanitizer static archives (asan+ubsan, tsan, plain) cached by source hash under /verif/.cache",
            "baseline_off_cmd": "./baseline_off.sh",
            "source_commits": hook_commits,
            "add_only": True,
        },
        "engines": [
            {"name": "drivers", "path": "drv/", "serves_properties": sorted(CHECKS), "kind_free_text": "C++ drivers linked against sanitizer-instrumented static builds of the working tree; oracles in the drivers and in vlib/props/*.py"},
        ],
        "checks": checks,
        "notes": "All checks: ./check <id> [--tier quick|thorough] [--replay file]; VERIF_SEED selects the PRNG stream. exit 0 held / 1 VIOLATION / 2 harness failure or inconclusive. known_findings.json lists genuine defects (known or fixed).",
        "not_applicable": na,
    }
    json.dump(m, open(os.path.join(HERE, "MANIFEST.json"), "w"), indent=1)
    print("checks:", [c["property_id"] for c in checks], "n/a:", len(na))

if __name__ == "__main__":
    main()
