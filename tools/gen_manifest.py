#!/usr/bin/env python3
"""Generates /verif/MANIFEST.json from the table below (single source of truth for what is claimed)."""
import json, os, subprocess
HERE = os.path.dirname(os.path.dirname(os.path.abspath(__file__)))

CHECKS = {
 "C01": dict(
   category="exploration",
   text="Runtime monitoring of the real x86 assembler (ASan+UBSan build, strict validation): every database form x mode x systematic operand/prefix/decoration variants (1.3e5 emits quick, ~2e6 thorough) judged by three monitors: our field-level decoder applying the database's encoding rule to the case, GNU objdump's reading of AsmJit's bytes vs. its reading of the same instruction assembled by llvm-mc, and instruction-length agreement of objdump/LLVM. Held on the cases emitted; forms unknown to both decoders get the database-rule verdict only. String / implicit-memory forms get valid variants with every segment override and the other address size; 64-bit absolute addresses include unsigned 32-bit values with bit 31 set.",
   design_ref="DESIGN.md section 2, C01", note="Trusts objdump 2.40, LLVM 14, vlib/xdec.py and vlib/x86text.py (harness). UBSan shift-base disabled (arithmetic shifts of negatives are defined behaviour for the compilers/standard the tree targets).",
   technique="sanitizer build + differential decoding against independent assembler/decoders + database-rule decoder"),
 "C08": dict(category="exploration",
   text="Runtime monitoring under ASan+UBSan, differential at the API boundary: seeded scripts of emitter calls (instructions with 0-6 operands, options, extra register, inline comments; forward/backward jumps and label memory operands; align; embed, embed_data_array, embed_const_pool, embed_label, embed_label_delta; comments; 1-4 sections) on x86-32, x86-64 and AArch64 are replayed into an Assembler, a Builder+finalize and a Compiler+finalize, and - after random node-list edits (remove_node, remove_nodes, re-insertion through set_cursor/add_node/add_before/add_after, cursor moves followed by new calls) tracked by an independent list+cursor model - into an Assembler fed the edited sequence; bytes, section sizes, label offsets, relocations, fixups and the first error code must agree; violating scripts are delta-debugged to a minimal script.",
   design_ref="DESIGN.md section 2, C08", note="Function/invoke/jump-annotation nodes are out of reach without functions (C05 covers them); logger text differences are reported without verdict.",
   technique="sanitizer build + differential monitor (Assembler vs Builder vs Compiler vs edited-sequence model)"),
 "C09": dict(
   category="exploration",
   text="Runtime monitoring: bounded-exhaustive (depth 5 quick / 6 thorough over a small op alphabet) and random histories (to 1e5 ops) of the real JitAllocator under ASan+UBSan, every step judged by a sequential model (interval map, shadow contents, statistics, reuse, fill pattern, retention policy) and by hook H2 walking the allocator's bookkeeping under its own lock. Held on the histories executed, nothing more.",
   design_ref="DESIGN.md section 2, C09",
   note="Trusts the model in drv/drv_jitalloc.cpp, gcc ASan/UBSan, and that hook H2 only reads state. Large pages unavailable here (fallback path only).",
   technique="sanitizer build + reference-model monitor over operation histories + invariant hook"),
 "C13": dict(
   category="exploration",
   text="Runtime monitoring over the public API: every database form in allowed and excluded modes plus near-miss mutations, each validated directly, emitted with and without strict validation; verdicts and bytes compared; vendored list of forms accepted by the pinned release; name round trip over all ids of x86/x64/AArch64 and every alias spelling. Every case also runs through ONE assembler that is detached and re-attached whenever the mode changes (same verdict and bytes required); AArch64: the 30k valid variants of the database forms that the pinned release encodes are vendored and must still be encoded; the 4167 typed emitter methods of both emitter headers are compiled into a table against the tree and the id behind each must carry the method's name.",
   design_ref="DESIGN.md section 2, C13", note="AArch64 has no operand validator: only its names are judged here. 'Implemented' = vendor/implemented_x86.json generated from the pinned tree.",
   technique="differential monitoring of validator vs. encoder verdicts under sanitizers"),
 "C16": dict(category="exploration",
   text="Runtime monitoring under ASan+UBSan+LSan: random histories (24000 quick, 1.2e6 thorough) over one CodeHolder (dynamic or static arena memory) and an Assembler, Builder and Compiler per x86-64/x86-32/AArch64: init with/without base, attach (also wrong family), detach, soft/hard reset, reinit, program generation from 22 generators (errors, unbound labels, sections, far calls with address table, const pools, Compiler functions with spills/invokes/jump tables, functions left open), post-processing, pending one-shot state, emitter destruction, logger/handler/diagnostic changes, heap noise; whenever the objects are clean a probe program is generated and every call's error code, sections, labels, relocations, fixups and final image are compared with the same program on fresh objects; public emitter/holder state is snapshotted against fresh objects before every first use; retired loggers/handlers are watched for late calls; alarms are delta-debugged in forked children.",
   design_ref="DESIGN.md section 2, C16", note="Arena memory reused after a soft reset is not poisoned: a stale pointer is seen through the state snapshot or when it changes output.",
   technique="sanitizer build + state-snapshot and differential monitor (recycled vs fresh objects)"),
 "C17": dict(
   category="exploration",
   text="Runtime monitoring of the displacement and immediate codecs under ASan+UBSan: every offset format the back ends construct (collected at run time) and a grid of generic formats, exhaustively for fields <= 21 bits (quick) / 26 bits (thorough) plus bands outside the range, judged by independent decoders; all AArch64 logical immediates (ground truth by decoding every N:immr:imms), all FP8 immediates, add/sub, move-wide sequences and bitfield positions through the public emitter, sampled cross-check with llvm-mc. exhaustive_subspaces in the evidence name what was enumerated completely.",
   design_ref="DESIGN.md section 2, C17", note="Thumb/A32 split formats are not constructed by any back end: memory-safety only, no codec verdict. Fields wider than the exhaustive limit are sampled.",
   technique="exhaustive/randomised codec round-trip monitoring with independent decoders under sanitizers"),
 "C18": dict(
   category="exploration",
   text="Runtime monitoring under ASan+UBSan+LSan: random operation scripts interleaved across 13 container/string harnesses sharing one Arena, compared with std:: models after every step, structural invariant walks (red-black, hash reachability, list links, null termination), live-block interval map for raw arena blocks, injected allocation failures via hook H1.",
   design_ref="DESIGN.md section 2, C18", note="Models and invariant walkers in drv/drv_containers.cpp are trusted harness code; String heap failures are not injectable (malloc).",
   technique="sanitizer build + reference-model monitors (std:: containers) + invariant walks + fault injection"),
}


CHECKS.update({
 "C02": dict(category="exploration",
   text="Runtime monitoring of the real a64::Assembler (ASan+UBSan build): every non-SVE record of the AArch64 database x one-dimension-at-a-time sweeps (register ids incl. SP/ZR and out-of-range ids, arrangements, lanes, shifts/extends, offsets, immediates, conditions; 6.6e4 emits quick, 9e5 thorough) judged by four monitors: byte equality with llvm-mc's encoding of our own ARM-syntax rendering, field match against the database bit template with independent immediate decoders, refusal of operands the generator marks unencodable, and llvm-mc's disassembly of AsmJit's word.",
   design_ref="DESIGN.md section 2, C02", note="Nothing executes on AArch64 hardware: LLVM 14 is the semantic judge; SVE/SME/MOPS records are not generated; LLVM rejecting our text is 'no verdict'.",
   technique="sanitizer build + differential assembling against llvm-mc + database template matcher"),
 "C03": dict(category="exploration",
   text="Runtime monitoring: random label programs (x86-32/x86-64/AArch64; all reference kinds, 1-4 sections, up to 64 pending fixups per label, distances on both sides of every range limit incl. +-128 MiB and +-2 GiB) assembled by the real code under ASan+UBSan; every reference site is decoded by our own field extractors and compared with API-boundary positions, a shadow count follows unresolved_fixup_count() after every call, x86-64 jump programs are executed natively and their marker trace compared, sampled sites are re-decoded by objdump/LLVM.",
   design_ref="DESIGN.md section 2, C03", note="AArch64 and x86-32 are judged statically (no execution); +-2 GiB inside one section only in the thorough tier.",
   technique="sanitizer build + reference-position monitor over label programs + native execution traces"),
 "C04": dict(category="exploration",
   text="Runtime monitoring: programs with absolute references relocated to 12 base-address classes, built once with the base known at init and once relocated afterwards; our evaluator walks the flattened image (abs fields, rel32 sites, address-table slots) and compares designated targets with expected ones; JitRuntime::add images are compared with an independent relocation and the code is called natively, reaching C functions > 2 GiB away through .addrtab. The JitRuntime pipeline alternates between a default and a dual-mapping runtime (rx != rw).",
   design_ref="DESIGN.md section 2, C04", note="Native calls on x86-64 only; other architectures evaluated on the image.",
   technique="sanitizer build + relocation evaluator monitor + native calls through the address table"),
 "C05": dict(category="exploration",
   text="Runtime monitoring of the Compiler's register allocator: a seeded generator produces IR programs (all CFG shapes up to 5 body blocks in the thorough tier; loops, jump tables, calls through several signatures, GP/vector/mask values up to ~160 simultaneously live, fixed-register instructions, partial-register and high-byte operands, memory-operand substitution candidates, AVX-512) which are emitted through x86::Compiler (x86-64 and x86-32: executed natively in forked children on 16 inputs each and compared with a reference interpreter that tracks byte-level definedness) and a64::Compiler (executed on an instruction-word executor against the same interpreter; register-list programs additionally checked by symbolic dataflow over llvm-mc's disassembly); the allocator itself runs under ASan+UBSan; fixed probes target each allocator idiom (same-register hints, immediate idioms, reg->mem substitution, consecutive registers, unreachable blocks); failing programs are shrunk.",
   design_ref="DESIGN.md section 2, C05", note="x86-32 and AArch64 output is never executed (no such CPU here): compile-only plus symbolic list dataflow, stated in the evidence.",
   technique="native-execution differential monitor (JIT code vs reference interpreter; AArch64 on an instruction-word executor) + sanitizer build + symbolic dataflow over disassembly"),
 "C06": dict(category="exploration",
   text="Runtime monitoring with compilers as the ABI oracle: generated C probe functions over integer/float/vector/mmx/mask signatures (up to 32 arguments, varargs) are compiled by gcc 12 and clang 14 for every convention (SysV x86-64, ms_abi/Win64, vectorcall, cdecl, stdcall, fastcall, thiscall, regparm1-3, AAPCS64, Apple arm64) and the argument/return locations, callee-pop size, red/spill zones and preserved sets are read from the assembly; FuncDetail/CallConv answers of the ASan+UBSan build are compared with them where the compilers agree (ambiguous signatures: no verdict); native interop on x86-64 (JIT caller <-> compiled callee and the reverse, SysV and ms_abi, light-call pairs) checks values end to end; emit_args_assignment is exercised with generated assignments (permutation cycles, chains, self-moves needing extension, stack<->reg<->stack, scratch exhaustion, conversions) - executed natively on x86-64 and by a byte-level symbolic executor over objdump/llvm-objdump output for x86-32 and AArch64, with a per-case hang watchdog.",
   design_ref="DESIGN.md section 2, C06", note="Windows-only conventions have clang as the single oracle; x86-32 and AArch64 entry sequences are executed symbolically only.",
   technique="compiler-probe differential monitor + native interop execution + symbolic execution of entry sequences, sanitizer build"),
 "C07": dict(category="exploration",
   text="Runtime monitoring: 2.8e5 (quick) / 4e6 (thorough) random and boundary FuncFrames; prolog + generated monitor body + epilog are executed natively on x86-64 (register/canary trampoline), on x86-32 through a compatibility-mode far-call gate, and AArch64 prolog/epilog are interpreted symbolically from llvm-mc's disassembly; preserved registers (ABI documents, not asmjit tables), SP, alignment, canaries, stack-argument reads and pairwise disjointness of the reported areas are checked; frames the Compiler derives for functions with 2-6 call sites of different stack-argument sizes (x86-64, x86-32, AArch64) are read back after finalize(): the call area must cover the largest invoke and stay disjoint from the local area.",
   design_ref="DESIGN.md section 2, C07", note="AArch64 is not executed (symbolic SP/slot tracking); light-call/custom conventions are judged against their own preserved masks; low 128 bits of vector registers compared.",
   technique="native execution monitor (register image + canaries) + symbolic prolog/epilog interpreter"),
 "C10": dict(category="exploration",
   text="Runtime monitoring under ASan+UBSan: 1.6e4 (quick) / 1e6 (thorough) random section tables (names, alignments, orders, empty/data/virtual-only sections, address table, JitRuntime::add) laid out by the real flatten()/relocate_to_base()/copy_* code and compared with an independent layout function; destination buffers with canaries and ASan red zones, every destination byte classified.",
   design_ref="DESIGN.md section 2, C10", note="Alignment demanded of non-empty sections only; order checked between sections with different order values.",
   technique="sanitizer build + reference layout monitor + guard-banded destination buffers"),
 "C11": dict(category="exploration",
   text="Runtime monitoring with gcc ThreadSanitizer (6 repetitions quick, 50 thorough; 2..16 threads on one JitAllocator and one JitRuntime plus a thread walking hook H2, and threads generating code with private objects whose bytes are compared with the single-threaded result) and the same workload under ASan with the C09 content/overlap oracle; TSan reports de-duplicated by outermost asmjit frame pair; evidence lists the (op, op) pairs observed overlapping in time. Additionally 400 (quick) fresh processes race the FIRST CpuInfo::host()/JitRuntime construction of 2-8 threads: every thread must see the complete host description.",
   design_ref="DESIGN.md section 2, C11", note="TSan sees only interleavings that occur; host information is initialised on the main thread first (the property's precondition).",
   technique="ThreadSanitizer + concurrent history monitor (interval set, owner stamps, hook H2)"),
 "C12": dict(category="exploration",
   text="Runtime monitoring by native execution: every host-executable x86-64 database form x several register assignments x random full machine images (GP, RFLAGS, x87/MMX, ZMM0-31, k0-7, guard-banded memory) is assembled by x86::Assembler and run between a state-load prologue and state-store epilogue; every changed byte/flag must be covered by InstAPI::query_rw_info (written operands, byte masks, zero extension, memory, flags); state reported as not read is perturbed and the instruction re-run (defined results identical); kRegMem/rm_size replacement forms are validated, assembled and executed for equal results; reported features vs host CPUID/SIGILL and the database ext; consecutive-register runs on x86 and AArch64 register lists; API answers vs the database record for every form under ASan, and the generated tables re-derived with the repository's tablegen on a scratch copy and compared. Every query is repeated into InstRWInfo objects pre-filled with 0xFF/0xA5 (the answer must not depend on the previous content); EVEX forms are additionally queried with one vector operand at id 16/31 and no {evex} hint.",
   design_ref="DESIGN.md section 2, C12", note="Execution oracle covers only forms the sandbox CPU executes in ring 3 (others: table/database comparison only); undefined flags per the database are not judged.",
   technique="native-execution state-diff monitor + sanitizer build + generated-table differential"),
 "C14": dict(category="exploration",
   text="Runtime monitoring under ASan+UBSan: 2.3e5 (quick) arbitrary (id, options, extra register, operands) tuples per run through x86 Assembler/Builder/Compiler with returning, throwing and absent error handlers; for every failing call the driver records byte/label/fixup/relocation/section/node deltas, one-shot state and handler invocations; successful calls go to the C01 oracles; probe programs emitted between failures and at the end are compared with a fresh emitter; a second driver interleaves valid and invalid label/section/align/data API calls on x86 and AArch64.",
   design_ref="DESIGN.md section 2, C14", note="Arbitrary operand kinds on x86 only (AArch64 has no operand validator); on AArch64 every database form keeps its operand kinds and all ids, lanes, shifts, extends, immediates and offsets are perturbed out of range (21k unencodable cases per quick run, LLVM as the referee for the marking) and must be refused without residue.",
   technique="sanitizer build + state-delta monitor at the API boundary + probe-program differential"),
 "C15": dict(category="fault_enumeration",
   text="Fault enumeration by runtime injection: for 20 workloads (assemble, build, compile on x86-64/x86-32/AArch64, JitRuntime::add incl. dual mapping and the shm fallback, containers, const pool, strings) every k-th arena request (hook H1), heap request (--wrap malloc/realloc/calloc) and virtual-memory request (--wrap mmap/ftruncate/shm_open/memfd) fails once, stickily, and twice at the same call site; each armed run executes in a forked worker under ASan+UBSan+LSan; the API must report an error or produce the clean output, a retry on the same objects must reproduce the clean bytes, and malloc/mmap/fd balances must return to the pre-case level. Workloads with one-shot instruction state ({k}, {z}, rep, lock, options, inline comments) also run in a continue mode (the refused call is skipped, the result must equal a failure-free run without it) and one-shot state must be clear after every refused emit.",
   design_ref="DESIGN.md section 2, C15", note="Exhaustive over k for these workloads and failure modes only; multi-failure patterns beyond 'twin' are random (thorough).",
   technique="fault injection at allocation hooks + sanitizers + retry/leak oracle"),
 "C19": dict(category="exploration",
   text="Runtime monitoring under ASan+UBSan: all add() sequences up to length 7 (quick) / 9 (thorough) over nine 6-element alphabets plus random/adversarial sequences to 2e4 adds and pools written out by Assembler/Builder/Compiler; a byte-map/interval model checks alignment, stability, deduplication, legal sharing only, fill() contents and zero gaps with canaries; x86-64 code loads every constant through the returned operand.",
   design_ref="DESIGN.md section 2, C19", note="Only the stated alphabets/lengths are enumerated completely.",
   technique="sanitizer build + reference-model monitor (bounded-exhaustive + random sequences)"),
 "C20": dict(category="exploration",
   text="Runtime monitoring under ASan+UBSan: the C01 (x86-32/x86-64) and C02 (AArch64) case streams are emitted with a StringLogger attached under complementary FormatFlags sets (all 256 sets in the thorough tier); every logged line is tokenised by an independent parser and compared token by token with the operands that were given (mnemonic, prefixes/options, register names and sizes, memory size/segment/base/index/scale/displacement/broadcast, immediates, masks, label names); the machine-code column is compared with the bytes appended; x86 lines are additionally cross-compared with objdump's decoding of the emitted bytes; Formatter::format_instruction/format_operand/format_node are called directly with an Assembler, a Compiler (named and unnamed virtual registers, all label kinds) and no emitter.",
   design_ref="DESIGN.md section 2, C20", note="The text appended by kExplainImms after an immediate is not judged; objdump cross-check only where xdec confirms the encoding.",
   technique="sanitizer build + independent tokeniser/round-trip monitor over logger output + decoder differential"),
})

NOT_YET = {}


# Round 11 (see DESIGN.md section 11): what each check additionally drives and observes, and notes that changed.
ROUND11 = {
 "C01": ("Round 11: implicit operands omitted (typed-API shapes), ModMR/ModRM on every prefix class, kLongForm on non-branches, per-case EncodingOptions (branch hints, size optimisation), the address-size x index-type matrix of every memory operand, disp8*N boundaries under every addressing style; accepted cases outside every database form of the mnemonic (immediate past its field, illegal/wrong broadcast) are violations.", None),
 "C02": ("Round 11: immediates >= 2^32 in every slot, AdvSIMD modified immediates (movi/mvni/orr/bic) with an independent AdvSIMDExpandImm, shape-level negatives (sibling-form shapes, wrong id kind, extra operand, W base, absolute address, index+offset, label+index, stray lane index), one-operand arrangement views, shift limits at every arrangement, every system register name, 22 supplemental Arm-ARM records, operands rebuilt through the public a64operand.h builders; an instruction name without any accepted case makes the run inconclusive.", None),
 "C03": ("Round 11: emit-time rejections are judged against the form's range, named (global/local/anonymous-with-name) labels, labels bound far beyond the buffer (+-2 GiB and every AArch64 limit in the quick tier), addends at both ends of int32, an intermediate and a repeated flatten/resolve pass, xbegin / hinted jcc / rex jmp,call / bc.cond / prfm literal, 1- and 2-byte embed_label.", "AArch64 and x86-32 are judged statically (no execution)."),
 "C04": ("Round 11: prefixed/hinted/rex branches to absolute targets (rel8, rel32 and via .addrtab), emit-time rejection of a reachable target is a violation and is compared across the two builds, mem[abs+index], labels and sites in a section ordered behind .addrtab, 1/2-byte embed_label, x86-32 [rip+disp], mod_rm()/mod_mr() accumulator moves.", None),
 "C05": ("Round 11: x86-32 programs are executed natively through a 64->32 far-call gate and AArch64 programs on an instruction-word executor (about 95 classes from the Arm ARM), both compared with the reference interpreter; callee-saved registers and SP are checked after every return on all three targets; call targets in registers/memory, ms_abi and variadic callees, vector/float arguments, narrower vregs as stack arguments; mulx, cmpxchg8b/16b, blendv(xmm0), rep string ops, maskmovdqu, lahf/sahf, jecxz/loop; a64 cbz/tbz, write-back addressing, ld1-4/st1-4 multi/replicate/lane forms and tbl/tbx inside control flow with calls; three functions per Compiler with shared vregs; kRAAnnotate off in half of the compiles.", "An AArch64 instruction word unknown to the executor makes that program inconclusive (more than 2 % of programs: the run exits 2)."),
 "C06": ("Round 11: workload D executes call sites symbolically (a Compiler function of convention A invoking a callee of convention B over every platform convention and light-call on x86-64, x86-32, AArch64 Linux/Apple: argument locations at the call, stack alignment, stores confined to the call area, preserved set and live values at ret, one/two return registers); natively: values live across calls, JIT functions calling a helper of the other convention that overwrites every volatile register, targets in registers; natural_stack_alignment and FuncValue type/register type are compared; ambiguous signatures must match one compiler; stack->mask/MMX moves; refusals keyed by feature.", None),
 "C07": ("Round 11: Compiler-derived frames under register pressure (live count biased to the caller-saved set, loops, fixed-register ops, invokes of weaker conventions): every register written per query_rw_info or clobbered by a callee must be in saved_regs() if the ABI table preserves it (all architectures), and on the host the functions run between sentinel-filled register images with varying SP phase; requested stack-slot alignment vs frame and executed addresses; refusals of finalize/emit_prolog/emit_epilog are violations; entry SP alignment from the ABI table; a64 SP 16-byte rule independent of the promise.", None),
 "C08": ("Round 11: annotated jumps (JumpNode), kTaken/kNotTaken and REX option bits, labels created by the CodeHolder / another emitter / new_label_node, the Compiler's global constant pool, hand-made nodes of every kind, removal of inactive nodes, full state comparison in front of a refused call, and go-on replays that continue after a refusal.", "Func/invoke nodes are out of reach without functions (C05 covers them); logger text differences are reported without verdict."),
 "C09": ("Round 11: requested (custom/default) fill pattern vs memory and accessor, requests of 2^31..SIZE_MAX bytes, queries next to live spans, shrink through stale spans, release() of padding/interior/released pointers, overhead_size() against a calibrated linear model, invalid CreateParams -> defaults, dense histories (1500 live spans), /proc/self/maps vs reserved_size(), WriteScope and cache policies.", None),
 "C10": ("Round 11: section flags and names as attributes (section_by_name), .text virtual sizes, (order,id) ordering, every non-section byte zero under kPadSectionBuffer incl. uncovered gaps (also in dirtied JitRuntime memory), copy before relocation, relocation without summary, sections with null buffers, the JIT span queried and a neighbour allocated after add().", "flatten() and relocate_to_base() are documented to be called once: a second flatten() is a counted observation, a second relocation is not driven."),
 "C11": ("Round 11: close()/mmap()/munmap() made by libasmjit.a are wrapped and judged (descriptor must be open and not a harness thread's; only own mappings unmapped), sentinel threads own descriptors, threads create/use/destroy private JitAllocator/JitRuntime objects (dual mapping, immediate release) and compare added code with single-threaded bytes, lock-free reader threads, wider emitter slice (validation, InstAPI hashes, a64/x86-32 Builder, const pools, sections, relocations), real shrinks in add() under contention, first use of VirtMem statics raced.", None),
 "C12": ("Round 11: phys_id / kRegPhysId / kMemPhysId against the database and the assembler, zero-extension claims judged byte by byte, {k}/{k}{z} with plain memory operands, rm_feature against the database ext of the emitted memory form, {vex}/{vex3} queries, kMovOp and kUnique executed oracles, 32-bit mode forms executed through a far-call gate.", None),
 "C13": ("Round 11: the whole C01 sweep emitted with validation on and off (validation-refuses-encodable), vendored list keyed by (form, instantiation) incl. memory alternative, implicit-omitted shape and lock/xacquire/xrelease/rep/repne capabilities (30205 keys), memory mutations (size class, broadcast, immediate, segment 7), Builder and Compiler (virtual registers) under kValidateIntermediate compared with InstAPI::validate.", None),
 "C14": ("Round 11: virtual-range register ids and register-home operands, handler on the emitter instead of the holder, emitters detached/reset/destroyed and re-attached, a routing driver over random attachment histories (exactly one call to the right handler, also from finalize()), the x86 Assembler without strict validation, failing lines replayed into a second Builder/Compiler and finalized, invalid align/size/TypeId/repeat arguments on all six emitters, throwing handlers in misuse scripts; AArch64 refusals with armed one-shot state, throwing handlers, probes after failures and a Builder finalize pass.", None),
 "C15": ("Round 11: callers that continue after a refused call (Assembler/Builder/Compiler call lists and ConstPool) compared with a failure-free reference that omits exactly the refused calls; a 'who reports' oracle; munmap lengths/results and double close/unlink; immediate/by-reference invoke arguments, st0 returns, register lists; Compiler under failing reinit; static-memory arenas; large pages.", None),
 "C16": ("Round 11: user-set holder/section state (init with CPU features, .text alignment/flags/offset/virtual size), per-function calling convention/AVX/FP settings, attachment list and internal containers in the state snapshot, an arena watch that poisons/quarantines memory retained over a soft reset (ASan use-after-poison on stale pointers), calls on detached emitters, an emitter migrating to a second live holder and back.", "In non-quarantine histories a stale use of arena memory already handed out again is seen through the output only."),
 "C17": ("Round 11: AdvSIMD modified immediates both directions, SIMD shift/#fbits amounts for 38 mnemonics, orn/eon rows, mov to sp/zr, the assembler's own displacement path with known base (14/19/21-bit exhaustive, 26-bit exhaustive in thorough), load/store offset immediates (scaled/unscaled fallback).", None),
 "C18": ("Round 11: self-aliased arguments (append/assign/concat/and_/or_/swap with itself), move construction with the source overwritten, impossible sizes (wrap, 2^63, malloc-refused) on Arena/BitSet/String, shards under a 1 MiB allocator limit, growth above 16 MiB, the hash prime table up to index 48, 32-bit bit words and BitOps helpers, small accessor API.", "Models and invariant walkers in drv/drv_containers.cpp are trusted harness code; three API members do not compile when instantiated and cannot be driven."),
 "C19": ("Round 11: typed new_*_const wrappers of both Compilers (also 32-bit x86), invalid scopes, arena failures anywhere inside _new_const and inside Builder embed_const_pool with re-embed, pools embedded with a logger after a refusal, pools up to 160 KB and in a second section, is_empty() after every hand-out, floors on sharing/gap-reuse/execution counters.", None),
 "C20": ("Round 11: kExplainImms text against the meaning of the imm8 bits (SDM tables confirmed on the host CPU), logger layouts with indentation/padding/inline comments, a directive stream (bind/align/embed/embed_data_array/embed_label/embed_label_delta/section/comment) whose log lines must denote the appended bytes and the same directives as nodes through format_node, register-home memory, label base with index, rep count register, very long names.", None),
}
for _p, (_t, _n) in ROUND11.items():
    CHECKS[_p]["text"] += " " + _t
    if _n:
        CHECKS[_p]["note"] = _n

ROUND12 = {
 "C01": "Round 12: absolute (base-less) memory operands x address type {abs, rel, default} x CodeHolder base {none, 0, low, > 4 GiB} x requested address up to the +-2 GiB reach x forms with and without a trailing immediate; the designated address is recomputed from the bytes.",
 "C09": "Round 12: request sizes computed from the allocator's geometry (exact fit into the block a pool maps next, +-1 granule) in random and bounded-exhaustive histories, followed by soft reset / shrink + tail allocation / release-all; after every reset formerly live pointers must be unknown and the retained block allocatable.",
 "C12": "Round 12: forms with read-only segment-register operands are executed; every free GP operand is run at every width validator and assembler accept, with the register preloaded non-zero so that the upper half is judged.",
 "C14": "Round 12: bursts of settings events (logger on holder/emitter, holder error handler, clear+add diagnostic options) after each attach and inside the call stream; x86-32 REX requests (rex(), REX.B/X/R/W) must be refused by Assembler, isolated Builder/Compiler finalize and the routing driver.",
}
for _p, _t in ROUND12.items():
    CHECKS[_p]["text"] += " " + _t

ROUND13 = {
 "C11": "Round 13: requests whose block mapping is refused (mmap wrapped in both flavours) while >= 2 other threads are inside allocator calls.",
 "C14": "Round 13: one-shot state armed in front of failing label/section/align/embed calls on all six emitters; a failing call must clear what a successful call of the same kind clears.",
 "C19": "Round 13: counterexamples are written out as witnessed and read back from children that die later (RSS limit, watchdog).",
 "C20": "Round 13: every case is emitted by the instruction id of the C++ enum, so the mnemonic oracle does not depend on string_to_inst_id().",
}
for _p, _t in ROUND13.items():
    CHECKS[_p]["text"] += " " + _t

def main():
    props = [json.loads(l) for l in open(os.path.join(HERE, "properties.jsonl"))]
    hooks = subprocess.run(["git", "-C", "/repo", "log", "--format=%H %s"], capture_output=True, text=True).stdout.splitlines()
    hook_commits = [l.split()[0] for l in hooks if " verif hook " in " " + l]
    checks = []
    na = []
    for p in props:
        pid = p["id"]
        c = CHECKS.get(pid)
        if not c:
            na.append({"property_id": pid, "reason": NOT_YET.get(pid, "check not built yet in this round (runtime monitor planned in DESIGN.md); not claimed until it runs clean on the unchanged tree")})
            continue
        checks.append({
            "property_id": pid,
            "quick_cmd": "./check %s --tier quick" % pid,
            "thorough_cmd": "./check %s --tier thorough" % pid,
            "evidence_file": "evidence/%s.json" % pid,
            "replay_cmd_template": "./check %s --replay {path}" % pid,
            "engine": c.get("engine", "drivers"),
            "level_claimed": {"category": c["category"], "text": c["text"], "design_ref": c["design_ref"]},
            "level_note": c["note"],
            "technique": c["technique"],
        })
    m = {
        "version": 1,
        "setup_cmd": "./setup.sh",
        "hooks": {
            "guard": "ASMJIT_VERIF",
            "enable": "vlib/build.py compiles /repo/asmjit/**/*.cpp (current working tree) with -DASMJIT_VERIF -DASMJIT_STATIC into per-sanitizer static archives (asan+ubsan, tsan, plain) cached by source hash under /verif/.cache",
            "baseline_off_cmd": "./baseline_off.sh",
            "source_commits": hook_commits,
            "add_only": True,
        },
        "engines": [
            {"name": "drivers", "path": "drv/", "serves_properties": sorted(CHECKS), "kind_free_text": "C++ drivers linked against sanitizer-instrumented static builds of the working tree; oracles in the drivers and in vlib/props/*.py"},
        ],
        "checks": checks,
        "notes": "All checks: ./check <id> [--tier quick|thorough] [--replay file]; VERIF_SEED selects the PRNG stream. exit 0 held / 1 VIOLATION / 2 harness failure or inconclusive. known_findings.json lists genuine defects (known or fixed).",
        "not_applicable": na,
    }
    json.dump(m, open(os.path.join(HERE, "MANIFEST.json"), "w"), indent=1)
    print("checks:", [c["property_id"] for c in checks], "n/a:", len(na))

if __name__ == "__main__":
    main()
