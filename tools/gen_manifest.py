#!/usr/bin/env python3
"""Generates /verif/MANIFEST.json from the table below (single source of truth for what is claimed)."""
import json, os, subprocess
HERE = os.path.dirname(os.path.dirname(os.path.abspath(__file__)))

CHECKS = {
 "C01": dict(
   category="exploration",
   text="Runtime monitoring of the real x86 assembler (ASan+UBSan build, strict validation): every database form x mode x systematic operand/prefix/decoration variants (1.3e5 emits quick, ~2e6 thorough) judged by three monitors: our field-level decoder applying the database's encoding rule to the case, GNU objdump's reading of AsmJit's bytes vs. its reading of the same instruction assembled by llvm-mc, and instruction-length agreement of objdump/LLVM. Held on the cases emitted; forms unknown to both decoders get the database-rule verdict only.",
   design_ref="DESIGN.md section 2, C01", note="Trusts objdump 2.40, LLVM 14, vlib/xdec.py and vlib/x86text.py (harness). UBSan shift-base disabled (arithmetic shifts of negatives are defined behaviour for the compilers/standard the tree targets).",
   technique="sanitizer build + differential decoding against independent assembler/decoders + database-rule decoder"),
 "C09": dict(
   category="exploration",
   text="Runtime monitoring: bounded-exhaustive (depth 5 quick / 6 thorough over a small op alphabet) and random histories (to 1e5 ops) of the real JitAllocator under ASan+UBSan, every step judged by a sequential model (interval map, shadow contents, statistics, reuse, fill pattern, retention policy) and by hook H2 walking the allocator's bookkeeping under its own lock. Held on the histories executed, nothing more.",
   design_ref="DESIGN.md section 2, C09",
   note="Trusts the model in drv/drv_jitalloc.cpp, gcc ASan/UBSan, and that hook H2 only reads state. Large pages unavailable here (fallback path only).",
   technique="sanitizer build + reference-model monitor over operation histories + invariant hook"),
 "C13": dict(
   category="exploration",
   text="Runtime monitoring over the public API: every database form in allowed and excluded modes plus near-miss mutations, each validated directly, emitted with and without strict validation; verdicts and bytes compared; vendored list of forms accepted by the pinned release; name round trip over all ids of x86/x64/AArch64 and every alias spelling.",
   design_ref="DESIGN.md section 2, C13", note="AArch64 has no operand validator: only its names are judged here. 'Implemented' = vendor/implemented_x86.json generated from the pinned tree.",
   technique="differential monitoring of validator vs. encoder verdicts under sanitizers"),
 "C17": dict(
   category="exploration",
   text="Runtime monitoring of the displacement and immediate codecs under ASan+UBSan: every offset format the back ends construct (collected at run time) and a grid of generic formats, exhaustively for fields <= 21 bits (quick) / 26 bits (thorough) plus bands outside the range, judged by independent decoders; all AArch64 logical immediates (ground truth by decoding every N:immr:imms), all FP8 immediates, add/sub, move-wide sequences and bitfield positions through the public emitter, sampled cross-check with llvm-mc. exhaustive_subspaces in the evidence name what was enumerated completely.",
   design_ref="DESIGN.md section 2, C17", note="Thumb/A32 split formats are not constructed by any back end: memory-safety only, no codec verdict. Fields wider than the exhaustive limit are sampled.",
   technique="exhaustive/randomised codec round-trip monitoring with independent decoders under sanitizers"),
 "C18": dict(
   category="exploration",
   text="Runtime monitoring under ASan+UBSan+LSan: random operation scripts interleaved across 13 container/string harnesses sharing one Arena, compared with std:: models after every step, structural invariant walks (red-black, hash reachability, list links, null termination), live-block interval map for raw arena blocks, injected allocation failures via hook H1.",
   design_ref="DESIGN.md section 2, C18", note="Models and invariant walkers in drv/drv_containers.cpp are trusted harness code; String heap failures are not injectable (malloc).",
   technique="sanitizer build + reference-model monitors (std:: containers) + invariant walks + fault injection"),
}

NOT_YET = {}

def main():
    props = [json.loads(l) for l in open(os.path.join(HERE, "properties.jsonl"))]
    hooks = subprocess.run(["git", "-C", "/repo", "log", "--format=%H %s"], capture_output=True, text=True).stdout.splitlines()
    hook_commits = [l.split()[0] for l in hooks if " verif hook " in " " + l]
    checks = []
    na = []
    for p in props:
        pid = p["id"]
        c = CHECKS.get(pid)
        if not c:
            na.append({"property_id": pid, "reason": NOT_YET.get(pid, "check not built yet in this round (runtime monitor planned in DESIGN.md); not claimed until it runs clean on the unchanged tree")})
            continue
        checks.append({
            "property_id": pid,
            "quick_cmd": "./check %s --tier quick" % pid,
            "thorough_cmd": "./check %s --tier thorough" % pid,
            "evidence_file": "evidence/%s.json" % pid,
            "replay_cmd_template": "./check %s --replay {path}" % pid,
            "engine": c.get("engine", "drivers"),
            "level_claimed": {"category": c["category"], "text": c["text"], "design_ref": c["design_ref"]},
            "level_note": c["note"],
            "technique": c["technique"],
        })
    m = {
        "version": 1,
        "setup_cmd": "./setup.sh",
        "hooks": {
            "guard": "ASMJIT_VERIF",
            "enable": "vlib/build.py compiles /repo/asmjit/**/*.cpp (current working tree) with -DASMJIT_VERIF -DASMJIT_STATIC into per-sanitizer static archives (asan+ubsan, tsan, plain) cached by source hash under /verif/.cache",
            "baseline_off_cmd": "./baseline_off.sh",
            "source_commits": hook_commits,
            "add_only": True,
        },
        "engines": [
            {"name": "drivers", "path": "drv/", "serves_properties": sorted(CHECKS), "kind_free_text": "C++ drivers linked against sanitizer-instrumented static builds of the working tree; oracles in the drivers and in vlib/props/*.py"},
        ],
        "checks": checks,
        "notes": "All checks: ./check <id> [--tier quick|thorough] [--replay file]; VERIF_SEED selects the PRNG stream. exit 0 held / 1 VIOLATION / 2 harness failure or inconclusive. known_findings.json lists genuine defects (known or fixed).",
        "not_applicable": na,
    }
    json.dump(m, open(os.path.join(HERE, "MANIFEST.json"), "w"), indent=1)
    print("checks:", [c["property_id"] for c in checks], "n/a:", len(na))

if __name__ == "__main__":
    main()
