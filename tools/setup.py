#!/usr/bin/env python3
import os, sys
HERE = os.path.dirname(os.path.dirname(os.path.abspath(__file__)))
sys.path.insert(0, HERE)
from vlib import build
DRIVERS = [("drv_jitalloc", "asan"), ("drv_emit", "asan"), ("drv_codec", "asan"), ("drv_containers", "asan"), ("drv_constpool", "asan"),
           ("drv_sections", "asan"), ("drv_labels", "asan"), ("drv_emit_a64", "asan"), ("drv_threads", "tsan"), ("drv_threads", "asan"), ("drv_reject", "asan"), ("drv_api14", "asan")]
def main():
    for fl in ("asan", "tsan", "plain"):
        build.build_lib(fl)
    from vlib import isadb
    isadb.x86_forms()
    for name, fl in DRIVERS:
        if os.path.exists(os.path.join(HERE, "drv", name + ".cpp")):
            try:
                build.build_driver(name, fl)
            except build.BuildError as e:
                # drivers with special link flags are built by their checks; setup only warms the cache
                print("setup: %s/%s not prebuilt (%s)" % (name, fl, str(e)[:120]))
    print("setup ok")
if __name__ == "__main__":
    main()
