#!/usr/bin/env python3
import os, sys
HERE = os.path.dirname(os.path.dirname(os.path.abspath(__file__)))
sys.path.insert(0, HERE)
from vlib import build
DRIVERS = [("drv_jitalloc", "asan")]
def main():
    for fl in ("asan", "tsan", "plain"):
        build.build_lib(fl)
    for name, fl in DRIVERS:
        if os.path.exists(os.path.join(HERE, "drv", name + ".cpp")):
            build.build_driver(name, fl)
    print("setup ok")
if __name__ == "__main__":
    main()
