#!/usr/bin/env python3
"""usage: tools/seed_prompt.py <PROP> <N>  - creates the scratch worktree /tmp/seed-<PROP>-<N> and prints the prompt for a blind
seeding agent: the property text and the worktree only, nothing from /verif. For N > 1 the one-line descriptions of the earlier
seeded changes of the same property are passed along so that the new change uses a different mechanism."""
import json, os, subprocess, sys
HERE = os.path.dirname(os.path.dirname(os.path.abspath(__file__)))
prop, n = sys.argv[1], int(sys.argv[2])
P = None
for l in open(os.path.join(HERE, "properties.jsonl")):
    d = json.loads(l)
    if d["id"] == prop:
        P = d
W = "/tmp/seed-%s-%d" % (prop, n)
if not os.path.isdir(W):
    subprocess.check_call(["git", "-C", "/repo", "worktree", "add", "--detach", W, "HEAD"], stdout=subprocess.DEVNULL, stderr=subprocess.DEVNULL)
earlier = []
for k in range(1, n):
    m = os.path.join(HERE, "seeded", "%s-%d" % (prop, k), "meta.json")
    if os.path.exists(m):
        mm = json.load(open(m))
        earlier.append("%s: %s" % (", ".join(mm.get("files_changed", [])), str(mm.get("what_breaks", ""))[:300]))
T = open(os.path.join(HERE, "tools", "seed_prompt.txt")).read()
avoid = ""
if earlier:
    avoid = "\nEarlier seeded changes for this property (choose a DIFFERENT file/function/mechanism, and a different part of the property statement):\n" + "\n".join("  - " + e for e in earlier) + "\n"
print(T.replace("@W@", W).replace("@ID@", prop).replace("@TITLE@", P["title"]).replace("@STATEMENT@", P["statement"])
       .replace("@QUANT@", P["quantifier"]["text"]).replace("@FILES@", ", ".join(P["anchors"]["files"])).replace("@AVOID@", avoid))
