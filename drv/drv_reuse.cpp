// C16 driver: reset / reinit / reuse of CodeHolder and emitters leaves no residue.
// Harness code (not part of asmjit); asmjit is driven through its public API only.
//
// One case = one HISTORY over ONE CodeHolder plus Assembler / Builder / Compiler objects (x86 family and AArch64
// family): init(env) / attach / generate program P_i / finalize or not / post-process (flatten, relocate) / detach /
// one-shot state left pending / reset(soft) / reset(hard) / reinit / destroy+recreate an emitter / logger, error handler
// and diagnostic option changes / heap noise. Whenever the objects are in a CLEAN state (holder just initialised or
// re-initialised, emitter attached and unused) a PROBE program Q is generated on the recycled objects and everything
// the holder exposes (error code of every call, sections, labels, relocations, fixups, flattened + relocated image)
// is compared with Q generated on completely fresh objects in the canonical configuration (dynamic arena, no logger,
// no handler, no RA diagnostics). APPEND probes generate Q behind earlier clean programs in the same holder / the
// same Builder / Compiler (many functions per Compiler) and compare Q's slice with Q generated alone.
//
// Further steps: TWEAK (the user sets alignment / flags / offset / virtual size of the built-in .text section directly), holders
// initialised through either init() overload with one of several CPU feature sets (kept by reinit(), dropped by reset(); the x86
// allocator reads them), POKE (every public call on a DETACHED emitter must answer, call handlers and leave state exactly like an
// emitter that was never attached), TO_OTHER_HOLDER / BACK (an emitter leaves the first holder - which lives on, is used, reset,
// re-initialised, destroyed - generates a program in a SECOND live holder, is finalized there later and compared with fresh
// objects, then comes back). Compiler functions draw calling convention, AVX / AVX-512, preserved FP and unavailable registers per
// function. In the ASan build an ARENA WATCH poisons / quarantines what arenas retain over soft resets (see below).
//
// Modes:  (default) run histories [first, first+histories)   --only N : just history N (+ --dump: narrate)
//         --shrink with --only N : delta-debug history N in fork()ed children, print the minimal history and its key
//
// ADDRESS INDEPENDENCE. The output of a call sequence must not depend on where the allocator placed a section buffer.
// The same source is built twice: with ASan/UBSan (memory errors; ASan's allocator puts every block of more than
// ~200 bytes on a 64-byte boundary unless max_redzone is lowered, which c16.py does per shard) and PLAIN (glibc malloc:
// 16-byte granules, so a section buffer lands on every residue mod 64). Before a history, before every fresh control
// and between the two fresh "twins" the heap is perturbed deterministically from the case RNG (heap_perturb); a
// control / twin is steered onto a residue that differs from the run it is compared with when the allocator allows it.
// The residues (address of .text mod 64) of all compared runs are reported. The probe programs use every legal
// alignment (1..64) in every align mode at offsets that are not multiples of it, and constant pools whose alignment
// is 16 / 32 / 64 (embed_const_pool on every emitter kind, Compiler::new_const in both scopes).
#include <asmjit/x86.h>
#include <asmjit/a64.h>
#include "vcommon.h"

#if defined(__SANITIZE_ADDRESS__)
#include <sanitizer/lsan_interface.h>
static const bool kAsanBuild = true;
static inline int leak_check_now() { return __lsan_do_recoverable_leak_check(); }
#else
static const bool kAsanBuild = false;
static inline int leak_check_now() { return 0; }
#endif
#include <sys/wait.h>
#include <unistd.h>
#include <fcntl.h>
#include <signal.h>
#include <algorithm>
#include <memory>
#include <tuple>

using namespace asmjit;
typedef unsigned long long ull;

enum { K_ASM = 0, K_BLD = 1, K_CMP = 2 };
enum { A_X64 = 0, A_X86 = 1, A_A64 = 2 };
static const char* kKindNames[3] = { "asm", "bld", "cmp" };
static const char* kArchNames[3] = { "x64", "x86", "a64" };
static inline int fam_of(int arch) { return arch == A_A64 ? 1 : 0; }
static inline Arch arch_of(int a) { return a == A_X64 ? Arch::kX64 : a == A_X86 ? Arch::kX86 : Arch::kAArch64; }
static inline uint64_t base_of(int a) { return a == A_X64 ? 0x00007F1200010000ull : a == A_X86 ? 0x08040000ull : 0x0000007F00100000ull; }

static bool g_dump = false;
static bool g_neutralize = false;   // debugging aid: work around the two known defects so that the check can look past them
static int g_viol_fd = -1;   // shrink children report violations the moment they are seen (the process may die right after)
#define DBG(...) do { if (g_dump) { fprintf(stderr, __VA_ARGS__); fputc('\n', stderr); } } while (0)

// ---- what the workload did with alignments (measured, reported as evidence) ---------------------------------
static const char* kAlignModeNames[3] = { "code", "data", "zero" };
static uint64_t g_align_unaligned[2][3][7];   // [family][mode][log2 alignment]: align() calls at an offset that is NOT a multiple of the alignment
static uint64_t g_align_total[2][3][7];
static uint64_t g_align_model_mismatch = 0;   // assembler offset after align() != offset predicted from the calls (statistics only)
static uint64_t g_pool_embeds[2][3][7];       // [family][kind][log2 pool alignment]: embed_const_pool() calls
static uint64_t g_pool_unaligned[2][3][7];    //   ... at an offset that is not a multiple of the pool alignment
static uint64_t g_new_const[2][2][7];         // [family][scope][log2 size]: Compiler::new_const() calls
static bool g_count_probe_calls = false;

// ---- CPU features a holder is initialised with (CodeHolder::init(env, features, base): kept by reinit(), dropped by reset()).
// Selector 0 = the two-argument overload init(env, base); 1 .. 3 = the three-argument overload with one of the sets below.
// The x86 register allocator reads them (an operand that may be turned into a memory operand only when a feature is present).
enum { kNumFeatSel = 4 };
static CpuFeatures feat_of(int arch, int sel) {
  CpuFeatures f;
  if (arch == 2 /* A_A64 */) {
    if (sel >= 2) f.add(CpuFeatures::ARM::kASIMD, CpuFeatures::ARM::kFP);
    if (sel >= 3) f.add(CpuFeatures::ARM::kSVE, CpuFeatures::ARM::kLSE);
  }
  else {
    if (sel >= 2) f.add(CpuFeatures::X86::kSSE2, CpuFeatures::X86::kSSE4_1, CpuFeatures::X86::kAVX, CpuFeatures::X86::kAVX2);
    if (sel >= 3) f.add(CpuFeatures::X86::kAVX512_F, CpuFeatures::X86::kAVX512_BW, CpuFeatures::X86::kAVX512_VL);
  }
  return f;
}

// ---- per-function variation of Compiler functions (calling convention, AVX / AVX-512 enabled, preserved frame pointer, registers
// made unavailable): one code per add_func(), logged so that the interpreter knows what the functions of one Compiler looked like
static std::vector<uint32_t> g_fn_log;
static uint64_t g_fn_variants[2][64];          // [family][variant code & 63]: functions generated by probes
static uint64_t g_fn_cc[3][8];                 // [architecture][calling convention slot]: functions / invoked signatures of probes
static uint64_t g_invoke_cc[3][8];

// ---- heap perturbation: moves every later allocation (section buffers!) without touching the script ------------------
static std::vector<void*> g_kept;
static uint64_t g_perturb_calls = 0, g_perturb_blocks = 0, g_perturb_kept = 0;
// `plug` > 0: additionally a block of that size is allocated and kept - it occupies the hole a just-freed section buffer left, so
// that the next buffer of that size cannot simply move back in (used when a control is steered onto another residue).
static void heap_perturb(Rng& r, size_t plug = 0) {
  g_perturb_calls++;
  if (plug) {
    void* p = malloc(plug); if (p) { memset(p, 0x5C, 64); g_kept.push_back(p); g_perturb_blocks++; g_perturb_kept++; }
    void* q = malloc(16 + 32 * size_t(r.below(8))); if (q) { g_kept.push_back(q); g_perturb_blocks++; g_perturb_kept++; }
  }
  uint32_t n = uint32_t(r.below(20));
  void* tmp[20]; uint32_t nt = 0;
  for (uint32_t i = 0; i < n; i++) {
    size_t sz;
    switch (r.below(9)) {
      case 0: case 1: sz = 16 + 32 * size_t(r.below(8)); break;  // 16, 48, 80 ... : moves a 16-byte granule allocator to every residue mod 64
      case 2: case 3: sz = 8 + size_t(r.below(121)); break;
      case 4: sz = 8096 + 16 * size_t(r.below(5)); break;          // the size of a young section buffer (and a little more)
      default: sz = 8 + size_t(r.below(4089)); break;            // 8 .. 4096
    }
    void* p = malloc(sz);
    if (!p) continue;
    memset(p, int(r.below(256)), sz < 64 ? sz : 64);
    g_perturb_blocks++;
    if (r.chance(1, 2)) { g_kept.push_back(p); g_perturb_kept++; } else tmp[nt++] = p;
  }
  for (uint32_t i = 0; i < nt; i++) free(tmp[i]);
  uint32_t drop = r.chance(1, 4) ? uint32_t(r.below(6)) : 0;
  if (g_kept.size() > 3000) drop += 1500;
  for (uint32_t i = 0; i < drop && !g_kept.empty(); i++) { size_t j = size_t(r.below(g_kept.size())); free(g_kept[j]); g_kept[j] = g_kept.back(); g_kept.pop_back(); }
}
static inline int text_residue(CodeHolder& code) {
  if (!code.is_initialized()) return -1;
  const uint8_t* p = code.text_section()->data();
  return p ? int(uintptr_t(p) & 63) : -1;
}

// =========================================================================================================
// Arena watch (ASan build): memory an arena RETAINS over a soft reset is poisoned until the arena hands it out again
// =========================================================================================================
// CodeHolder::reset(kSoft) / reinit(), a Builder's detach / reinit and the per-pass / per-function resets of the pass arena keep
// the arena's blocks for reuse. A pointer into such a block that survived the reset (a free list, a cached node, a per-function
// table) is invisible to ASan: the memory is still allocated. The watch closes that hole from the outside: the arenas of the
// recycled objects are registered; the fault-point hook H1 (asked before EVERY arena request) is used as a notification - it never
// fails a request. At every notification, and after every API call of the harness, each registered arena is looked at: when it
// stands at the start of its first block again after having handed out memory it has been reset, and everything it retains
// ([_ptr, _end) of the first block and the payload of all later blocks; block headers stay accessible) is poisoned with
// ASAN_POISON_MEMORY_REGION. Before a request is served the region the request can be served from is unpoisoned (in every registered
// arena, the hook does not say which one asks; at the next look the speculation is undone in the arenas that did not move). Any
// access of asmjit to retained memory it has not been given again is then an ASan "use-after-poison" report.
#if defined(__SANITIZE_ADDRESS__)
#include <sanitizer/asan_interface.h>
struct ArenaWatch {
  Arena* a; const void* seen_first = nullptr; const void* seen_cur = nullptr; const uint8_t* seen_ptr = nullptr; bool used = false;
  struct Region { uint8_t* p; size_t n; } spec[2]; int nspec = 0;
};
static std::vector<ArenaWatch> g_watch;
static uint64_t g_aw_resets = 0, g_aw_resets_retaining = 0, g_aw_bytes = 0, g_aw_requests = 0, g_aw_tracked = 0, g_aw_blocks = 0, g_aw_quar_blocks = 0, g_aw_quar_bytes = 0;
static inline uint8_t* aw_block_begin(Arena::ManagedBlock* b) { return Support::align_up(b->data(), Arena::kAlignment); }
// QUARANTINE mode (half of the histories): memory that is handed out again right after the reset cannot be told from a stale use.
// So the blocks a reset arena retains are taken away from it (it stands as after a hard reset and allocates new blocks; a static
// first block stays) and are kept, entirely poisoned, until the history ends: a stale pointer into them is reported however late
// it is used. The other half of the histories keeps the retained blocks in place (the reuse path itself is exercised).
static bool g_aw_quarantine = false;
struct QBlock { void* p; size_t n; };
static std::vector<QBlock> g_quar;
static Arena::ManagedBlock* aw_zero_block() { static Arena::ManagedBlock* z = []() { Arena t(1024); return t._first_block; }(); return z; }
static void aw_quarantine(ArenaWatch& w) {
  Arena& a = *w.a; Arena::ManagedBlock* first = a._first_block; Arena::ManagedBlock* chain;
  if (a.has_static_block()) { chain = first->next; first->next = nullptr; }
  else {
    Arena::ManagedBlock* z = aw_zero_block();
    if (first == z) return;
    chain = first; a._first_block = z; a._current_block = z; a._ptr = aw_block_begin(z); a._end = z->end();
  }
  while (chain) {
    Arena::ManagedBlock* next = chain->next; size_t total = sizeof(Arena::ManagedBlock) + chain->size;
    ASAN_POISON_MEMORY_REGION(chain, total); g_quar.push_back({ chain, total }); g_aw_quar_blocks++; g_aw_quar_bytes += total;
    chain = next;
  }
}
static void aw_release_quarantine() { for (auto& q : g_quar) { ASAN_UNPOISON_MEMORY_REGION(q.p, q.n); free(q.p); } g_quar.clear(); }
static void aw_poison_free(ArenaWatch& w) {
  Arena& a = *w.a; size_t total = 0;
  if (a._end > a._ptr) { ASAN_POISON_MEMORY_REGION(a._ptr, size_t(a._end - a._ptr)); total += size_t(a._end - a._ptr); }
  for (Arena::ManagedBlock* b = a._current_block->next; b; b = b->next) {
    uint8_t* p = aw_block_begin(b);
    if (b->end() > p) { ASAN_POISON_MEMORY_REGION(p, size_t(b->end() - p)); total += size_t(b->end() - p); g_aw_blocks++; }
  }
  g_aw_resets++; if (total) g_aw_resets_retaining++; g_aw_bytes += total;
}
static void aw_look(ArenaWatch& w) {
  Arena& a = *w.a;
  bool moved = a._first_block != w.seen_first || a._current_block != w.seen_cur || a._ptr != w.seen_ptr;
  if (w.nspec) {
    if (!moved) { for (int i = 0; i < w.nspec; i++) ASAN_POISON_MEMORY_REGION(w.spec[i].p, w.spec[i].n); }
    else if (a._current_block == w.seen_cur && w.nspec == 1 && a._ptr > w.spec[0].p && a._ptr < w.spec[0].p + w.spec[0].n)
      ASAN_POISON_MEMORY_REGION(a._ptr, size_t(w.spec[0].p + w.spec[0].n - a._ptr));   // the request was smaller than the rounded guess
    w.nspec = 0;
  }
  if (moved) w.used = true;
  Arena::ManagedBlock* first = a._first_block;
  if (w.used && a._current_block == first && a._ptr == aw_block_begin(first)) { if (g_aw_quarantine) aw_quarantine(w); aw_poison_free(w); w.used = false; }
  w.seen_first = a._first_block; w.seen_cur = a._current_block; w.seen_ptr = a._ptr;
}
static void aw_poll() { for (auto& w : g_watch) aw_look(w); }
// H1: a request of `size` bytes is about to be served by SOME arena
static bool aw_hook(size_t size) {
  g_aw_requests++;
  for (auto& w : g_watch) {
    aw_look(w);
    Arena& a = *w.a;
    size_t rounded = Support::align_up(size, Arena::kAlignment);
    if (size <= Arena::kMaxReusableSlotSize) { size_t r2 = Arena::kMinReusableSlotSize; while (r2 < size) r2 <<= 1; if (r2 > rounded) rounded = r2; }
    size_t rem = size_t(a._end - a._ptr);
    if (rounded <= rem) { ASAN_UNPOISON_MEMORY_REGION(a._ptr, rounded); w.spec[0] = { a._ptr, rounded }; w.nspec = 1; continue; }
    if (rem) { ASAN_UNPOISON_MEMORY_REGION(a._ptr, rem); w.spec[w.nspec++] = { a._ptr, rem }; }   // (the leftover is cut into reusable slots)
    for (Arena::ManagedBlock* b = a._current_block->next; b; b = b->next) {
      uint8_t* p = aw_block_begin(b); size_t room = b->end() > p ? size_t(b->end() - p) : 0;
      if (size <= room) { size_t n = rounded < room ? rounded : room; ASAN_UNPOISON_MEMORY_REGION(p, n); w.spec[w.nspec++] = { p, n }; break; }
    }
  }
  return false;
}
static void aw_track(Arena* a) { ArenaWatch w; w.a = a; w.seen_first = a->_first_block; w.seen_cur = a->_current_block; w.seen_ptr = a->_ptr; g_watch.push_back(w); g_aw_tracked++; asmjit_verif_arena_fail_fn = aw_hook; }
// The arena is about to be destroyed (or its static block reused by the harness): nothing of it may stay poisoned.
static void aw_untrack(Arena* a) {
  for (size_t i = 0; i < g_watch.size(); i++) if (g_watch[i].a == a) { g_watch[i] = g_watch.back(); g_watch.pop_back(); break; }
  for (Arena::ManagedBlock* b = a->_first_block; b; b = b->next) if (b->size) ASAN_UNPOISON_MEMORY_REGION(b->data(), b->size);
}
struct AwPause { bool (*saved)(size_t); AwPause() : saved(asmjit_verif_arena_fail_fn) { asmjit_verif_arena_fail_fn = nullptr; } ~AwPause() { asmjit_verif_arena_fail_fn = saved; } };
#else
static uint64_t g_aw_resets = 0, g_aw_resets_retaining = 0, g_aw_bytes = 0, g_aw_requests = 0, g_aw_tracked = 0, g_aw_blocks = 0, g_aw_quar_blocks = 0, g_aw_quar_bytes = 0;
static bool g_aw_quarantine = false;
static inline void aw_release_quarantine() {}
static inline void aw_poll() {}
static inline void aw_track(Arena*) {}
static inline void aw_untrack(Arena*) {}
struct AwPause { AwPause() {} ~AwPause() {} };
#endif
static void aw_track_emitter(BaseEmitter* em, int kind, bool on) {
  if (kind == 0 /* K_ASM */) return;
  BaseBuilder* b = static_cast<BaseBuilder*>(em);
  if (on) { aw_track(&b->_builder_arena); aw_track(&b->_pass_arena); } else { aw_untrack(&b->_builder_arena); aw_untrack(&b->_pass_arena); }
}

// =========================================================================================================
// Trace of error codes (one entry per API call of a program) and observation of a holder
// =========================================================================================================

struct Trace {
  std::string s; uint32_t nerr = 0, n = 0;
  void rec(Error e) { static const char* d = "0123456789abcdef"; uint32_t v = uint32_t(e); s += d[(v >> 4) & 15]; s += d[v & 15]; n++; if (e != Error::kOk) nerr++; aw_poll(); }
  void flag(bool ok) { s += ok ? '+' : '-'; }
};

typedef std::vector<std::pair<std::string, std::string>> Fields;
static void fadd(Fields& F, const char* name, const std::string& v) { F.emplace_back(name, v); }
static std::string fmtv(const char* f, ...) __attribute__((format(printf, 1, 2)));
static std::string fmtv(const char* f, ...) {
  char b[1024]; va_list ap; va_start(ap, f); int n = vsnprintf(b, sizeof b, f, ap); va_end(ap);
  if (n < int(sizeof b)) return b;
  std::string big(size_t(n) + 1, '\0'); va_start(ap, f); vsnprintf(&big[0], big.size(), f, ap); va_end(ap); big.resize(size_t(n)); return big;
}

static std::string expr_str(const CodeHolder& code, const Expression* e, int depth = 0) {
  if (!e || depth > 4) return "?";
  std::string o = fmtv("(op%u", unsigned(e->op_type));
  for (int i = 0; i < 2; i++) {
    switch (e->value_type[i]) {
      case ExpressionValueType::kNone: o += " none"; break;
      case ExpressionValueType::kConstant: o += fmtv(" c%llu", (ull)e->value[i].constant); break;
      case ExpressionValueType::kLabel: o += fmtv(" L%u", e->value[i].label_id); break;
      case ExpressionValueType::kExpression: o += " " + expr_str(code, e->value[i].expression, depth + 1); break;
      default: o += " bad"; break;
    }
  }
  return o + ")";
}

static std::string label_line(const CodeHolder& code, uint32_t id, uint32_t id_base, uint64_t off_base) {
  const LabelEntry& le = code.label_entry_of(id);
  std::string o = fmtv("L%u t%u f%02x", id - id_base, unsigned(le.label_type()), unsigned(le.label_flags()));
  if (le.has_name()) o += " n=" + std::string(le.name(), le.name_size());
  if (le.has_parent()) o += fmtv(" p%u", le.parent_id() - id_base);
  if (le.is_bound()) o += fmtv(" @%u+%llu", le.section_id(), (ull)(le.offset() - (le.section_id() == 0 ? off_base : 0)));
  else {
    o += " unbound";
    uint32_t n = 0;
    for (Fixup* f = le.unresolved_fixups(); f && n < 100000; f = f->next, n++)
      if (n < 64) o += fmtv(" [%u+%llu r%lld %s]", f->section_id, (ull)(f->offset - (f->section_id == 0 ? off_base : 0)), (long long)f->rel, hexstr(&f->format, sizeof f->format).c_str());
    o += fmtv(" nfix=%u", n);
  }
  return o;
}

static std::string reloc_line(const CodeHolder& code, const RelocEntry* re, uint64_t off_base, uint32_t id_base) {
  std::string o = fmtv("t%u f%s s%u>%u @%llu ", unsigned(re->reloc_type()), hexstr(&re->format(), sizeof(OffsetFormat)).c_str(),
                       re->source_section_id(), re->target_section_id(), (ull)(re->source_offset() - off_base));
  if (re->reloc_type() == RelocType::kExpression) o += expr_str(code, re->payload_as_expression());
  else o += fmtv("p%llu", (ull)re->payload());
  (void)id_base;
  return o;
}

// Everything a CodeHolder exposes after generation; with `post` also what a consumer gets out of it.
static void observe_full(CodeHolder& code, int arch, bool post, Fields& F) {
  std::string meta, lab, rel;
  for (size_t i = 0; i < code.section_count(); i++) {
    Section* s = code.section_by_id(uint32_t(i));
    meta += fmtv("{%u '%s' fl%x al%u ord%d off%lld virt%llu buf%zu}", s->section_id(), s->name(), unsigned(s->flags()), s->alignment(), s->order(),
                 (long long)s->offset(), (ull)s->virtual_size(), s->buffer_size());
  }
  std::string order;
  for (Section* s : code.sections_by_order()) order += fmtv("%u,", s->section_id());
  fadd(F, "sections", meta + " order=" + order);
  for (size_t i = 0; i < code.section_count(); i++) {
    Section* s = code.section_by_id(uint32_t(i));
    fadd(F, i == 0 ? "text-bytes" : "data-bytes", std::string((const char*)s->data(), s->buffer_size()));
  }
  for (uint32_t i = 0; i < code.label_count(); i++) { lab += label_line(code, i, 0, 0); lab += '\n'; }
  fadd(F, "labels", lab);
  for (RelocEntry* re : code.reloc_entries()) { rel += fmtv("R%u ", re->id()); rel += reloc_line(code, re, 0, 0); rel += '\n'; }
  fadd(F, "relocs", rel);
  fadd(F, "fixups", fmtv("unresolved=%zu addrtab=%d", code.unresolved_fixup_count(), int(code.has_address_table_section())));
  if (!post) return;
  Trace pt;
  Error e1 = code.flatten(); pt.rec(e1);
  Error e2 = code.resolve_cross_section_fixups(); pt.rec(e2);
  std::string image, lab2, meta2;
  if (e1 == Error::kOk) {
    CodeHolder::RelocationSummary sum {};
    Error e3 = code.relocate_to_base(base_of(arch), &sum); pt.rec(e3);
    if (e3 == Error::kOk) {
      size_t sz = code.code_size();
      image.assign(sz, '\xCC');
      pt.rec(code.copy_flattened_data(&image[0], sz, CopySectionFlags::kPadSectionBuffer | CopySectionFlags::kPadTargetBuffer));
      meta2 += fmtv("size=%zu reduction=%zu ", sz, sum.code_size_reduction);
    }
  }
  for (size_t i = 0; i < code.section_count(); i++) {
    Section* s = code.section_by_id(uint32_t(i));
    meta2 += fmtv("{%u off%lld virt%llu buf%zu}", s->section_id(), (long long)s->offset(), (ull)s->virtual_size(), s->buffer_size());
  }
  for (uint32_t i = 0; i < code.label_count(); i++)
    if (code.is_label_bound(i)) lab2 += fmtv("L%u=%llu ", i, (ull)code.label_offset_from_base(i));
  fadd(F, "post-trace", pt.s);
  fadd(F, "post-layout", meta2 + lab2);
  fadd(F, "post-image", image);
}

// The slice a probe appended behind earlier programs: .text from the marker label on, relocations and labels of Q.
static void observe_slice(CodeHolder& code, const Label& marker, Fields& F) {
  if (!code.is_label_valid(marker) || !code.is_label_bound(marker) || code.label_entry_of(marker).section_id() != 0) { fadd(F, "marker", "unbound"); return; }
  uint64_t m = code.label_offset(marker);
  Section* t = code.text_section();
  fadd(F, "marker", fmtv("mod64=%llu", (ull)(m & 63)));
  if (m > t->buffer_size()) { fadd(F, "text-bytes", "marker-behind-end"); return; }
  fadd(F, "text-bytes", std::string((const char*)t->data() + m, t->buffer_size() - m));
  std::string lab, rel;
  for (uint32_t i = marker.id(); i < code.label_count(); i++) { lab += label_line(code, i, marker.id(), m); lab += '\n'; }
  fadd(F, "labels", lab);
  for (RelocEntry* re : code.reloc_entries())
    if (re->source_section_id() == 0 && re->source_offset() >= m) { rel += reloc_line(code, re, m, marker.id()); rel += '\n'; }
  fadd(F, "relocs", rel);
}

static std::string printable(const std::string& v) {
  bool bin = false;
  for (unsigned char ch : v) if ((ch < 0x20 && ch != '\n') || ch >= 0x7f) { bin = true; break; }
  if (!bin) return v.size() > 300 ? v.substr(0, 300) + "..." : v;
  return "hex:" + hexstr(v.data(), std::min<size_t>(v.size(), 96)) + (v.size() > 96 ? "..." : "");
}

// First differing field of two observations ("" when equal).
static std::string diff_fields(const Fields& a, const Fields& b, std::string* what) {
  size_t n = std::min(a.size(), b.size());
  for (size_t i = 0; i < n; i++) {
    if (a[i].first != b[i].first) { *what = "field order " + a[i].first + " vs " + b[i].first; return "shape"; }
    if (a[i].second != b[i].second) {
      const std::string &x = a[i].second, &y = b[i].second;
      size_t k = 0; while (k < x.size() && k < y.size() && x[k] == y[k]) k++;
      size_t from = k > 24 ? k - 24 : 0;
      *what = fmtv("field '%s' differs at byte %zu (sizes %zu vs %zu): recycled ", a[i].first.c_str(), k, x.size(), y.size()) +
              printable(x.substr(from, 120)) + " | fresh " + printable(y.substr(from, 120));
      return a[i].first;
    }
  }
  if (a.size() != b.size()) { *what = fmtv("field count %zu vs %zu", a.size(), b.size()); return "shape"; }
  return "";
}

static uint64_t hash_fields(const Fields& f) {
  uint64_t h = 1469598103934665603ull;
  for (auto& p : f) { h = fnv1a(p.first.data(), p.first.size(), h); h = fnv1a(p.second.data(), p.second.size(), h ^ 0x55); }
  return h;
}

// =========================================================================================================
// Program pool
// =========================================================================================================

struct Ctx {
  CodeHolder& code; BaseEmitter* e; int kind; int arch; uint64_t seed; std::string pfx;
  Trace tr;
  bool counted = false;   // a probe (not junk generation): its align / pool calls go into the evidence counters
  Ctx(CodeHolder& c, BaseEmitter* em, int k, int a, uint64_t s, const std::string& p) : code(c), e(em), kind(k), arch(a), seed(s), pfx(p) {}
};
#define T(x) c.tr.rec((x))

static Label NL(Ctx& c) { Label l = c.e->new_label(); c.tr.flag(l.is_valid()); return l; }
static Label NNL(Ctx& c, const std::string& name, LabelType t = LabelType::kGlobal, uint32_t parent = Globals::kInvalidId) {
  Label l = c.e->new_named_label(name.c_str(), name.size(), t, parent); c.tr.flag(l.is_valid()); return l;
}

enum : unsigned {
  KM_ASM = 1, KM_BLD = 2, KM_CMP = 4, KM_ALL = 7, KM_NODE = 6,
  F_CLEAN = 1,      // no error, everything bound / closed, ends in .text
  F_TEXTONLY = 2,   // writes .text only, position independent modulo 64: usable as an append probe
  F_ERR = 4,        // ends in an error
  F_LEFTOVER = 8,   // leaves unbound labels / a foreign current section / an open function
  F_GLOBALCP = 16,  // uses the compiler's global constant pool (emitted behind ALL code)
  F_SECTIONS = 32, F_RELOCS = 64,
  F_ABSCALL = 256,  // calls absolute addresses: position dependent once the holder knows its base address
  F_ABS32 = 128,    // 32-bit x86: references labels by absolute address (relocation payload depends on the position)
  F_FEAT = 1024,     // the allocator consults the holder's CPU features for it
  F_WIDEALIGN = 512, // pads to 32 / 64 bytes at offsets that are not multiples of it (output would show a dependence on the buffer address mod 64)
};

// ---- alignment helpers shared by both families -------------------------------------------------------------------
static inline uint64_t align_up_u64(uint64_t v, uint32_t a) { return (v + a - 1) & ~uint64_t(a - 1); }
static inline uint32_t lg2u(uint32_t a) { uint32_t n = 0; while ((1u << n) < a && n < 6) n++; return n; }
static inline uint64_t asm_offset(Ctx& c) { return c.kind == 0 /* K_ASM */ ? uint64_t(static_cast<BaseAssembler*>(c.e)->offset()) : 0; }

// One align() call. `moff` = offset predicted from the calls made so far, relative to the (64-byte aligned) start of the program.
static void do_align(Ctx& c, uint64_t& moff, uint64_t base, AlignMode mode, uint32_t a) {
  int fam = fam_of(c.arch); uint32_t l = lg2u(a);
  if (c.counted) { g_align_total[fam][int(mode)][l]++; if (moff & (a - 1)) g_align_unaligned[fam][int(mode)][l]++; }
  c.tr.rec(c.e->align(mode, a));
  moff = align_up_u64(moff, a);
  if (c.counted && c.kind == 0 && asm_offset(c) - base != moff) g_align_model_mismatch++;
}

// One embed_const_pool(): `nwide` constants of `wide` bytes (16 / 32 / 64; 0 = none) and `nsmall` 4 / 8 byte constants.
static void do_pool(Ctx& c, uint64_t& moff, const Label& l, uint32_t wide, uint32_t nwide, uint32_t nsmall) {
  Arena ar(4096); ConstPool cp(ar);
  uint8_t d[64];
  for (uint32_t i = 0; wide && i < nwide; i++) { for (uint32_t j = 0; j < 64; j++) d[j] = uint8_t(j * 3 + i * 17 + c.seed + wide); size_t off; c.tr.rec(cp.add(d, wide, Out(off))); }
  for (uint32_t i = 0; i < nsmall; i++) { uint64_t v = 0x0102030405060708ull * (i + 1) + c.seed; size_t off; c.tr.rec(cp.add(&v, (i & 1) ? 4 : 8, Out(off))); }
  uint32_t pa = uint32_t(cp.alignment()); if (!pa) pa = 1;
  if (c.counted) { g_pool_embeds[fam_of(c.arch)][c.kind][lg2u(pa)]++; if (moff & (pa - 1)) g_pool_unaligned[fam_of(c.arch)][c.kind][lg2u(pa)]++; }
  c.tr.rec(c.e->embed_const_pool(l, cp));
  moff = align_up_u64(moff, pa) + cp.size();
}
static inline void note_new_const(Ctx& c, ConstPoolScope scope, size_t size) { if (c.counted) g_new_const[fam_of(c.arch)][scope == ConstPoolScope::kGlobal ? 1 : 0][lg2u(uint32_t(size))]++; }


// ---- x86 / x86-64, any emitter kind ---------------------------------------------------------------------
#define XE auto& e = *c.e->as<x86::Emitter>(); bool w = c.arch == A_X64; (void)w; \
  x86::Gp za = w ? x86::rax : x86::eax, zb = w ? x86::rbx : x86::ebx, zc = w ? x86::rcx : x86::ecx, zd = w ? x86::rdx : x86::edx; \
  (void)za; (void)zb; (void)zc; (void)zd

static void x_filler(Ctx& c, Rng& r, uint32_t n) {
  XE;
  for (uint32_t i = 0; i < n; i++) {
    int32_t disp = int32_t(r.below(3) == 0 ? r.below(100000) : r.below(120)) - 40;
    switch (r.below(10)) {
      case 0: T(e.mov(za, imm(int32_t(r.next() & 0x7fffffff)))); break;
      case 1: T(e.add(x86::dword_ptr(zb, disp), x86::edx)); break;
      case 2: T(e.lea(zc, x86::ptr(zb, zd, uint32_t(r.below(4)), disp))); break;
      case 3: T(e.vaddps(x86::ymm(uint32_t(i & 7)), x86::ymm1, x86::ymmword_ptr(zb, disp))); break;
      case 4: T(e.imul(x86::eax, x86::ecx, imm(int32_t(r.below(70000))))); break;
      case 5: T(e.shl(x86::edx, imm(i & 31))); break;
      case 6: T(e.movzx(x86::eax, x86::byte_ptr(zc, disp))); break;
      case 7: T(e.push(za)); T(e.pop(zd)); break;
      case 8: if (w) T(e.mov(x86::rax, imm(uint64_t(r.next() | (1ull << 62))))); else T(e.mov(x86::eax, imm(uint32_t(r.next())))); break;
      default: T(e.k(x86::k(1 + uint32_t(r.below(7)))).vpaddd(x86::zmm(uint32_t(i & 7)), x86::zmm2, x86::zmm3)); break;
    }
  }
}

static void xp_plain(Ctx& c) {
  XE; Rng r(c.seed * 1000003 + 11);
  // the first instructions are sensitive to stale one-shot state: {k} extra register, lock / rep options
  T(e.vpaddd(x86::zmm1, x86::zmm2, x86::zmm3));
  T(e.add(x86::dword_ptr(zb), x86::ecx));
  T(e.movsb());
  x_filler(c, r, 6 + uint32_t(r.below(40)));
  T(e.ret());
}

static void xp_labels(Ctx& c) {
  XE; Rng r(c.seed * 7919 + 3);
  Label top = NL(c), fwd = NL(c), far_ = NL(c), near_ = NL(c);
  T(e.xor_(x86::eax, x86::eax));
  T(e.bind(top));
  x_filler(c, r, 2 + uint32_t(r.below(4)));
  T(e.dec(zc)); T(e.jnz(top));
  T(e.jmp(fwd));
  x_filler(c, r, (c.seed & 1) ? 60 : 3);
  T(e.bind(fwd));
  T(e.jz(far_));
  T(e.short_().jmp(near_));
  T(e.nop());
  T(e.bind(near_));
  T(e.jecxz(zc, near_));
  x_filler(c, r, (c.seed & 2) ? 50 : 2);
  T(e.call(top));
  T(e.bind(far_));
  if (w) T(e.lea(x86::rax, x86::ptr(top)));
  T(e.jmp(top));
  T(e.ret());
}

static void xp_err_inst(Ctx& c) {
  XE; Rng r(c.seed * 31 + 5);
  Label l = NL(c);
  T(e.mov(x86::eax, 1));
  x_filler(c, r, uint32_t(r.below(6)));
  T(e.emit(x86::Inst::kIdAdd, x86::xmm0, x86::eax));             // no such form
  T(e.add(x86::eax, 2));
  T(e.emit(x86::Inst::kIdMov, x86::eax, x86::ebx, x86::ecx));    // operand count
  if (!w) T(e.emit(x86::Inst::kIdMov, x86::r8d, x86::eax));      // register not available in 32-bit mode
  T(e.jmp(Label(0x123456u)));                                    // label that does not exist
  T(e.lock().mov(x86::eax, x86::ebx));                           // lock prefix not allowed
  T(e.jz(l));
  x_filler(c, r, 3);
  if (c.seed & 1) T(e.bind(l));
  T(e.ret());
}

static void xp_err_bind2(Ctx& c) {
  XE; Rng r(c.seed * 131 + 9);
  Label l = NL(c);
  T(e.jmp(l));
  T(e.bind(l));
  x_filler(c, r, 1 + uint32_t(r.below(5)));
  if (c.kind == K_ASM) T(e.bind(l));                             // bound twice (a Builder would link the same LabelNode twice: endless node list, not a C16 matter)
  Label d1 = NNL(c, c.pfx + "dup");
  Label d2 = NNL(c, c.pfx + "dup");                              // defined twice -> invalid label
  T(e.bind(d1));
  T(e.jmp(d2));
  T(e.bind(d2));                                                 // invalid label
  T(e.ret());
}

static void xp_unbound(Ctx& c) {
  XE; Rng r(c.seed * 17 + 1);
  Label a = NL(c), b = NL(c), f = NL(c), d = NL(c), unused = NL(c); (void)unused;
  T(e.jmp(a)); T(e.jz(b)); T(e.call(f));
  T(e.bind(a));
  x_filler(c, r, 2 + uint32_t(r.below(8)));
  if (w) T(e.lea(x86::rax, x86::ptr(d))); else T(e.mov(x86::eax, x86::dword_ptr(d)));
  for (uint32_t i = 0; i < 1 + (c.seed & 3); i++) T(e.jnz(b));
  T(e.ret());                                                    // b, f, d stay unbound: pending fixups
}

static const uint8_t kBlob[64] = { 1, 2, 3, 5, 8, 13, 21, 34, 55, 89, 144, 233, 7, 7, 7, 9, 0xFE, 0xED, 0xFA, 0xCE, 11, 12, 13, 14, 15, 16 };

static void xp_sections(Ctx& c) {
  XE; Rng r(c.seed * 97 + 7);
  Section *sd = nullptr, *sr = nullptr;
  T(c.code.new_section(Out(sd), ".data", SIZE_MAX, SectionFlags::kNone, 16, 1 + int32_t(c.seed & 1)));
  T(c.code.new_section(Out(sr), (c.seed & 2) ? ".rodata" : ".ro", SIZE_MAX, SectionFlags::kReadOnly, 8, (c.seed & 4) ? -1 : 2));
  Label entry = NL(c), ld = NL(c), lr = NL(c), lf = NL(c);
  T(e.bind(entry));
  T(e.lea(za, x86::ptr(ld)));
  T(e.mov(x86::ecx, x86::dword_ptr(lr, 4)));
  x_filler(c, r, 2 + uint32_t(r.below(6)));
  T(e.call(lf));
  T(e.ret());
  if (sr) {
    T(e.section(sr)); T(e.bind(lr));
    T(e.embed(kBlob, 24 + (c.seed % 7)));
    T(e.embed_label_delta(lf, entry, 4));
  }
  if (sd) {
    T(e.section(sd)); T(e.align(AlignMode::kData, 16)); T(e.bind(ld));
    T(e.embed_label(entry)); T(e.embed_label(lf));
    T(e.embed_label_delta(lr, entry, w ? 8 : 4));              // cross-section delta -> expression relocation
    T(e.embed(kBlob, 40));
    T(e.align(AlignMode::kZero, 32));
  }
  T(e.section(c.code.text_section()));
  T(e.bind(lf)); T(e.xor_(x86::eax, x86::eax)); T(e.ret());
}

static void x_farcalls(Ctx& c) {
  XE;
  uint64_t far1 = w ? 0x123456789ABCull + (c.seed & 3) * 0x1000 : 0x12345678ull + (c.seed & 3) * 0x100;
  T(e.call(imm(far1)));
  T(e.jmp(imm(w ? 0x00007FFF12345678ull : 0x7FFF1234ull)));
  T(e.call(imm(base_of(c.arch) + 0x4000)));
  T(e.call(imm(far1)));                                          // shares the address-table slot
}

static void xp_farcall(Ctx& c) {
  XE; Rng r(c.seed * 53 + 2);
  T(e.mov(x86::eax, 7));
  x_farcalls(c);
  x_filler(c, r, uint32_t(r.below(6)));
  T(e.ret());
}

static void xp_reloc(Ctx& c) {
  XE; Rng r(c.seed * 59 + 4);
  Label entry = NL(c), tab = NL(c);
  T(e.bind(entry));
  x_farcalls(c);
  if (!w) T(e.mov(x86::eax, x86::dword_ptr(tab)));               // absolute address of a label in 32-bit mode
  x_filler(c, r, uint32_t(r.below(6)));
  T(e.ret());
  T(e.align(AlignMode::kData, 8));
  T(e.bind(tab));
  T(e.embed_label(entry)); T(e.embed_label(tab));
}

static void xp_embed(Ctx& c) {
  XE; Rng r(c.seed * 61 + 8);
  Label a = NL(c), b = NL(c), pool = NL(c);
  T(e.bind(a));
  x_filler(c, r, 1 + uint32_t(r.below(5)));
  T(e.ret());
  T(e.bind(b));
  T(e.embed(kBlob, 1 + (c.seed % 40)));
  static const uint32_t arr[4] = { 0x11111111u, 0x22222222u, 0x33333333u, 0x44444444u };
  T(e.embed_data_array(TypeId::kUInt32, arr, 4, 1 + (c.seed & 3)));
  T(e.embed_uint16(uint16_t(c.seed * 3), 3));
  T(e.align(AlignMode::kData, 8));
  T(e.embed_label_delta(b, a, 4));                               // both bound, same section: plain value
  {
    Arena ar(4096); ConstPool cp(ar);
    for (uint32_t i = 0; i < 3 + (c.seed & 3); i++) { uint64_t v = 0x0101010101010101ull * (i + 1) + c.seed; size_t off; T(cp.add(&v, 8, Out(off))); }
    uint32_t v4 = 0xA5A5A5A5u; size_t off; T(cp.add(&v4, 4, Out(off)));
    T(e.embed_const_pool(pool, cp));
  }
  T(e.align(AlignMode::kZero, 16));
  T(e.align(AlignMode::kCode, 16));
  T(e.ret());
}

// 1, 3 ... 63 bytes of known size (data and one-byte instructions)
static void x_odd_bytes(Ctx& c, Rng& r, uint64_t& moff) {
  XE; uint32_t n = 1 + 2 * uint32_t(r.below(32));
  uint32_t nops = r.chance(1, 2) ? 0 : (n > 9 ? 1 + 2 * uint32_t(r.below(4)) : n);
  if (n > nops) T(e.embed(kBlob, n - nops));
  for (uint32_t i = 0; i < nops; i++) T(e.nop());
  moff += n;
}

// Every legal alignment (1 .. Globals::kMaxAlignment) in every align mode, each at an offset that is not a multiple of it.
static void xp_aligns(Ctx& c) {
  XE; Rng r(c.seed * 83 + 16);
  uint64_t moff = 0, base = asm_offset(c);
  uint8_t order[21]; for (uint8_t i = 0; i < 21; i++) order[i] = i;
  for (uint32_t i = 20; i > 0; i--) std::swap(order[i], order[r.below(i + 1)]);
  std::vector<Label> ls;
  Label first = NL(c); T(e.bind(first));
  for (uint32_t i = 0; i < 21; i++) {
    AlignMode mode = AlignMode(order[i] / 7); uint32_t a = 1u << (order[i] % 7);
    x_odd_bytes(c, r, moff);
    if (a > 1 && !(moff & (a - 1))) { T(e.nop()); moff++; }
    do_align(c, moff, base, mode, a);
    Label l = NL(c); T(e.bind(l)); ls.push_back(l);
    T(e.mov(x86::eax, imm(int32_t(0x1000 + order[i])))); moff += 5;
  }
  T(e.jmp(first)); T(e.jz(ls[3])); T(e.short_().jmp(ls[20]));
  if (w) T(e.lea(x86::rax, x86::ptr(ls[10])));
  T(e.call(ls[17]));
  T(e.ret());
}

// Constant pools whose alignment is 16 / 32 / 64, embedded at offsets that are not multiples of it.
static void xp_cpools(Ctx& c) {
  XE; Rng r(c.seed * 89 + 18);
  uint64_t moff = 0, base = asm_offset(c);
  Label a = NL(c), p1 = NL(c), p2 = NL(c), p3 = NL(c);
  T(e.bind(a)); T(e.mov(x86::eax, imm(int32_t(c.seed + 1)))); T(e.ret()); moff += 6;
  x_odd_bytes(c, r, moff);
  do_pool(c, moff, p1, 16u << (c.seed % 3), 1 + uint32_t(r.below(2)), uint32_t(r.below(4)));
  x_odd_bytes(c, r, moff);
  do_pool(c, moff, p2, 16u << ((c.seed / 3 + 1) % 3), 1, 1 + uint32_t(r.below(3)));
  x_odd_bytes(c, r, moff);
  do_pool(c, moff, p3, 0, 0, 1 + uint32_t(r.below(3)));
  x_odd_bytes(c, r, moff);
  do_align(c, moff, base, AlignMode::kCode, 16);
  if (w) { T(e.lea(x86::rax, x86::ptr(p1))); T(e.movdqu(x86::xmm0, x86::ptr(p2))); }
  T(e.jmp(a));
  T(e.ret());
  (void)p3;
}

static void xp_named(Ctx& c) {
  XE; Rng r(c.seed * 67 + 6);
  Label g = NNL(c, c.pfx + "main");
  Label loc = NNL(c, ".inner", LabelType::kLocal, g.id());
  Label ext = NNL(c, c.pfx + "ext", LabelType::kExternal);
  T(e.bind(g)); T(e.jmp(loc)); T(e.nop()); T(e.bind(loc));
  uint32_t n = 3 + uint32_t(c.seed % 23);
  for (uint32_t i = 0; i < n; i++) {
    Label l = NNL(c, c.pfx + fmtv("n%u", i));
    T(e.bind(l)); T(e.nop());
    if (i & 1) T(e.jmp(l));
  }
  T(e.call(ext));
  T(e.ret());
  // look-ups: names that exist, a name only OTHER seeds define, a name nobody defines
  c.tr.flag(c.code.label_by_name((c.pfx + "main").c_str()).is_valid());
  c.tr.flag(c.code.label_by_name(".inner", SIZE_MAX, g.id()).is_valid());
  c.tr.flag(c.code.label_by_name((c.pfx + fmtv("n%u", n)).c_str()).is_valid());
  c.tr.flag(c.code.label_by_name((c.pfx + fmtv("n%u", n + 7)).c_str()).is_valid());
  c.tr.flag(c.code.label_by_name((c.pfx + "dup").c_str()).is_valid());
  c.tr.flag(c.code.label_by_name("never_defined").is_valid());
}

static void xp_big(Ctx& c) {
  XE; Rng r(c.seed * 71 + 12);
  uint32_t n = (c.seed & 3) == 3 ? 9000 : 400 + uint32_t(r.below(300));
  Label next = NL(c), top = NL(c);
  T(e.bind(top));
  for (uint32_t i = 0; i < n; i++) {
    if (w) T(e.mov(x86::rax, imm(0x0101010101010101ull * (i & 0xFF) + i + (1ull << 60)))); else T(e.mov(x86::eax, imm(0x01010101u * (i & 0xFF) + i)));
    T(e.add(x86::dword_ptr(zd, int32_t(i * 4)), x86::eax));
    if (i % 16 == 0) { T(e.jz(next)); }
    if (i % 16 == 9) { T(e.bind(next)); next = NL(c); }
    if (i % 200 == 0) T(e.jnz(top));
  }
  T(e.bind(next));
  T(e.ret());
}

static void bld_nodes(Ctx& c, BaseBuilder* b) {
  BaseNode* first = b->cursor();
  T(b->comment("a comment node"));
  CommentNode* cn = nullptr;
  T(b->new_comment_node(Out(cn), "inserted", 8));
  if (cn && b->first_node()) b->add_after(cn, b->first_node());
  AlignNode* an = nullptr;
  T(b->new_align_node(Out(an), AlignMode::kCode, 16));
  if (an) b->add_node(an);
  (void)first;
}

static void xp_bldnodes(Ctx& c) {
  XE; Rng r(c.seed * 73 + 14);
  BaseBuilder* b = static_cast<BaseBuilder*>(c.e);
  T(e.mov(x86::eax, 1));
  BaseNode* n1 = b->cursor();
  bld_nodes(c, b);
  T(e.add(x86::eax, 2));
  BaseNode* n2 = b->cursor();
  T(e.sub(x86::eax, 3));
  if (n2 && n2 != n1) b->remove_node(n2);                        // the add disappears
  BaseNode* last = b->cursor();
  if (n1) b->set_cursor(n1);
  T(e.nop()); T(e.inc(zc));                                      // inserted behind the first mov
  b->set_cursor(last);
  x_filler(c, r, uint32_t(r.below(5)));
  T(e.align(AlignMode::kCode, 8));
  T(e.commentf("seed %u", unsigned(c.seed)));
  T(e.ret());
}

static void xp_leftover(Ctx& c) {
  XE; Rng r(c.seed * 79 + 15);
  Section* sj = nullptr;
  T(c.code.new_section(Out(sj), ".junk", SIZE_MAX, SectionFlags::kExecutable, 4, 0));
  Label a = NL(c), b = NL(c);
  T(e.jmp(a));
  x_filler(c, r, 2);
  if (sj) T(e.section(sj));
  T(e.bind(b));
  x_farcalls(c);
  T(e.jz(a));                                                    // a never bound
  x_filler(c, r, 1 + uint32_t(r.below(4)));                      // ... and the emitter stays in .junk
}

// ---- x86 / x86-64 Compiler functions ----------------------------------------------------------------------
static inline uint64_t callee_addr(int arch, int which) { return arch == A_X86 ? 0x08123450ull + which * 0x40 : 0x00007F0011223300ull + which * 0x40; }

// What the allocator derives per function from the signature and the frame: calling convention (argument registers, preserved set,
// who pops the stack, spill zone), AVX / AVX-512 enabled (move instructions, 16 vs 32 vector registers), preserved frame pointer and
// registers made unavailable. Drawn per function from the program's RNG - two functions of one Compiler usually differ.
#define ADD_FUNC(cc, ...) FnVar fv = fn_var(c, r); FuncNode* fn = cc.add_func(FuncSignature::build<__VA_ARGS__>(fv.cc)); \
  c.tr.flag(fn != nullptr); if (!fn) return; fn_apply(c, fn, fv)
struct FnVar { CallConvId cc; int slot; bool avx, avx512, fp, unav; uint32_t code; };
static const CallConvId kCCx64[4] = { CallConvId::kCDecl, CallConvId::kX64SystemV, CallConvId::kX64Windows, CallConvId::kVectorCall };
static const CallConvId kCCx86[5] = { CallConvId::kCDecl, CallConvId::kStdCall, CallConvId::kFastCall, CallConvId::kRegParm3, CallConvId::kVectorCall };
static const char* kCCNames[3][5] = { { "cdecl", "sysv", "win64", "vectorcall", "" }, { "cdecl", "stdcall", "fastcall", "regparm3", "vectorcall" }, { "cdecl", "", "", "", "" } };
static CallConvId draw_cc(Ctx& c, Rng& r, int* slot) {
  if (c.arch == A_A64) { *slot = 0; return CallConvId::kCDecl; }
  int n = c.arch == A_X64 ? 4 : 5;
  *slot = r.chance(2, 5) ? 0 : 1 + int(r.below(uint64_t(n - 1)));
  return c.arch == A_X64 ? kCCx64[*slot] : kCCx86[*slot];
}
static FnVar fn_var(Ctx& c, Rng& r) {
  FnVar v {};
  v.cc = draw_cc(c, r, &v.slot);
  bool x = c.arch != A_A64;
  v.avx512 = x && r.chance(1, 5); v.avx = x && (v.avx512 || r.chance(1, 3));
  v.fp = r.chance(1, 3); v.unav = r.chance(1, 4);
  v.code = uint32_t(v.slot) | uint32_t(v.avx) << 3 | uint32_t(v.avx512) << 4 | uint32_t(v.fp) << 5 | uint32_t(v.unav) << 6;
  return v;
}
static void fn_apply(Ctx& c, FuncNode* fn, const FnVar& v) {
  FuncFrame& fr = fn->frame();
  if (v.avx) fr.set_avx_enabled();
  if (v.avx512) fr.set_avx512_enabled();
  if (v.fp) fr.set_preserved_fp();
  if (v.unav) fr.add_unavailable_regs(RegGroup::kGp, c.arch == A_X86 ? 0x40u /* esi */ : c.arch == A_X64 ? 0x3040u /* rsi r12 r13 */ : 0x180200u /* x9 x19 x20 */);
  g_fn_log.push_back(v.code);
  if (c.counted) { g_fn_variants[fam_of(c.arch)][v.code & 63]++; g_fn_cc[c.arch][v.slot]++; }
}

static void xf_spill(x86::Compiler& cc, Ctx& c, Rng& r) {
  bool w = c.arch == A_X64;
  ADD_FUNC(cc, int, int*, int);
  x86::Gp p = cc.new_gp_ptr("p"), n = cc.new_gp32("n");
  fn->set_arg(0, p); fn->set_arg(1, n);
  uint32_t nregs = (w ? 17 : 9) + uint32_t(r.below(6));
  std::vector<x86::Gp> v;
  for (uint32_t i = 0; i < nregs; i++) v.push_back(cc.new_gp32("v%u", i));
  for (size_t i = 0; i < v.size(); i++) T(cc.mov(v[i], int(i * 3 + 1)));
  x86::Mem stk = cc.new_stack(16, 16, "slot");
  Label loop = cc.new_label(), done = cc.new_label();
  T(cc.test(n, n)); T(cc.jz(done));
  T(cc.bind(loop));
  for (size_t i = 0; i < v.size(); i++) T(cc.add(v[i], x86::dword_ptr(p, int32_t(i * 4))));
  { x86::Mem m = stk; m.set_size(4); T(cc.mov(m, v[0])); T(cc.add(v[v.size() - 1], m)); }
  T(cc.dec(n)); T(cc.jnz(loop));
  T(cc.bind(done));
  x86::Gp sum = cc.new_gp32("sum");
  T(cc.xor_(sum, sum));
  for (size_t i = 0; i < v.size(); i++) T(cc.add(sum, v[i]));
  T(cc.ret(sum));
  T(cc.end_func());
}

static void xf_vec(x86::Compiler& cc, Ctx& c, Rng& r) {
  bool w = c.arch == A_X64;
  ADD_FUNC(cc, int, int);
  x86::Gp sum = cc.new_gp32("vsum");
  fn->set_arg(0, sum);
  std::vector<x86::Vec> x;
  uint32_t nx = (w ? 18u : 9u) + uint32_t(r.below(3));
  for (uint32_t i = 0; i < nx; i++) x.push_back(cc.new_xmm("x%u", i));
  for (size_t i = 0; i < x.size(); i++) { T(cc.movd(x[i], sum)); T(cc.paddd(x[i], x[i])); }
  for (size_t i = 1; i < x.size(); i++) T(cc.paddd(x[0], x[i]));
  T(cc.movd(sum, x[0]));
  T(cc.ret(sum));
  T(cc.end_func());
}

static void xf_invoke(x86::Compiler& cc, Ctx& c, Rng& r) {
  ADD_FUNC(cc, int, int, int);
  x86::Gp a = cc.new_gp32("a"), b = cc.new_gp32("b");
  fn->set_arg(0, a); fn->set_arg(1, b);
  std::vector<x86::Gp> t;
  for (uint32_t i = 0; i < 10; i++) { t.push_back(cc.new_gp32("t%u", i)); T(cc.mov(t[i], int(i + 10 + r.below(5)))); }
  T(cc.add(t[0], a)); T(cc.add(t[1], b));
  for (int rep = 0; rep < 1 + int(c.seed & 1); rep++) {
    InvokeNode* inv = nullptr;
    int islot; CallConvId icc = draw_cc(c, r, &islot); if (c.counted) g_invoke_cc[c.arch][islot]++;   // callee pops the stack / shadow space / other argument registers
    T(cc.invoke(Out(inv), imm(callee_addr(c.arch, 1)), FuncSignature::build<int, int, int, int, int, int, int, int, int, int, int>(icc)));
    if (inv) { for (uint32_t i = 0; i < 10; i++) inv->set_arg(i, t[(i + rep) % 10]); inv->set_ret(0, t[rep]); }
  }
  x86::Vec d0 = cc.new_xmm_sd("d0"), d1 = cc.new_xmm_sd("d1");
  T(cc.cvtsi2sd(d0, t[0])); T(cc.cvtsi2sd(d1, t[1]));
  InvokeNode* inv = nullptr;
  T(cc.invoke(Out(inv), imm(callee_addr(c.arch, 2)), FuncSignature::build<double, double, int, double>()));
  if (inv) { inv->set_arg(0, d0); inv->set_arg(1, t[2]); inv->set_arg(2, d1); inv->set_ret(0, d0); }
  T(cc.cvttsd2si(t[3], d0));
  T(cc.add(t[0], t[3]));
  T(cc.ret(t[0]));
  T(cc.end_func());
}

static void xf_jumptab(x86::Compiler& cc, Ctx& c, Rng& r) {
  bool w = c.arch == A_X64;
  ADD_FUNC(cc, int, int, int);
  x86::Gp op = cc.new_gp32("op"), val = cc.new_gp32("val"), target = cc.new_gp_ptr("target"), offset = cc.new_gp_ptr("offset");
  fn->set_arg(0, op); fn->set_arg(1, val);
  uint32_t ncase = 3 + uint32_t(r.below(5));
  Label tab = cc.new_label(), end = cc.new_label();
  std::vector<Label> cs;
  for (uint32_t i = 0; i < ncase; i++) cs.push_back(cc.new_label());
  T(cc.lea(offset, x86::ptr(tab)));
  if (w) T(cc.movsxd(target, x86::dword_ptr(offset, op.clone_as(offset), 2)));
  else T(cc.mov(target, x86::dword_ptr(offset, op.clone_as(offset), 2)));
  T(cc.add(target, offset));
  // two annotations per function when the seed says so (the annotation vector grows)
  for (uint32_t rep = 0; rep < 1 + (c.seed & 1); rep++) {
    JumpAnnotation* ann = cc.new_jump_annotation();
    c.tr.flag(ann != nullptr);
    if (!ann) break;
    for (auto& l : cs) T(ann->add_label(l));
    if (rep == 0) T(cc.jmp(target, ann));
  }
  for (uint32_t i = 0; i < ncase; i++) {
    T(cc.bind(cs[i]));
    switch (i % 5) { case 0: T(cc.add(val, 7)); break; case 1: T(cc.sub(val, 3)); break; case 2: T(cc.imul(val, val)); break; case 3: T(cc.neg(val)); break; default: T(cc.not_(val)); break; }
    if (i + 1 != ncase) T(cc.jmp(end));
  }
  T(cc.bind(end));
  T(cc.ret(val));
  T(cc.end_func());
  T(cc.bind(tab));
  for (auto& l : cs) T(cc.embed_label_delta(l, tab, 4));
}

static void xf_cpool(x86::Compiler& cc, Ctx& c, Rng& r, bool global) {
  ADD_FUNC(cc, int, int);
  x86::Gp a = cc.new_gp32("a");
  fn->set_arg(0, a);
  x86::Vec x0 = cc.new_xmm("c0"), x1 = cc.new_xmm("c1");
  uint8_t data[64]; for (size_t i = 0; i < 64; i++) data[i] = uint8_t(i * 5 + (c.seed & 3));
  ConstPoolScope big = global ? ConstPoolScope::kGlobal : ConstPoolScope::kLocal;
  size_t wsz = size_t(16) << (c.seed % 3);                       // the pool (emitted behind the function / behind all code) is aligned to 16 / 32 / 64
  x86::Mem c32 = cc.new_const(big, data, wsz); note_new_const(c, big, wsz);
  x86::Mem c16 = cc.new_const(ConstPoolScope::kLocal, data + 16, 16); note_new_const(c, ConstPoolScope::kLocal, 16);
  x86::Mem c4 = cc.new_int32_const(ConstPoolScope::kLocal, 200 + int(r.below(4)));
  x86::Mem c8 = cc.new_qword_const(big, 0x1122334455667788ull);
  x86::Mem cd = cc.new_double_const(ConstPoolScope::kLocal, 3.25);
  x86::Mem m16 = c32; m16.set_size(16);
  T(cc.movdqu(x0, m16)); T(cc.paddb(x0, c16));
  T(cc.movd(x1, a)); T(cc.paddd(x0, x1));
  T(cc.add(a, c4));
  T(cc.movq(x1, c8)); T(cc.paddd(x0, x1));
  T(cc.addsd(x1, cd));
  T(cc.movd(a, x0));
  T(cc.ret(a));
  T(cc.end_func());
}


// Vector shifts by immediate: their register source may be turned into a memory operand only when the HOLDER's CPU features
// (CodeHolder::init(env, features)) include AVX-512. Under register pressure the allocator's output therefore depends on
// CodeHolder::cpu_features() - which reinit() keeps and reset() drops.
static void xf_rmfeat(x86::Compiler& cc, Ctx& c, Rng& r) {
  bool w = c.arch == A_X64;
  FnVar fv = fn_var(c, r); fv.avx = true; fv.avx512 = false; fv.code = (fv.code | 8u) & ~16u;   // VEX moves, 16 vector registers
  FuncNode* fn = cc.add_func(FuncSignature::build<int, int>(fv.cc));
  c.tr.flag(fn != nullptr); if (!fn) return;
  fn_apply(c, fn, fv);
  x86::Gp a = cc.new_gp32("a");
  fn->set_arg(0, a);
  uint32_t nx = (w ? 18u : 10u) + uint32_t(r.below(3));
  std::vector<x86::Vec> x;
  for (uint32_t i = 0; i < nx; i++) { x.push_back(cc.new_xmm("s%u", i)); T(cc.vmovd(x[i], a)); T(cc.vpaddd(x[i], x[i], x[i])); }
  x86::Vec acc = cc.new_xmm("acc"), t = cc.new_xmm("t");
  T(cc.vpxor(acc, acc, acc));
  for (uint32_t rep = 0; rep < 2; rep++)
    for (uint32_t i = 0; i < nx; i++) {
      switch ((i + rep + uint32_t(c.seed)) % 5) {
        case 0: T(cc.vpslld(t, x[i], imm(3))); break;
        case 1: T(cc.vpsrlw(t, x[i], imm(2))); break;
        case 2: T(cc.vpsrad(t, x[i], imm(1 + (c.seed & 3)))); break;
        case 3: T(cc.vpsllq(t, x[i], imm(5))); break;
        default: T(cc.vpsrldq(t, x[i], imm(4))); break;
      }
      T(cc.vpaddd(acc, acc, t));
    }
  x86::Gp g = cc.new_gp32("g");
  T(cc.pextrw(g, acc, imm(uint32_t(c.seed & 7))));
  T(cc.add(a, g));
  T(cc.vmovd(g, acc));
  T(cc.add(a, g));
  T(cc.ret(a));
  T(cc.end_func());
}

// Ten integer arguments, all live at once: more arguments than argument registers (stack arguments; on 32-bit targets arguments
// that stay in their stack slot), callee-pops conventions return with `ret imm`.
static void xf_manyargs(x86::Compiler& cc, Ctx& c, Rng& r) {
  ADD_FUNC(cc, int, int, int, int, int, int, int, int, int, int, int);
  std::vector<x86::Gp> a;
  for (uint32_t i = 0; i < 10; i++) { a.push_back(cc.new_gp32("arg%u", i)); fn->set_arg(i, a[i]); }
  uint32_t nt = 2 + uint32_t(r.below(6));
  std::vector<x86::Gp> t;
  for (uint32_t i = 0; i < nt; i++) { t.push_back(cc.new_gp32("m%u", i)); T(cc.mov(t[i], int(i * 7 + 1))); }
  for (uint32_t i = 0; i < nt; i++) T(cc.imul(t[i], a[(i * 3) % 10]));
  for (uint32_t i = 1; i < 10; i++) T(cc.add(a[0], a[i]));
  for (uint32_t i = 0; i < nt; i++) T(cc.add(a[0], t[i]));
  T(cc.ret(a[0]));
  T(cc.end_func());
}

#define XC x86::Compiler& cc = *static_cast<x86::Compiler*>(c.e)
static void xc_spill(Ctx& c) { XC; Rng r(c.seed * 211 + 1); xf_spill(cc, c, r); }
static void xc_vec(Ctx& c) { XC; Rng r(c.seed * 211 + 2); xf_vec(cc, c, r); }
static void xc_invoke(Ctx& c) { XC; Rng r(c.seed * 211 + 3); xf_invoke(cc, c, r); }
static void xc_jumptab(Ctx& c) { XC; Rng r(c.seed * 211 + 4); xf_jumptab(cc, c, r); }
static void xc_cpool(Ctx& c) { XC; Rng r(c.seed * 211 + 5); xf_cpool(cc, c, r, false); }
static void xc_gcpool(Ctx& c) { XC; Rng r(c.seed * 211 + 6); xf_cpool(cc, c, r, true); if (c.seed & 1) xf_cpool(cc, c, r, true); }
static void xc_rmfeat(Ctx& c) { XC; Rng r(c.seed * 211 + 10); xf_rmfeat(cc, c, r); }
static void xc_manyargs(Ctx& c) { XC; Rng r(c.seed * 211 + 11); xf_manyargs(cc, c, r); }
static void xc_multi(Ctx& c) {
  XC; Rng r(c.seed * 211 + 7);
  uint32_t n = 3 + uint32_t(r.below(3));
  for (uint32_t i = 0; i < n; i++) {
    T(cc.align(AlignMode::kCode, 16));
    switch ((c.seed + i * 3) % 7) {
      case 0: xf_spill(cc, c, r); break; case 1: xf_vec(cc, c, r); break; case 2: xf_invoke(cc, c, r); break; case 3: xf_jumptab(cc, c, r); break;
      case 4: xf_cpool(cc, c, r, false); break; case 5: xf_rmfeat(cc, c, r); break; default: xf_manyargs(cc, c, r); break;
    }
  }
}
// Two functions that use the same virtual registers (created before the first function).
static void xc_shared(Ctx& c) {
  XC; Rng r(c.seed * 211 + 8);
  x86::Gp s0 = cc.new_gp32("shared0"), s1 = cc.new_gp32("shared1");
  std::vector<x86::Gp> v;
  for (uint32_t i = 0; i < 16; i++) v.push_back(cc.new_gp32("sv%u", i));
  for (int f = 0; f < 2; f++) {
    ADD_FUNC(cc, int, int);
    fn->set_arg(0, s0);
    T(cc.mov(s1, 5 + f));
    uint32_t nv = f == 0 ? 16u : 4u + uint32_t(r.below(4));     // the first function spills, the second does not have to
    for (uint32_t i = 0; i < nv; i++) T(cc.mov(v[i], int(i + 1)));
    for (uint32_t i = 0; i < nv; i++) T(cc.add(s1, v[i]));
    T(cc.add(s0, s1));
    T(cc.ret(s0));
    T(cc.end_func());
  }
}
// A function that is never closed and jumps to a label nobody binds.
static void xc_open(Ctx& c) {
  XC; Rng r(c.seed * 211 + 9);
  ADD_FUNC(cc, int, int);
  x86::Gp a = cc.new_gp32("a"), b = cc.new_gp32("b");
  fn->set_arg(0, a);
  Label nowhere = cc.new_label();
  T(cc.mov(b, 3)); T(cc.add(a, b));
  if (c.seed & 1) T(cc.jz(nowhere));
  x86::Mem k = cc.new_int32_const(ConstPoolScope::kLocal, 77);   // local pool stays pending
  T(cc.add(a, k));
  if (c.seed & 2) T(cc.ret(a));
}

// ---- AArch64, any emitter kind -----------------------------------------------------------------------------
#define AE auto& e = *c.e->as<a64::Emitter>()

static void a_filler(Ctx& c, Rng& r, uint32_t n) {
  AE;
  for (uint32_t i = 0; i < n; i++) {
    switch (r.below(8)) {
      case 0: T(e.add(a64::x1, a64::x1, a64::x2, a64::lsl(uint32_t(r.below(8))))); break;
      case 1: T(e.mov(a64::x4, uint64_t(r.next() & 0xFFFFFFFFFFull))); break;
      case 2: T(e.ldr(a64::x5, a64::ptr(a64::x6, int32_t(r.below(64)) * 8))); break;
      case 3: T(e.str(a64::w7, a64::ptr(a64::x6, int32_t(r.below(64)) * 4))); break;
      case 4: T(e.add(a64::v0.s4(), a64::v1.s4(), a64::v2.s4())); break;
      case 5: T(e.madd(a64::x8, a64::x9, a64::x10, a64::x11)); break;
      case 6: T(e.and_(a64::w3, a64::w3, 0xFF00)); break;
      default: T(e.subs(a64::x0, a64::x0, uint64_t(1 + r.below(100)))); break;
    }
  }
}

static void ap_plain(Ctx& c) { AE; Rng r(c.seed * 1000003 + 21); T(e.mov(a64::x0, 100)); a_filler(c, r, 6 + uint32_t(r.below(40))); T(e.ret(a64::x30)); }

static void ap_labels(Ctx& c) {
  AE; Rng r(c.seed * 7919 + 23);
  Label top = NL(c), fwd = NL(c), lit = NL(c), end = NL(c);
  T(e.bind(top));
  T(e.ldr(a64::x2, a64::ptr(lit)));
  T(e.adr(a64::x3, end));
  a_filler(c, r, 2 + uint32_t(r.below(4)));
  T(e.b_ne(top)); T(e.b(fwd));
  a_filler(c, r, (c.seed & 1) ? 60 : 3);
  T(e.bind(fwd));
  T(e.cbz(a64::x1, end)); T(e.tbnz(a64::x1, 3, end)); T(e.bl(top));
  a_filler(c, r, (c.seed & 2) ? 40 : 2);
  T(e.bind(end));
  T(e.ret(a64::x30));
  T(e.align(AlignMode::kData, 8));
  T(e.bind(lit)); T(e.embed_uint64(0x1122334455667788ull + c.seed));
}

static void ap_err(Ctx& c) {
  AE; Rng r(c.seed * 31 + 25);
  Label l = NL(c);
  T(e.mov(a64::x0, 1));
  T(e.emit(a64::Inst::kIdAdd, a64::x0, a64::v1.s4(), a64::x2));   // no such form
  a_filler(c, r, uint32_t(r.below(5)));
  T(e.emit(a64::Inst::kIdLdr, a64::x0));                          // operand count
  T(e.b(Label(0x123456u)));                                       // label that does not exist
  T(e.add(a64::x0, a64::x0, uint64_t(0x123456789ull)));           // immediate not encodable
  T(e.cbz(a64::x0, l));
  if ((c.seed & 1) && c.kind == K_ASM) T(e.bind(l));              // bound twice when seed is odd (assembler only, see xp_err_bind2)
  T(e.bind(l));
  T(e.ret(a64::x30));
}

static void ap_unbound(Ctx& c) {
  AE; Rng r(c.seed * 17 + 27);
  Label a = NL(c), b = NL(c), f = NL(c), d = NL(c);
  T(e.b(a)); T(e.cbz(a64::x0, b)); T(e.bl(f));
  T(e.bind(a));
  a_filler(c, r, 2 + uint32_t(r.below(8)));
  T(e.adr(a64::x1, d)); T(e.ldr(a64::x2, a64::ptr(d)));
  for (uint32_t i = 0; i < 1 + (c.seed & 3); i++) T(e.tbz(a64::x3, 5, b));
  T(e.ret(a64::x30));
}

static void ap_sections(Ctx& c) {
  AE; Rng r(c.seed * 97 + 29);
  Section *sd = nullptr, *sc = nullptr;
  T(c.code.new_section(Out(sd), ".data", SIZE_MAX, SectionFlags::kNone, 8, 1 + int32_t(c.seed & 1)));
  T(c.code.new_section(Out(sc), ".cold", SIZE_MAX, SectionFlags::kExecutable, 16, (c.seed & 2) ? -1 : 0));
  Label entry = NL(c), cold = NL(c), tab = NL(c), end = NL(c);
  T(e.bind(entry));
  T(e.adr(a64::x3, tab));
  T(e.bl(cold));
  a_filler(c, r, 2 + uint32_t(r.below(6)));
  T(e.bind(end));
  T(e.ret(a64::x30));
  if (sc) { T(e.section(sc)); T(e.bind(cold)); T(e.mov(a64::w0, 0)); T(e.b(end)); }
  if (sd) {
    T(e.section(sd)); T(e.bind(tab));
    T(e.embed_label(entry)); T(e.embed_label(cold));
    T(e.embed_label_delta(end, entry, 4));
    T(e.embed_label_delta(cold, entry, 8));
    T(e.embed(kBlob, 16 + (c.seed % 9)));
  }
  T(e.section(c.code.text_section()));
  T(e.nop());
}

static void ap_embed(Ctx& c) {
  AE; Rng r(c.seed * 61 + 31);
  Label a = NL(c), b = NL(c), pool = NL(c);
  T(e.bind(a));
  a_filler(c, r, 1 + uint32_t(r.below(5)));
  T(e.ret(a64::x30));
  T(e.bind(b));
  T(e.embed(kBlob, 4 * (1 + (c.seed % 10))));
  static const uint32_t arr[4] = { 0x11111111u, 0x22222222u, 0x33333333u, 0x44444444u };
  T(e.embed_data_array(TypeId::kUInt32, arr, 4, 1 + (c.seed & 3)));
  T(e.embed_label_delta(b, a, 4));
  {
    Arena ar(4096); ConstPool cp(ar);
    for (uint32_t i = 0; i < 3 + (c.seed & 3); i++) { uint64_t v = 0x0101010101010101ull * (i + 1) + c.seed; size_t off; T(cp.add(&v, 8, Out(off))); }
    T(e.embed_const_pool(pool, cp));
  }
  T(e.align(AlignMode::kCode, 16));
  T(e.ret(a64::x30));
}

// 4 .. 60 bytes of instructions, then (offgrid) 1 .. 3 bytes of data
static void a_pad(Ctx& c, Rng& r, uint64_t& moff, bool offgrid) {
  AE; uint32_t n4 = (offgrid ? 0u : 1u) + uint32_t(r.below(15));
  for (uint32_t i = 0; i < n4; i++) { if (i & 1) T(e.nop()); else T(e.add(a64::x1, a64::x1, a64::x2)); moff += 4; }
  if (offgrid) { uint32_t b = 1 + uint32_t(r.below(3)); T(e.embed(kBlob, b)); moff += b; }
}

static void ap_aligns(Ctx& c) {
  AE; Rng r(c.seed * 83 + 39);
  uint64_t moff = 0, base = asm_offset(c);
  uint8_t order[21]; for (uint8_t i = 0; i < 21; i++) order[i] = i;
  for (uint32_t i = 20; i > 0; i--) std::swap(order[i], order[r.below(i + 1)]);
  std::vector<Label> ls;
  Label first = NL(c); T(e.bind(first));
  for (uint32_t i = 0; i < 21; i++) {
    AlignMode mode = AlignMode(order[i] / 7); uint32_t a = 1u << (order[i] % 7);
    // kCode pads with instructions: legal on the 4-byte grid only; data modes are also used behind 1 .. 3 stray bytes
    a_pad(c, r, moff, mode != AlignMode::kCode && r.chance(3, 4));
    if (a > 4 && !(moff & (a - 1))) { T(e.nop()); moff += 4; }
    do_align(c, moff, base, mode, a);
    if (moff & 3) do_align(c, moff, base, r.chance(1, 2) ? AlignMode::kZero : AlignMode::kData, 4);   // back onto the grid
    Label l = NL(c); T(e.bind(l)); ls.push_back(l);
    T(e.mov(a64::w0, uint64_t(0x100 + order[i]))); moff += 4;
  }
  T(e.b(first)); T(e.cbz(a64::x1, ls[3])); T(e.adr(a64::x3, ls[10])); T(e.bl(ls[17]));
  T(e.ret(a64::x30));
}

static void ap_cpools(Ctx& c) {
  AE; Rng r(c.seed * 89 + 41);
  uint64_t moff = 0, base = asm_offset(c);
  Label a = NL(c), p1 = NL(c), p2 = NL(c), p3 = NL(c);
  T(e.bind(a)); T(e.mov(a64::w0, uint64_t(c.seed + 1))); T(e.ret(a64::x30)); moff += 8;
  a_pad(c, r, moff, r.chance(3, 4));
  do_pool(c, moff, p1, 16u << (c.seed % 3), 1 + uint32_t(r.below(2)), uint32_t(r.below(4)));
  if (moff & 3) do_align(c, moff, base, AlignMode::kZero, 4);
  a_pad(c, r, moff, r.chance(3, 4));
  do_pool(c, moff, p2, 16u << ((c.seed / 3 + 1) % 3), 1, 1 + uint32_t(r.below(3)));
  if (moff & 3) do_align(c, moff, base, AlignMode::kData, 4);
  a_pad(c, r, moff, r.chance(3, 4));
  do_pool(c, moff, p3, 0, 0, 1 + uint32_t(r.below(3)));
  if (moff & 3) do_align(c, moff, base, AlignMode::kZero, 4);
  a_pad(c, r, moff, false);
  do_align(c, moff, base, AlignMode::kCode, 16);
  T(e.ldr(a64::x2, a64::ptr(p1))); T(e.adr(a64::x3, p2));
  T(e.b(a));
  T(e.ret(a64::x30));
  (void)p3;
}

static void ap_named(Ctx& c) {
  AE;
  Label g = NNL(c, c.pfx + "main");
  Label loc = NNL(c, ".inner", LabelType::kLocal, g.id());
  T(e.bind(g)); T(e.b(loc)); T(e.nop()); T(e.bind(loc));
  uint32_t n = 3 + uint32_t(c.seed % 23);
  for (uint32_t i = 0; i < n; i++) { Label l = NNL(c, c.pfx + fmtv("n%u", i)); T(e.bind(l)); T(e.nop()); if (i & 1) T(e.b(l)); }
  T(e.ret(a64::x30));
  c.tr.flag(c.code.label_by_name((c.pfx + "main").c_str()).is_valid());
  c.tr.flag(c.code.label_by_name((c.pfx + fmtv("n%u", n)).c_str()).is_valid());
  c.tr.flag(c.code.label_by_name((c.pfx + fmtv("n%u", n + 7)).c_str()).is_valid());
  c.tr.flag(c.code.label_by_name("never_defined").is_valid());
}

static void ap_big(Ctx& c) {
  AE; Rng r(c.seed * 71 + 33);
  uint32_t n = (c.seed & 3) == 3 ? 9000 : 400 + uint32_t(r.below(300));
  Label next = NL(c), top = NL(c);
  T(e.bind(top));
  for (uint32_t i = 0; i < n; i++) {
    T(e.mov(a64::x4, uint64_t(i) * 0x10001u));
    T(e.add(a64::x1, a64::x1, a64::x4));
    if (i % 16 == 0) T(e.cbz(a64::x1, next));
    if (i % 16 == 9) { T(e.bind(next)); next = NL(c); }
    if (i % 200 == 0) T(e.b_ne(top));
  }
  T(e.bind(next));
  T(e.ret(a64::x30));
}

static void ap_bldnodes(Ctx& c) {
  AE; Rng r(c.seed * 73 + 35);
  BaseBuilder* b = static_cast<BaseBuilder*>(c.e);
  T(e.mov(a64::x0, 1));
  BaseNode* n1 = b->cursor();
  bld_nodes(c, b);
  T(e.add(a64::x0, a64::x0, 2));
  BaseNode* n2 = b->cursor();
  T(e.sub(a64::x0, a64::x0, 3));
  if (n2 && n2 != n1) b->remove_node(n2);
  BaseNode* last = b->cursor();
  if (n1) b->set_cursor(n1);
  T(e.nop());
  b->set_cursor(last);
  a_filler(c, r, uint32_t(r.below(5)));
  T(e.commentf("seed %u", unsigned(c.seed)));
  T(e.ret(a64::x30));
}

static void ap_leftover(Ctx& c) {
  AE; Rng r(c.seed * 79 + 37);
  Section* sj = nullptr;
  T(c.code.new_section(Out(sj), ".junk", SIZE_MAX, SectionFlags::kExecutable, 4, 0));
  Label a = NL(c), b = NL(c);
  T(e.b(a));
  if (sj) T(e.section(sj));
  T(e.bind(b));
  T(e.cbz(a64::x0, a));
  a_filler(c, r, 1 + uint32_t(r.below(4)));
}

// ---- AArch64 Compiler functions ------------------------------------------------------------------------------
static void af_spill(a64::Compiler& cc, Ctx& c, Rng& r) {
  ADD_FUNC(cc, int, int*, int);
  a64::Gp p = cc.new_gp_ptr("p"), n = cc.new_gp32("n");
  fn->set_arg(0, p); fn->set_arg(1, n);
  uint32_t nregs = 32 + uint32_t(r.below(6));
  std::vector<a64::Gp> v;
  for (uint32_t i = 0; i < nregs; i++) v.push_back(cc.new_gp32("v%u", i));
  for (size_t i = 0; i < v.size(); i++) T(cc.mov(v[i], uint64_t(i * 3 + 1)));
  Label loop = cc.new_label(), done = cc.new_label();
  a64::Gp tmp = cc.new_gp32("tmp");
  T(cc.cbz(n, done));
  T(cc.bind(loop));
  for (size_t i = 0; i < v.size(); i++) { T(cc.ldr(tmp, a64::ptr(p, int32_t(i * 4)))); T(cc.add(v[i], v[i], tmp)); }
  T(cc.subs(n, n, 1)); T(cc.b_ne(loop));
  T(cc.bind(done));
  a64::Gp sum = cc.new_gp32("sum");
  T(cc.mov(sum, 0));
  for (size_t i = 0; i < v.size(); i++) T(cc.add(sum, sum, v[i]));
  T(cc.ret(sum));
  T(cc.end_func());
}

static void af_vec(a64::Compiler& cc, Ctx& c, Rng& r) {
  ADD_FUNC(cc, int, int);
  a64::Gp sum = cc.new_gp32("sum");
  fn->set_arg(0, sum);
  std::vector<a64::Vec> q;
  uint32_t nq = 34 + uint32_t(r.below(3));
  for (uint32_t i = 0; i < nq; i++) q.push_back(cc.new_vec_q("q%u", i));
  for (size_t i = 0; i < q.size(); i++) T(cc.dup(q[i].s4(), sum));
  for (size_t i = 1; i < q.size(); i++) T(cc.add(q[0].s4(), q[0].s4(), q[i].s4()));
  T(cc.mov(sum, q[0].s(0)));
  T(cc.ret(sum));
  T(cc.end_func());
}

static void af_invoke(a64::Compiler& cc, Ctx& c, Rng& r) {
  ADD_FUNC(cc, int, int, int);
  a64::Gp a = cc.new_gp32("a"), b = cc.new_gp32("b"), f = cc.new_gp_ptr("fn");
  fn->set_arg(0, a); fn->set_arg(1, b);
  std::vector<a64::Gp> t;
  for (uint32_t i = 0; i < 10; i++) { t.push_back(cc.new_gp32("t%u", i)); T(cc.mov(t[i], uint64_t(i + 10 + r.below(5)))); }
  T(cc.add(t[0], t[0], a)); T(cc.add(t[1], t[1], b));
  T(cc.mov(f, uint64_t(0x0000123456789ABCull)));
  InvokeNode* inv = nullptr;
  T(cc.invoke(Out(inv), f, FuncSignature::build<int, int, int, int, int, int, int, int, int, int, int>()));
  if (inv) { for (uint32_t i = 0; i < 10; i++) inv->set_arg(i, t[i]); inv->set_ret(0, t[0]); }
  a64::Vec d0 = cc.new_vec_d("d0"), d1 = cc.new_vec_d("d1");
  T(cc.scvtf(d0, t[0])); T(cc.scvtf(d1, t[1]));
  InvokeNode* inv2 = nullptr;
  T(cc.invoke(Out(inv2), f, FuncSignature::build<double, double, int, double>()));
  if (inv2) { inv2->set_arg(0, d0); inv2->set_arg(1, t[2]); inv2->set_arg(2, d1); inv2->set_ret(0, d0); }
  T(cc.fcvtzs(t[3], d0));
  T(cc.add(t[0], t[0], t[3]));
  T(cc.ret(t[0]));
  T(cc.end_func());
}

static void af_jumptab(a64::Compiler& cc, Ctx& c, Rng& r, int cpool /*0 none, 1 local, 2 global*/) {
  ADD_FUNC(cc, int, int, int);
  a64::Gp op = cc.new_gp32("op"), val = cc.new_gp32("val"), target = cc.new_gp_ptr("target"), offset = cc.new_gp_ptr("offset");
  fn->set_arg(0, op); fn->set_arg(1, val);
  uint32_t ncase = 3 + uint32_t(r.below(4));
  Label tab = cc.new_label(), end = cc.new_label();
  std::vector<Label> cs;
  for (uint32_t i = 0; i < ncase; i++) cs.push_back(cc.new_label());
  T(cc.adr(target, tab));
  T(cc.ldrsw(offset, a64::ptr(target, op, a64::sxtw(2))));
  T(cc.add(target, target, offset));
  for (uint32_t rep = 0; rep < 1 + (c.seed & 1); rep++) {
    JumpAnnotation* ann = cc.new_jump_annotation();
    c.tr.flag(ann != nullptr);
    if (!ann) break;
    for (auto& l : cs) T(ann->add_label(l));
    if (rep == 0) T(cc.br(target, ann));
  }
  for (uint32_t i = 0; i < ncase; i++) {
    T(cc.bind(cs[i]));
    switch (i % 4) { case 0: T(cc.add(val, val, 7)); break; case 1: T(cc.sub(val, val, 3)); break; case 2: T(cc.mul(val, val, val)); break; default: T(cc.neg(val, val)); break; }
    if (i + 1 != ncase) T(cc.b(end));
  }
  T(cc.bind(end));
  if (cpool) {
    uint8_t data[16]; for (size_t i = 0; i < 16; i++) data[i] = uint8_t(i * 9 + 1 + (c.seed & 3));
    ConstPoolScope big = cpool == 2 ? ConstPoolScope::kGlobal : ConstPoolScope::kLocal;
    a64::Mem c16 = cc.new_const(ConstPoolScope::kLocal, data, 16); note_new_const(c, ConstPoolScope::kLocal, 16);
    a64::Mem c8 = cc.new_const(big, data + 8, 8); note_new_const(c, big, 8);
    a64::Vec q = cc.new_vec_q("cq"); a64::Gp g64 = cc.new_gp64("c8");
    T(cc.ldr(q, c16)); T(cc.ldr(g64, c8)); T(cc.add(val, val, g64.w())); T(cc.mov(op, q.s(1))); T(cc.add(val, val, op));
    // a constant of 16 / 32 / 64 bytes: the pool is aligned to its size
    uint8_t wd[64]; for (size_t i = 0; i < 64; i++) wd[i] = uint8_t(i * 7 + 3 + (c.seed & 3));
    size_t wsz = size_t(16) << (c.seed % 3);
    a64::Mem cw = cc.new_const(big, wd, wsz); note_new_const(c, big, wsz);
    a64::Vec q2 = cc.new_vec_q("cw");
    T(cc.ldr(q2, cw)); T(cc.mov(op, q2.s(2))); T(cc.add(val, val, op));
  }
  T(cc.ret(val));
  T(cc.end_func());
  T(cc.bind(tab));
  for (auto& l : cs) T(cc.embed_label_delta(l, tab, 4));
}


static void af_manyargs(a64::Compiler& cc, Ctx& c, Rng& r) {
  ADD_FUNC(cc, int, int, int, int, int, int, int, int, int, int, int);
  std::vector<a64::Gp> a;
  for (uint32_t i = 0; i < 10; i++) { a.push_back(cc.new_gp32("arg%u", i)); fn->set_arg(i, a[i]); }
  uint32_t nt = 2 + uint32_t(r.below(6));
  std::vector<a64::Gp> t;
  for (uint32_t i = 0; i < nt; i++) { t.push_back(cc.new_gp32("m%u", i)); T(cc.mov(t[i], uint64_t(i * 7 + 1))); }
  for (uint32_t i = 0; i < nt; i++) T(cc.mul(t[i], t[i], a[(i * 3) % 10]));
  for (uint32_t i = 1; i < 10; i++) T(cc.add(a[0], a[0], a[i]));
  for (uint32_t i = 0; i < nt; i++) T(cc.add(a[0], a[0], t[i]));
  T(cc.ret(a[0]));
  T(cc.end_func());
}

#define AC a64::Compiler& cc = *static_cast<a64::Compiler*>(c.e)
static void ac_spill(Ctx& c) { AC; Rng r(c.seed * 223 + 1); af_spill(cc, c, r); }
static void ac_vec(Ctx& c) { AC; Rng r(c.seed * 223 + 2); af_vec(cc, c, r); }
static void ac_invoke(Ctx& c) { AC; Rng r(c.seed * 223 + 3); af_invoke(cc, c, r); }
static void ac_jumptab(Ctx& c) { AC; Rng r(c.seed * 223 + 4); af_jumptab(cc, c, r, 0); }
static void ac_cpool(Ctx& c) { AC; Rng r(c.seed * 223 + 5); af_jumptab(cc, c, r, 1); }
static void ac_gcpool(Ctx& c) { AC; Rng r(c.seed * 223 + 6); af_jumptab(cc, c, r, 2); }
static void ac_manyargs(Ctx& c) { AC; Rng r(c.seed * 223 + 11); af_manyargs(cc, c, r); }
static void ac_multi(Ctx& c) {
  AC; Rng r(c.seed * 223 + 7);
  uint32_t n = 3 + uint32_t(r.below(3));
  for (uint32_t i = 0; i < n; i++)
    switch ((c.seed + i * 3) % 6) {
      case 0: af_spill(cc, c, r); break; case 1: af_vec(cc, c, r); break; case 2: af_invoke(cc, c, r); break; case 3: af_jumptab(cc, c, r, 0); break;
      case 4: af_jumptab(cc, c, r, 1); break; default: af_manyargs(cc, c, r); break;
    }
}
static void ac_shared(Ctx& c) {
  AC; Rng r(c.seed * 223 + 8);
  a64::Gp s0 = cc.new_gp32("shared0"), s1 = cc.new_gp32("shared1");
  std::vector<a64::Gp> v;
  for (uint32_t i = 0; i < 32; i++) v.push_back(cc.new_gp32("sv%u", i));
  for (int f = 0; f < 2; f++) {
    ADD_FUNC(cc, int, int);
    fn->set_arg(0, s0);
    T(cc.mov(s1, uint64_t(5 + f)));
    uint32_t nv = f == 0 ? 32u : 4u + uint32_t(r.below(4));
    for (uint32_t i = 0; i < nv; i++) T(cc.mov(v[i], uint64_t(i + 1)));
    for (uint32_t i = 0; i < nv; i++) T(cc.add(s1, s1, v[i]));
    T(cc.add(s0, s0, s1));
    T(cc.ret(s0));
    T(cc.end_func());
  }
}
static void ac_open(Ctx& c) {
  AC; Rng r(c.seed * 223 + 9);
  ADD_FUNC(cc, int, int);
  a64::Gp a = cc.new_gp32("a"), b = cc.new_gp32("b");
  fn->set_arg(0, a);
  Label nowhere = cc.new_label();
  T(cc.mov(b, 3)); T(cc.add(a, a, b));
  if (c.seed & 1) T(cc.cbz(a, nowhere));
  if (c.seed & 2) T(cc.ret(a));
}

// ---- the pool ---------------------------------------------------------------------------------------------------
typedef void (*ProgFn)(Ctx&);
struct Prog { const char* name; ProgFn fn[2]; unsigned kinds; unsigned flags; };
static const Prog kProgs[] = {
  { "plain",     { xp_plain, ap_plain },       KM_ALL,  F_CLEAN | F_TEXTONLY },
  { "labels",    { xp_labels, ap_labels },     KM_ALL,  F_CLEAN | F_TEXTONLY },
  { "err_inst",  { xp_err_inst, ap_err },      KM_ALL,  F_ERR | F_LEFTOVER },
  { "err_bind2", { xp_err_bind2, nullptr },    KM_ALL,  F_ERR },
  { "unbound",   { xp_unbound, ap_unbound },   KM_ALL,  F_LEFTOVER },
  { "sections",  { xp_sections, ap_sections }, KM_ALL,  F_CLEAN | F_SECTIONS | F_RELOCS },
  { "aligns",    { xp_aligns, ap_aligns },     KM_ALL,  F_CLEAN | F_TEXTONLY | F_WIDEALIGN },
  { "cpools",    { xp_cpools, ap_cpools },     KM_ALL,  F_CLEAN | F_TEXTONLY | F_WIDEALIGN },
  { "farcall",   { xp_farcall, nullptr },      KM_ALL,  F_CLEAN | F_TEXTONLY | F_RELOCS | F_ABSCALL },
  { "reloc",     { xp_reloc, nullptr },        KM_ALL,  F_CLEAN | F_RELOCS },
  { "embed",     { xp_embed, ap_embed },       KM_ALL,  F_CLEAN | F_TEXTONLY },
  { "named",     { xp_named, ap_named },       KM_ALL,  F_CLEAN | F_TEXTONLY },
  { "big",       { xp_big, ap_big },           KM_ALL,  F_CLEAN | F_TEXTONLY },
  { "bldnodes",  { xp_bldnodes, ap_bldnodes }, KM_NODE, F_CLEAN | F_TEXTONLY },
  { "leftover",  { xp_leftover, ap_leftover }, KM_ALL,  F_LEFTOVER | F_SECTIONS | F_RELOCS },
  { "c_spill",   { xc_spill, ac_spill },       KM_CMP,  F_CLEAN | F_TEXTONLY },
  { "c_vec",     { xc_vec, ac_vec },           KM_CMP,  F_CLEAN | F_TEXTONLY },
  { "c_invoke",  { xc_invoke, ac_invoke },     KM_CMP,  F_CLEAN | F_TEXTONLY | F_RELOCS | F_ABSCALL },
  { "c_jumptab", { xc_jumptab, ac_jumptab },   KM_CMP,  F_CLEAN | F_TEXTONLY | F_ABS32 },
  { "c_cpool",   { xc_cpool, ac_cpool },       KM_CMP,  F_CLEAN | F_TEXTONLY | F_ABS32 | F_WIDEALIGN },
  { "c_gcpool",  { xc_gcpool, ac_gcpool },     KM_CMP,  F_CLEAN | F_GLOBALCP | F_WIDEALIGN },
  { "c_multi",   { xc_multi, ac_multi },       KM_CMP,  F_CLEAN | F_TEXTONLY | F_RELOCS | F_ABS32 | F_ABSCALL | F_WIDEALIGN | F_FEAT },
  { "c_shared",  { xc_shared, ac_shared },     KM_CMP,  F_CLEAN | F_TEXTONLY },
  { "c_rmfeat",  { xc_rmfeat, nullptr },       KM_CMP,  F_CLEAN | F_TEXTONLY | F_FEAT },
  { "c_manyargs",{ xc_manyargs, ac_manyargs }, KM_CMP,  F_CLEAN | F_TEXTONLY },
  { "c_open",    { xc_open, ac_open },         KM_CMP,  F_ERR | F_LEFTOVER },
};
static constexpr int kNumProgs = int(sizeof(kProgs) / sizeof(kProgs[0]));

static int pick_prog(Rng& r, int fam, int kind, unsigned need, unsigned forbid) {
  int cand[kNumProgs * 3]; int n = 0;
  for (int i = 0; i < kNumProgs; i++) {
    const Prog& p = kProgs[i];
    if (!p.fn[fam] || !(p.kinds & (1u << kind)) || (p.flags & need) != need || (p.flags & forbid)) continue;
    cand[n++] = i;
    if (kind == K_CMP && (p.kinds == KM_CMP)) cand[n++] = i, cand[n++] = i;   // compilers mostly compile functions
  }
  return n ? cand[r.below(uint64_t(n))] : 0;
}

// =========================================================================================================
// Running one probe (on recycled or on fresh objects)
// =========================================================================================================

struct ProbeSpec {
  int arch, kind, prog; uint32_t seed; bool base; uint32_t val; int fin; bool post; bool append; std::string pfx; int feat = 0;
  std::string str() const {
    return fmtv("%s/%s/%s/s%u/base%d/feat%d/val%u/fin%d/post%d/%s%s", kArchNames[arch], kKindNames[kind], kProgs[prog].name, seed, int(base), feat, val, fin, int(post),
                append ? "append:" : "full", append ? pfx.c_str() : "");
  }
};

// The holder's initialisation: selector 0 is the two-argument overload, 1 .. 3 pass a CPU feature set (see feat_of).
static Error do_init(CodeHolder& code, int arch, bool base, int feat) {
  uint64_t b = base ? base_of(arch) : Globals::kNoBaseAddress;
  return feat == 0 ? code.init(Environment(arch_of(arch)), b) : code.init(Environment(arch_of(arch)), feat_of(arch, feat), b);
}

static BaseEmitter* mk_emitter(int fam, int kind) {
  if (fam == 0) return kind == K_ASM ? static_cast<BaseEmitter*>(new x86::Assembler()) : kind == K_BLD ? static_cast<BaseEmitter*>(new x86::Builder()) : static_cast<BaseEmitter*>(new x86::Compiler());
  return kind == K_ASM ? static_cast<BaseEmitter*>(new a64::Assembler()) : kind == K_BLD ? static_cast<BaseEmitter*>(new a64::Builder()) : static_cast<BaseEmitter*>(new a64::Compiler());
}

// Generates Q through `em` (attached to `code`), finalizes, observes. `ser` = assembler to serialize into when fin == 1
// (attached by the caller). Returns the number of failed calls.
// Two halves, so that other things can happen between generating a program and finalizing / observing it.
static void probe_generate(Ctx& c, const ProbeSpec& sp, Label& marker) {
  c.counted = g_count_probe_calls;
  if (sp.append) {
    T(c.e->section(c.code.text_section()));   // (an assembler that was the target of serialize_to() stands in the LAST serialized section)
    T(c.e->align(AlignMode::kCode, 64));
    marker = c.e->new_label();
    T(c.e->bind(marker));
  }
  kProgs[sp.prog].fn[fam_of(sp.arch)](c);
}
static uint32_t probe_finish(Ctx& c, BaseEmitter* ser, const ProbeSpec& sp, const Label& marker, Fields& F) {
  if (sp.kind != K_ASM) {
    BaseBuilder* b = static_cast<BaseBuilder*>(c.e);
    if (sp.fin == 1 && ser) { T(b->run_passes()); T(b->serialize_to(ser)); }
    else T(c.e->finalize());
  }
  fadd(F, "trace", c.tr.s);
  if (sp.append) observe_slice(c.code, marker, F); else observe_full(c.code, sp.arch, sp.post, F);
  return c.tr.nerr;
}
static uint32_t run_probe(CodeHolder& code, BaseEmitter* em, BaseEmitter* ser, const ProbeSpec& sp, Fields& F) {
  Ctx c(code, em, sp.kind, sp.arch, sp.seed, sp.pfx);
  Label marker;
  probe_generate(c, sp, marker);
  return probe_finish(c, ser, sp, marker, F);
}

struct FreshResult { Fields f; uint32_t nerr; uint64_t hash; int res64 = -1; };
static std::map<std::string, FreshResult> g_fresh_cache;
static uint64_t g_fresh_runs = 0, g_fresh_hits = 0, g_steer_retries = 0;
static size_t g_last_text_capacity = 0;
static bool g_steer = !kAsanBuild;   // a 64-byte granule allocator cannot be steered: do not pay for the attempts

// Q on completely fresh objects in the canonical configuration. The heap is perturbed first (seeded by `pseed` and the probe);
// with `avoid` >= 0 the generation is repeated (at most 3 more times, more perturbation in between) until the .text buffer
// of the control lies on another residue mod 64 than the run it will be compared with.
static const FreshResult& fresh_control(const ProbeSpec& sp, uint64_t pseed = 0, int avoid = -1) {
  std::string key = sp.str();
  auto it = g_fresh_cache.find(key);
  if (it != g_fresh_cache.end()) { g_fresh_hits++; return it->second; }
  g_fresh_runs++;
  AwPause pause_watch;   // the control's own arenas are not watched
  if (g_fresh_cache.size() > 6000) g_fresh_cache.clear();
  FreshResult fr;
  Rng pr(fnv1a(key.data(), key.size(), pseed ^ 0xF5E5Dull));
  for (int attempt = 0; attempt < 4; attempt++) {
    if (attempt) { g_steer_retries++; fr = FreshResult(); }
    heap_perturb(pr, attempt ? g_last_text_capacity : 0);
    CodeHolder code;
    Error ie = do_init(code, sp.arch, sp.base, sp.feat);
    std::unique_ptr<BaseEmitter> em(mk_emitter(fam_of(sp.arch), sp.kind));
    std::unique_ptr<BaseEmitter> ser;
    Error ae = code.attach(em.get());
    em->add_diagnostic_options(DiagnosticOptions(sp.val));
    if (sp.kind != K_ASM && sp.fin == 1) { ser.reset(mk_emitter(fam_of(sp.arch), K_ASM)); (void)code.attach(ser.get()); ser->add_diagnostic_options(DiagnosticOptions(sp.val)); }
    fadd(fr.f, "setup", fmtv("%u,%u", unsigned(ie), unsigned(ae)));
    bool cnt = g_count_probe_calls; if (attempt) g_count_probe_calls = false;
    fr.nerr = run_probe(code, em.get(), ser.get(), sp, fr.f);
    g_count_probe_calls = cnt;
    fr.res64 = text_residue(code);
    g_last_text_capacity = code.text_section()->buffer().capacity();
    if (!g_steer || avoid < 0 || fr.res64 < 0 || fr.res64 != avoid) break;
  }
  fr.hash = hash_fields(fr.f);
  return g_fresh_cache.emplace(key, std::move(fr)).first->second;
}

// =========================================================================================================
// Rig: the recycled objects of one history
// =========================================================================================================

struct Watch { bool retired = false; };
static uint64_t g_stale_log = 0, g_stale_eh = 0, g_log_calls = 0, g_eh_calls = 0;

struct SLog : public StringLogger { Watch w; Error _log(const char* d, size_t n) noexcept override { g_log_calls++; if (w.retired) g_stale_log++; return StringLogger::_log(d, n); } };
static FILE* g_devnull = nullptr;
struct FLog : public FileLogger { Watch w; FLog() : FileLogger(g_devnull) {} Error _log(const char* d, size_t n) noexcept override { g_log_calls++; if (w.retired) g_stale_log++; return FileLogger::_log(d, n); } };
struct EH : public ErrorHandler { Watch w; uint64_t n = 0; void handle_error(Error, const char*, BaseEmitter*) override { g_eh_calls++; n++; if (w.retired) g_stale_eh++; } };

struct Res {
  Logger* lg = nullptr; Watch* lgw = nullptr; EH* eh = nullptr;
  bool any() const { return lg || eh; }
};
struct Grave { Res r; int age; };

struct HistCfg { uint32_t static_size = 0; bool noise = false; uint64_t pseed = 0; /* heap perturbation of this history */ bool quarantine = false; /* arena watch mode */ };

static const uint32_t kStaticSizes[] = { 24, 40, 64, 136, 520, 1000, 1003, 4104, 16384 + 24, 70000 };

struct Rig {
  HistCfg hc;
  uint8_t* sbuf = nullptr;
  CodeHolder* code = nullptr;
  BaseEmitter* em[2][3] = {};
  Res holder_res, em_res[2][3];
  std::vector<Grave> grave;
  std::vector<void*> noise;
  void* pending_str[2][3] = {};
  // a SECOND holder: an emitter leaves the first one (which lives on and stays in use), works there and comes back
  CodeHolder* code2 = nullptr;
  CodeHolder* other() { if (!code2) { code2 = new CodeHolder(); aw_track(&code2->_arena); } return code2; }
  void drop_other() { if (code2) { aw_untrack(&code2->_arena); delete code2; code2 = nullptr; } }

  explicit Rig(const HistCfg& h) : hc(h) {
    if (hc.static_size) { sbuf = (uint8_t*)malloc(hc.static_size); memset(sbuf, 0xA7, hc.static_size); code = new CodeHolder(Span<uint8_t>(sbuf, hc.static_size)); }
    else code = new CodeHolder();
    aw_track(&code->_arena);
  }
  ~Rig() {
    for (int f = 0; f < 2; f++) for (int k = 0; k < 3; k++) { drop(f, k); free(pending_str[f][k]); }
    drop_other();
    aw_untrack(&code->_arena);
    delete code;
    free(sbuf);
    free_res(holder_res);
    for (int f = 0; f < 2; f++) for (int k = 0; k < 3; k++) free_res(em_res[f][k]);
    for (auto& g : grave) free_res(g.r);
    for (void* p : noise) free(p);
    aw_release_quarantine();
  }
  static void free_res(Res& r) { delete r.lg; delete r.eh; r = Res(); }
  void retire(Res& r) { if (!r.any()) return; if (r.lgw) r.lgw->retired = true; if (r.eh) r.eh->w.retired = true; grave.push_back(Grave{r, 0}); r = Res(); }
  void tick() {   // retired loggers / handlers are really freed a few steps later (ASan then sees any late use)
    for (size_t i = 0; i < grave.size();) { if (++grave[i].age > 5) { free_res(grave[i].r); grave[i] = grave.back(); grave.pop_back(); } else i++; }
  }
  BaseEmitter* get(int fam, int k) { if (!em[fam][k]) { em[fam][k] = mk_emitter(fam, k); aw_track_emitter(em[fam][k], k, true); } return em[fam][k]; }
  void drop(int fam, int k) { if (em[fam][k]) { aw_track_emitter(em[fam][k], k, false); delete em[fam][k]; em[fam][k] = nullptr; } }
  // The holder is destroyed (with emitters still attached) and ANOTHER holder takes its place; the emitters live on.
  void new_holder() {
    aw_untrack(&code->_arena);
    code->~CodeHolder();
    if (hc.static_size) { memset(sbuf, 0xA7, hc.static_size); new (code) CodeHolder(Span<uint8_t>(sbuf, hc.static_size)); }
    else new (code) CodeHolder();
    aw_track(&code->_arena);
  }
  bool attached(int fam, int k) const { return em[fam][k] && em[fam][k]->code() == code; }
  size_t count_attached(const CodeHolder& h) const { size_t n = 0; for (int f = 0; f < 2; f++) for (int k = 0; k < 3; k++) if (em[f][k] && em[f][k]->code() == &h) n++; return n; }
};

static Res make_res(int log_kind, uint32_t fmt, bool want_eh) {
  Res r;
  if (log_kind == 1) { SLog* l = new SLog(); r.lg = l; r.lgw = &l->w; }
  else if (log_kind == 2) { FLog* l = new FLog(); r.lg = l; r.lgw = &l->w; }
  if (r.lg) r.lg->set_flags(FormatFlags(fmt));
  if (want_eh) r.eh = new EH();
  return r;
}

static void heap_noise(Rig& R, Rng& r) {
  uint32_t n = 1 + uint32_t(r.below(12));
  for (uint32_t i = 0; i < n; i++) {
    if (!R.noise.empty() && r.chance(2, 5)) { size_t j = r.below(R.noise.size()); free(R.noise[j]); R.noise[j] = R.noise.back(); R.noise.pop_back(); }
    else {
      static const size_t sz[] = { 16, 24, 48, 100, 256, 1000, 4096, 16384, 16400, 65536, 70000, 200000, 80, 112, 8080, 8096 };
      size_t s = sz[r.below(16)] + (r.chance(1, 2) ? r.below(16) : 0);
      void* p = malloc(s); if (p) { memset(p, int(r.below(256)), s); R.noise.push_back(p); }
    }
  }
}

// =========================================================================================================
// Histories
// =========================================================================================================

enum Op : uint8_t { OP_INIT, OP_SETCFG, OP_ATTACH, OP_DETACH, OP_GEN, OP_FINALIZE, OP_POST, OP_ONESHOT, OP_RESET_SOFT, OP_RESET_HARD, OP_REINIT,
                    OP_RECREATE, OP_NOISE, OP_PROBE, OP_APROBE, OP_NEWHOLDER, OP_TWEAK, OP_POKE, OP_MIGRATE_OUT, OP_MIGRATE_BACK, OP_COUNT };
static const char* kOpNames[OP_COUNT] = { "init", "setcfg", "attach", "detach", "gen", "finalize", "post", "oneshot", "reset_soft", "reset_hard", "reinit",
                                          "recreate", "noise", "probe", "aprobe", "newholder", "tweak", "poke", "to_other_holder", "back_from_other_holder" };
struct Step { Op op; uint8_t kind = 0; uint8_t arch = 0; uint16_t prog = 0; uint32_t seed = 0; uint32_t a = 0, b = 0; };

// SETCFG packing
static inline uint32_t cfg_pack(int log_kind, int log_lvl, int eh_lvl, uint32_t fmt) { return uint32_t(log_kind) | uint32_t(log_lvl) << 2 | uint32_t(eh_lvl) << 3 | fmt << 8; }
static inline int cfg_log(uint32_t a) { return int(a & 3); }
static inline int cfg_loglvl(uint32_t a) { return int((a >> 2) & 1); }
static inline int cfg_eh(uint32_t a) { return int((a >> 3) & 3); }
static inline uint32_t cfg_fmt(uint32_t a) { return a >> 8; }
static const uint32_t kDiagBits[] = { 0x1, 0x2, 0x80, 0xFF00 };   // kValidateAssembler, kValidateIntermediate, kRAAnnotate, kRADebugAll

static std::string step_token(const Step& s, bool full) {
  std::string o = kOpNames[s.op];
  switch (s.op) {
    case OP_INIT: o += fmtv("(%s%s%s)", full ? kArchNames[s.arch] : (s.arch == A_A64 ? "a64" : "x86"), s.a ? ",base" : "", s.b ? (full ? fmtv(",features%u", s.b).c_str() : ",features") : ""); break;
    case OP_SETCFG: {
      o += fmtv("(%s", kKindNames[s.kind]);
      if (cfg_log(s.a)) o += fmtv(",log=%s@%s", cfg_log(s.a) == 1 ? "string" : "file", cfg_loglvl(s.a) ? "emitter" : "holder");
      if (full && cfg_log(s.a)) o += fmtv(",fmt=%x", cfg_fmt(s.a));
      if (cfg_eh(s.a)) o += fmtv(",eh@%s", cfg_eh(s.a) == 1 ? "holder" : "emitter");
      if (s.b) o += fmtv(",diag=%x", s.b);
      o += ")"; break;
    }
    case OP_ATTACH: o += fmtv("(%s%s)", kKindNames[s.kind], s.a ? ",wrong-arch" : ""); break;
    case OP_DETACH: case OP_FINALIZE: case OP_RECREATE: o += fmtv("(%s)", kKindNames[s.kind]); break;
    case OP_ONESHOT: o += fmtv("(%s,%u)", kKindNames[s.kind], s.a % 3); break;
    case OP_POKE: o += fmtv("(%s)", kKindNames[s.kind]); break;
    case OP_MIGRATE_OUT: o += fmtv("(%s:%s", kKindNames[s.kind], kProgs[s.prog].name); if (full) o += fmtv(",s%u", s.seed); o += ")"; break;
    case OP_MIGRATE_BACK: { static const char* how[4] = { "detach", "reset_soft", "reset_hard", "destroy" }; o += fmtv("(%s,%s)", kKindNames[s.kind], how[s.a & 3]); break; }
    case OP_TWEAK: o += fmtv("(.text:%s%s%s%s)", (s.a & 1) ? "alignment," : "", (s.a & 2) ? "flags," : "", (s.a & 4) ? "offset," : "", (s.a & 8) ? "virtual_size," : ""); break;
    case OP_GEN: o += fmtv("(%s:%s%s", kKindNames[s.kind], kProgs[s.prog].name, (s.a & 1) ? "+fin" : ""); if (full) o += fmtv(",s%u", s.seed); o += ")"; break;
    case OP_PROBE: case OP_APROBE:
      o += fmtv("(%s:%s", kKindNames[s.kind], kProgs[s.prog].name);
      if (s.a & 1) o += ",serialize_to"; if (s.a & 2) o += ",post";
      if (full) o += fmtv(",s%u", s.seed);
      o += ")"; break;
    default: break;
  }
  return o;
}

static void gen_history(Rng& r, HistCfg& hc, std::vector<Step>& S) {
  hc.static_size = r.chance(1, 2) ? kStaticSizes[r.below(sizeof(kStaticSizes) / sizeof(kStaticSizes[0]))] : 0;
  hc.noise = r.chance(1, 2);
  int arch = int(r.below(3));
  auto rnd_cfg = [&](int kind) {
    Step s; s.op = OP_SETCFG; s.kind = uint8_t(kind);
    int lk = r.chance(1, 2) ? 1 + int(r.below(2)) : 0;
    uint32_t fmt = 0; static const uint32_t fb[] = { 0x1, 0x8, 0x10, 0x20, 0x40, 0x100, 0x200, 0x400 };
    for (uint32_t f : fb) if (r.chance(1, 3)) fmt |= f;
    s.a = cfg_pack(lk, int(r.below(2)), r.chance(1, 2) ? 1 + int(r.below(2)) : 0, fmt);
    for (uint32_t d : kDiagBits) if (r.chance(3, 10)) s.b |= d;
    return s;
  };
  auto mk = [&](Op op, int kind = 0) { Step s; s.op = op; s.kind = uint8_t(kind); return s; };
  auto rnd_feat = [&]() { uint32_t f = uint32_t(r.below(6)); return f < kNumFeatSel ? f : 0u; };   // half of the holders: init(env, base)
  auto mk_gen = [&](Op op, int kind, unsigned need, unsigned forbid) {
    Step s; s.op = op; s.kind = uint8_t(kind); s.prog = uint16_t(pick_prog(r, fam_of(arch), kind, need, forbid)); s.seed = uint32_t(r.below(8)); return s;
  };
  auto noise = [&]() { if (hc.noise && r.chance(1, 2)) { Step s = mk(OP_NOISE); s.seed = uint32_t(r.next()); S.push_back(s); } };

  bool append_style = r.chance(1, 4);
  if (append_style) {
    // init, clean programs through one or several emitters, then Q appended behind them
    Step in = mk(OP_INIT); in.arch = uint8_t(arch); in.a = uint32_t(r.below(2)); in.b = rnd_feat(); S.push_back(in);
    int k = int(r.below(3));
    if (r.chance(2, 3)) S.push_back(rnd_cfg(k));
    S.push_back(mk(OP_ATTACH, k));
    noise();
    uint32_t np = 1 + uint32_t(r.below(3));
    for (uint32_t i = 0; i < np; i++) {
      Step g = mk_gen(OP_GEN, k, F_CLEAN, F_GLOBALCP | (r.chance(1, 2) ? F_SECTIONS : 0u));
      // an assembler writes at once; builders / compilers either keep their nodes for ONE final finalize (many functions per
      // compiler) or finalize and are detached + re-attached before the next program
      bool fin_now = k != K_ASM && r.chance(1, 3);
      g.a = fin_now ? 1 : 0;
      S.push_back(g);
      noise();
      if (fin_now || (k == K_ASM && r.chance(1, 3))) {
        S.push_back(mk(OP_DETACH, k));
        if (r.chance(1, 3)) { k = int(r.below(3)); }
        S.push_back(mk(OP_ATTACH, k));
      }
    }
    Step q = mk_gen(OP_APROBE, k, F_TEXTONLY, F_GLOBALCP);
    q.a = r.chance(1, 4) ? 1 : 0;
    S.push_back(q);
    return;
  }

  int nep = 2 + int(r.below(3));
  int away_k = -1;   // kind of the emitter that (probably) works on the other holder
  for (int ep = 0; ep < nep; ep++) {
    bool last = ep + 1 == nep;
    int k = int(r.below(3));
    // ---- how this epoch gets a clean holder
    if (ep == 0) { Step in = mk(OP_INIT); in.arch = uint8_t(arch); in.a = uint32_t(r.below(2)); in.b = rnd_feat(); S.push_back(in); }
    else {
      switch (r.below(7)) {
        case 0: case 1: case 6: {
          S.push_back(mk(r.chance(1, 3) ? OP_NEWHOLDER : r.chance(1, 2) ? OP_RESET_SOFT : OP_RESET_HARD));
          if (r.chance(1, 3)) S.push_back(mk(OP_POKE, int(r.below(3))));     // every emitter is detached now
          if (r.chance(1, 3)) arch = int(r.below(3));
          Step in = mk(OP_INIT); in.arch = uint8_t(arch); in.a = uint32_t(r.below(2)); in.b = rnd_feat(); S.push_back(in);
          break;
        }
        case 2: case 3: S.push_back(mk(OP_REINIT)); break;
        case 4: S.push_back(mk(OP_DETACH, int(r.below(3)))); S.push_back(mk(OP_REINIT)); break;
        default: S.push_back(mk(OP_RECREATE, int(r.below(3)))); S.push_back(mk(OP_REINIT)); break;
      }
    }
    noise();
    if (away_k >= 0 && r.chance(2, 3)) { Step m = mk(OP_MIGRATE_BACK, away_k); m.a = uint32_t(r.below(4)); S.push_back(m); away_k = -1; }   // back to a first holder that was cleaned meanwhile
    if (r.chance(ep == 0 ? 3 : 1, 4)) S.push_back(rnd_cfg(k));
    S.push_back(mk(OP_ATTACH, k));
    if (r.chance(1, 4)) S.push_back(mk(OP_ATTACH, int(r.below(3))));
    if (r.chance(1, 5)) S.push_back(rnd_cfg(k));
    noise();
    if (last || r.chance(4, 5)) {
      Step q = mk_gen(OP_PROBE, k, 0, 0);
      q.a = (r.chance(1, 4) ? 1u : 0u) | (r.chance(1, 2) ? 2u : 0u);
      S.push_back(q);
    }
    if (last) break;
    // ---- junk: whatever leaves state behind
    uint32_t nj = uint32_t(r.below(5));
    for (uint32_t j = 0; j < nj; j++) {
      int jk = r.chance(2, 3) ? k : int(r.below(3));
      switch (r.below(21)) {
        case 17: S.push_back(mk(OP_POKE, int(r.below(3)))); break;
        case 18: case 19: { Step m = mk_gen(OP_MIGRATE_OUT, jk, 0, 0); m.arch = uint8_t(arch); m.a = uint32_t(r.below(4)); S.push_back(m); if (away_k < 0) away_k = jk; break; }
        case 20: { Step m = mk(OP_MIGRATE_BACK, away_k >= 0 ? away_k : int(r.below(3))); m.a = uint32_t(r.below(4)); S.push_back(m); away_k = -1; break; }
        case 16: { Step t = mk(OP_TWEAK); t.a = 1 + uint32_t(r.below(15)); t.b = uint32_t(r.below(1000)); S.push_back(t); break; }
        case 0: case 1: case 2: case 3: case 4: case 5: {
          Step g = mk_gen(OP_GEN, jk, r.chance(1, 2) ? 0u : (r.chance(1, 2) ? unsigned(F_LEFTOVER) : unsigned(F_ERR)), 0);
          g.a = r.chance(1, 2) ? 1 : 0; S.push_back(g); break;
        }
        case 6: S.push_back(mk(OP_FINALIZE, jk)); break;
        case 7: S.push_back(mk(OP_POST)); break;
        case 8: case 9: { Step o = mk(OP_ONESHOT, jk); o.a = uint32_t(r.below(3)); S.push_back(o); break; }
        case 10: S.push_back(mk(OP_DETACH, jk)); if (r.chance(1, 2)) S.push_back(mk(OP_POKE, jk)); break;
        case 11: S.push_back(mk(OP_ATTACH, jk)); break;
        case 12: S.push_back(mk(OP_RECREATE, jk)); break;
        case 13: { Step b = mk(r.chance(1, 2) ? OP_INIT : OP_ATTACH, jk); b.arch = uint8_t(arch); b.a = 1; S.push_back(b); break; }   // init twice / wrong family
        case 14: { Step q = mk_gen(OP_APROBE, jk, F_TEXTONLY, F_GLOBALCP); S.push_back(q); break; }
        default: S.push_back(rnd_cfg(jk)); break;
      }
      noise();
    }
  }
}

// =========================================================================================================
// Public state of a clean holder + a freshly (re-)attached emitter
// =========================================================================================================

static void snapshot_emitter(BaseEmitter* em, int kind, Logger* want_lg, ErrorHandler* want_eh, bool own_lg, bool own_eh, Fields& F) {
  fadd(F, "em.code", em->code() ? "attached" : "null");
  fadd(F, "em.logger", em->logger() == want_lg ? "as installed" : "NOT the installed one");
  fadd(F, "em.error_handler", em->error_handler() == want_eh ? "as installed" : "NOT the installed one");
  fadd(F, "em.has_own_logger", em->has_own_logger() == own_lg ? "as installed" : (em->has_own_logger() ? "set, but no own logger installed" : "clear, but own logger installed"));
  fadd(F, "em.has_own_error_handler", em->has_own_error_handler() == own_eh ? "as installed" : (em->has_own_error_handler() ? "set, but no own handler installed" : "clear, but own handler installed"));
  fadd(F, "em.flags", fmtv("%x", unsigned(em->emitter_flags()) & unsigned(EmitterFlags::kAttached | EmitterFlags::kFinalized | EmitterFlags::kDestroyed)));
  fadd(F, "em.inst_options", fmtv("%x", unsigned(em->inst_options())));
  fadd(F, "em.forced_inst_options", fmtv("%x", unsigned(em->forced_inst_options() & ~InstOptions::kReserved)));
  fadd(F, "em.extra_reg", em->extra_reg().is_reg() ? fmtv("reg id %u", em->extra_reg().id()) : std::string("none"));
  fadd(F, "em.inline_comment", em->inline_comment() ? "set" : "null");
  fadd(F, "em.environment", fmtv("arch%u", unsigned(em->environment().arch())));
  if (kind == K_ASM) {
    BaseAssembler* a = static_cast<BaseAssembler*>(em);
    fadd(F, "asm.position", fmtv("section %d offset %zu", a->current_section() ? int(a->current_section()->section_id()) : -1, a->offset()));
  }
  else {
    BaseBuilder* b = static_cast<BaseBuilder*>(em);
    std::string nodes; uint32_t n = 0;
    for (BaseNode* node = b->first_node(); node && n < 1000; node = node->next(), n++) if (n < 12) nodes += fmtv("t%u ", unsigned(node->type()));
    fadd(F, "bld.nodes", fmtv("%u: ", n) + nodes);
    fadd(F, "bld.cursor", fmtv("cursor%sfirst first%slast", b->cursor() == b->first_node() ? "==" : "!=", b->first_node() == b->last_node() ? "==" : "!="));
    fadd(F, "bld.section_nodes", fmtv("%zu", b->section_nodes().size()));
    fadd(F, "bld.label_nodes", fmtv("%zu", b->label_nodes().size()));
    fadd(F, "bld.passes", fmtv("%zu", b->passes().size()));
    if (kind == K_CMP) {
      BaseCompiler* c = static_cast<BaseCompiler*>(em);
      fadd(F, "cmp.func", c->func() ? "open" : "null");
      fadd(F, "cmp.virt_regs", fmtv("%zu", c->virt_regs().size()));
      fadd(F, "cmp.jump_annotations", fmtv("%zu", c->jump_annotations().size()));
      fadd(F, "cmp.const_pools", fmtv("local=%s global=%s", c->_const_pools[0] ? "set" : "null", c->_const_pools[1] ? "set" : "null"));
    }
  }
}

static void snapshot_state(CodeHolder& code, BaseEmitter* em, int kind, Logger* want_lg, ErrorHandler* want_eh, bool own_lg, bool own_eh,
                           Logger* code_lg, ErrorHandler* code_eh, int arch, bool base, int feat, size_t expect_attached, Fields& F) {
  snapshot_emitter(em, kind, want_lg, want_eh, own_lg, own_eh, F);
  fadd(F, "code.logger", code.logger() == code_lg ? "as installed" : "NOT the installed one");
  fadd(F, "code.error_handler", code.error_handler() == code_eh ? "as installed" : "NOT the installed one");
  fadd(F, "code.sections", fmtv("%zu text=%zu", code.section_count(), code.text_section()->buffer_size()));
  {
    // what the user may have set directly on the built-in section; (re-)initialisation must bring back the defaults
    Section* t = code.text_section();
    fadd(F, "code.text_section", fmtv("id%u '%s' flags%x align%u order%d offset%lld virtual_size%llu", t->section_id(), t->name(), unsigned(t->flags()), t->alignment(), t->order(), (long long)t->offset(), (ull)t->virtual_size()));
  }
  fadd(F, "code.cpu_features", code.cpu_features() == feat_of(arch, feat) ? "as passed to init" : "NOT what was passed to init");
  fadd(F, "code.base_address", code.base_address() == (base ? base_of(arch) : Globals::kNoBaseAddress) ? "as passed to init" : "NOT what was passed to init");
  fadd(F, "code.environment", code.environment() == Environment(arch_of(arch)) ? "as passed to init" : "NOT what was passed to init");
  {
    // the doubly linked list of attached emitters: as long as the emitters the user attached, links consistent in both directions
    size_t n = 0; bool ok = true; BaseEmitter* prev = nullptr;
    for (BaseEmitter* e = code._attached_first; e && n < 64; prev = e, e = e->_attached_next, n++) if (e->_attached_prev != prev || e->code() != &code) ok = false;
    if (code._attached_last != prev || n != expect_attached) ok = false;
    fadd(F, "code.attached_emitters", ok ? "the emitters that were attached, list consistent" : fmtv("list of %zu emitters (inconsistent or not the %zu attached ones)", n, expect_attached));
  }
  // containers without a public size: none of them may hold anything in a clean holder (they would point into recycled arena memory)
  fadd(F, "code.internal_containers", fmtv("cross_section_fixups=%s fixup_pool=%s address_table_entries=%s address_table_section=%s named_labels=%zu",
       code._fixups ? "set" : "null", code._fixup_data_pool._data ? "set" : "null", code._address_table_entries.is_empty() ? "empty" : "set", code._address_table_section ? "set" : "null", code._named_labels.size()));
  fadd(F, "code.labels", fmtv("%zu", code.label_count()));
  fadd(F, "code.relocs", fmtv("%zu", code.reloc_entries().size()));
  fadd(F, "code.fixups", fmtv("%zu addrtab=%d", code.unresolved_fixup_count(), int(code.has_address_table_section())));
}

static std::map<int, Fields> g_fresh_state;
static const Fields& fresh_state(int arch, int kind) {
  int key = arch * 4 + kind;
  auto it = g_fresh_state.find(key);
  if (it != g_fresh_state.end()) return it->second;
  Fields F;
  {
    AwPause pause_watch;
    CodeHolder code; (void)code.init(Environment(arch_of(arch)));
    std::unique_ptr<BaseEmitter> em(mk_emitter(fam_of(arch), kind));
    (void)code.attach(em.get());
    snapshot_state(code, em.get(), kind, nullptr, nullptr, false, false, nullptr, nullptr, arch, false, 0, 1, F);
  }
  return g_fresh_state.emplace(key, std::move(F)).first->second;
}

// ---- a DETACHED emitter is still an object the user may call: every call must behave as on an emitter that was never attached
struct PokeResult { std::string trace; uint64_t handler_calls; Fields state; };
static void poke_calls(BaseEmitter* em, int fam, int kind, Trace& tr) {
  if (fam == 0) tr.rec(em->as<x86::Emitter>()->nop()); else tr.rec(em->as<a64::Emitter>()->nop());
  tr.flag(em->new_label().is_valid());
  tr.flag(em->new_named_label("poke", 4).is_valid());
  tr.rec(em->bind(Label(0)));
  tr.rec(em->align(AlignMode::kCode, 16));
  tr.rec(em->embed("abcd", 4));
  tr.rec(em->embed_label(Label(0)));
  tr.rec(em->comment("poke"));
  tr.rec(em->commentf("poke %d", 1));
  tr.rec(em->section(nullptr));
  if (kind != K_ASM) tr.rec(static_cast<BaseBuilder*>(em)->run_passes());
  if (kind == K_CMP) {
    BaseCompiler* c = static_cast<BaseCompiler*>(em);
    tr.flag(c->add_func(FuncSignature::build<int, int>()) != nullptr);
    if (fam == 0) tr.flag(static_cast<x86::Compiler*>(c)->new_gp32("poke").is_valid()); else tr.flag(static_cast<a64::Compiler*>(c)->new_gp32("poke").is_valid());
    tr.rec(c->end_func());
  }
  tr.rec(em->finalize());
}
struct CountEH : public ErrorHandler { uint64_t n = 0; void handle_error(Error, const char*, BaseEmitter*) override { n++; } };
static std::map<int, PokeResult> g_fresh_poke;
static const PokeResult& fresh_poke(int fam, int kind, bool own_eh) {
  int key = (fam * 4 + kind) * 2 + int(own_eh);
  auto it = g_fresh_poke.find(key);
  if (it != g_fresh_poke.end()) return it->second;
  PokeResult pr;
  {
    AwPause pause_watch;
    std::unique_ptr<BaseEmitter> em(mk_emitter(fam, kind));
    snapshot_emitter(em.get(), kind, nullptr, nullptr, false, false, pr.state);
    CountEH eh; if (own_eh) em->set_error_handler(&eh);
    Trace tr; poke_calls(em.get(), fam, kind, tr);
    em->set_error_handler(nullptr);
    pr.trace = tr.s; pr.handler_calls = eh.n;
  }
  return g_fresh_poke.emplace(key, std::move(pr)).first->second;
}

// =========================================================================================================
// Interpreter
// =========================================================================================================

enum Cls { CL_NONE = 0, CL_TRACE, CL_SECTIONS, CL_TEXT, CL_DATA, CL_LABELS, CL_RELOCS, CL_FIXUPS, CL_POST, CL_IMAGE, CL_STALE_LOG, CL_STALE_EH,
           CL_API, CL_SHAPE, CL_NONDET, CL_STATE, CL_LEAK, CL_HANG, CL_SAN, CL_COUNT };
static const char* kClsNames[CL_COUNT] = { "none", "error-codes", "sections", "text-bytes", "data-bytes", "labels", "relocs", "fixups", "post", "image",
                                            "stale-logger-called", "stale-error-handler-called", "api-error", "shape", "fresh-nondeterministic", "state", "leak", "hang", "sanitizer" };
static int cls_of_field(const std::string& f) {
  if (f == "trace") return CL_TRACE; if (f == "setup") return CL_API; if (f == "sections") return CL_SECTIONS; if (f == "text-bytes") return CL_TEXT;
  if (f == "data-bytes") return CL_DATA; if (f == "labels") return CL_LABELS; if (f == "relocs") return CL_RELOCS; if (f == "fixups") return CL_FIXUPS;
  if (f == "post-trace" || f == "post-layout") return CL_POST; if (f == "post-image") return CL_IMAGE;
  if (f == "marker") return CL_LABELS;   // the label bound behind align(kCode, 64) in front of an appended probe
  return CL_SHAPE;
}

enum : uint32_t { LEFT_ERR = 1, LEFT_UNBOUND = 2, LEFT_SECTIONS = 4, LEFT_RELOCS = 8, LEFT_NODES = 16, LEFT_ONESHOT = 32, LEFT_OPENFUNC = 64, LEFT_ADDRTAB = 128, LEFT_POSTED = 256,
                  LEFT_TWEAK = 512 };
enum { kNumLeft = 10 };
static const char* kLeftNames[kNumLeft] = { "error", "unbound-labels/fixups", "extra-sections", "relocations", "unfinalized-nodes", "one-shot-state", "open-function", "address-table", "relocated-image",
                                            "text-section-fields-set-by-user" };

struct Stats {
  uint64_t steps[OP_COUNT] {}, skipped[OP_COUNT] {};
  uint64_t probes[2][3][3] {};          // [full/append][kind][arch]
  uint64_t probe_err_programs = 0;
  uint64_t cleans_with_leftover[kNumLeft] {}, cleans = 0, cleans_leftover_any = 0;
  uint64_t inits[kNumFeatSel] {}, probes_by_feat[kNumFeatSel] {}, probes_after_tweak = 0, tweaks[4] {};
  uint64_t pokes = 0, poke_calls = 0, pokes_own_eh = 0, pokes_own_logger = 0, away_runs = 0, away_compared = 0, away_spanning_clean = 0;
  std::map<std::string, uint64_t> poke_by_clean, away_by;
  uint64_t append_behind_funcs = 0, append_behind_other_variant = 0;
  uint64_t feat_checks = 0, feat_sensitive = 0;   // probes whose fresh output was also generated under another feature set / ... and differed
  uint64_t static_hist = 0, noise_hist = 0, static_sizes[10] {}, quarantine_hist = 0;
  uint64_t cfg_log[3] {}, cfg_loglvl[2] {}, cfg_eh[3] {}, cfg_diag[4] {}, probes_with_logger = 0, probes_with_eh = 0, probes_with_diag = 0, probes_static = 0, probes_after_noise = 0;
  uint64_t nondet_checks = 0, state_checks = 0, log_calls = 0, eh_calls = 0, expected_api_errors = 0;
  // address of the .text buffer mod 64: of the recycled run, of its fresh control, of the second twin; pairs by equal / different residue
  uint64_t res_recycled[64] {}, res_fresh[64] {}, res_twin[64] {};
  uint64_t pairs_diff = 0, pairs_same = 0, pairs_wide = 0, pairs_wide_diff = 0, twin_diff = 0, twin_same = 0, twin_wide = 0, twin_wide_diff = 0;
  std::map<std::string, uint64_t> progs_probed, progs_err;
};
static Stats ST;

struct Viol { int cls; std::string id, what, prelim; int step; };
struct Outcome {
  std::vector<Viol> v; bool stop = false;
  bool has(const std::string& id) const { for (auto& x : v) if (x.id == id) return true; return false; }
  uint32_t probes = 0; bool nontrivial = false; std::string sig;
  std::vector<std::pair<std::string, uint64_t>> canon;
};

static void run_history(const HistCfg& hc, const std::vector<Step>& S, Outcome& O, bool count) {
  g_count_probe_calls = count;
  { Rng pr(hc.pseed ^ 0x48454150ull); heap_perturb(pr); }   // the recycled holder and everything it allocates start somewhere else
  g_aw_quarantine = hc.quarantine;
  Rig R(hc);
  CodeHolder& code = *R.code;
  int arch = -1;                       // architecture of the initialised holder
  int feat = 0; bool has_base = false; // how it was initialised (reinit() keeps all of it)
  bool tweaked = false, tweak_cleaned = false;
  bool clean_full = false, append_ok = false, asm_stale = false, posted = false, noise_seen = false;
  bool spent[2][3] {}, pending[2][3] {}, unfin[2][3] {}, used[2][3] {};
  uint32_t left = 0; bool leftover_clean_seen = false; std::string last_clean = "init";
  uint64_t stale_log0 = g_stale_log, stale_eh0 = g_stale_eh;
  // an emitter that works on the other holder: what it generated there (finalized and compared when it comes back)
  struct Away { bool active = false; int fam = 0, kind = 0, arch = 0; ProbeSpec sp; std::unique_ptr<Ctx> ctx; bool first_holder_cleaned = false; size_t step = 0; } away;
  std::vector<uint32_t> fn_hist[2];    // per-function settings of the functions an attached Compiler holds (not finalized yet)
  if (count) { if (hc.static_size) { ST.static_hist++; for (int i = 0; i < 10; i++) if (kStaticSizes[i] == hc.static_size) ST.static_sizes[i]++; } if (hc.noise) ST.noise_hist++; if (hc.quarantine && kAsanBuild) ST.quarantine_hist++; }

  auto fail_sub = [&](int cls, int step, const std::string& what, const std::string& prelim, const std::string& sub, bool fatal) {
    std::string id = kClsNames[cls]; if (!sub.empty()) id += ":" + sub;
    if (!O.has(id) && O.v.size() < 16) {
      O.v.push_back(Viol{cls, id, what, prelim, step});
      if (g_viol_fd >= 0) { std::string w = what; for (char& ch : w) if (ch == '\n' || ch == '\t') ch = ' '; std::string line = id + "\t" + w.substr(0, 3000) + "\n"; ssize_t wr = write(g_viol_fd, line.data(), line.size()); (void)wr; }
    }
    if (fatal) O.stop = true;
    DBG("  VIOLATION %s: %s", id.c_str(), what.c_str());
  };
  auto fail = [&](int cls, int step, const std::string& what, const std::string& prelim) { fail_sub(cls, step, what, prelim, "", true); };
  auto expect = [&](Error got, Error want, int step, const char* call) {
    if (got != want) fail(CL_API, step, fmtv("%s returned error %u, fresh objects give %u", call, unsigned(got), unsigned(want)), std::string("api:") + call);
    else if (want != Error::kOk && count) ST.expected_api_errors++;
  };
  auto clear_pending = [&](int f, int k) { pending[f][k] = false; free(R.pending_str[f][k]); R.pending_str[f][k] = nullptr; };
  // leftovers the holder / emitters carry at the moment something cleans them
  auto note_clean = [&](const char* how, int f, int k) {
    uint32_t l = left;
    if (code.is_initialized()) {
      if (code.unresolved_fixup_count()) l |= LEFT_UNBOUND;
      for (uint32_t i = 0; i < code.label_count() && !(l & LEFT_UNBOUND); i++) if (!code.is_label_bound(i)) l |= LEFT_UNBOUND;
      if (code.section_count() > 1) l |= LEFT_SECTIONS;
      if (code.has_reloc_entries()) l |= LEFT_RELOCS;
      if (code.has_address_table_section()) l |= LEFT_ADDRTAB;
    }
    for (int ff = 0; ff < 2; ff++) for (int kk = 0; kk < 3; kk++) {
      if (f >= 0 && (ff != f || kk != k)) continue;
      if (unfin[ff][kk]) l |= LEFT_NODES;
      if (pending[ff][kk]) l |= LEFT_ONESHOT;
      if (kk == K_CMP && R.em[ff][kk] && R.attached(ff, kk) && static_cast<BaseCompiler*>(R.em[ff][kk])->func()) l |= LEFT_OPENFUNC;
    }
    if (posted) l |= LEFT_POSTED;
    if (count) { ST.cleans++; if (l) ST.cleans_leftover_any++; for (int i = 0; i < kNumLeft; i++) if (l & (1u << i)) ST.cleans_with_leftover[i]++; }
    if (l) leftover_clean_seen = true;
    if (f < 0 && tweaked) { tweak_cleaned = true; tweaked = false; }
    if (f < 0 && away.active) away.first_holder_cleaned = true;
    last_clean = how;
  };
  auto on_holder_clean = [&]() { left = 0; posted = false; };
  auto detach_all_flags = [&]() { for (int f = 0; f < 2; f++) for (int k = 0; k < 3; k++) { spent[f][k] = false; unfin[f][k] = false; used[f][k] = false; clear_pending(f, k); } asm_stale = false; };

  auto away_back = [&](int si, uint32_t how) {
        int k = away.kind;
        int fam = away.fam;
        BaseEmitter* em = R.em[fam][k];
        CodeHolder& B = *R.code2;
        Fields F; fadd(F, "setup", "0,0");
        Label none;
        g_count_probe_calls = false; probe_finish(*away.ctx, nullptr, away.sp, none, F); g_count_probe_calls = count;
        away.ctx.reset();
        const FreshResult& fr = fresh_control(away.sp, hc.pseed);
        std::string what, fld = diff_fields(F, fr.f, &what);
        if (count) { ST.away_compared++; if (away.first_holder_cleaned) ST.away_spanning_clean++; ST.away_by[fmtv("%s/%s", kKindNames[k], kArchNames[away.arch])]++; }
        away.active = false;
        if (!fld.empty()) {
          fail(cls_of_field(fld), int(si), fmtv("program %s generated in a second holder while the first one %s: ", away.sp.str().c_str(), away.first_holder_cleaned ? "was reset / re-initialised" : "stayed in use") + what,
               fmtv("other-holder:%s:%s:%s", kClsNames[cls_of_field(fld)], kKindNames[k], kProgs[away.sp.prog].name));
          return;
        }
        switch (how) {
          case 0: expect(B.detach(em), Error::kOk, int(si), "detach-other-holder"); break;
          case 1: B.reset(ResetPolicy::kSoft); break;
          case 2: B.reset(ResetPolicy::kHard); break;
          default: R.drop_other(); break;
        }
        if (em->code() != nullptr) { fail(CL_API, int(si), "emitter still attached after the other holder let it go", "api:other-holder-detach"); return; }
        spent[fam][k] = false; unfin[fam][k] = false; used[fam][k] = false; clear_pending(fam, k);
        leftover_clean_seen = true;
        if (code.is_initialized() && arch >= 0 && fam_of(arch) == fam) {
          expect(code.attach(em), Error::kOk, int(si), "attach");
          if (k == K_ASM) asm_stale = false;
        }
  };

  for (size_t si = 0; si < S.size() && !O.stop; si++) {
    const Step& s = S[si];
    int k = s.kind;
    bool ran = true;
    DBG("step %zu: %s", si, step_token(s, true).c_str());
    switch (s.op) {
      case OP_INIT: {
        if (code.is_initialized()) { expect(code.init(Environment(arch_of(s.arch))), Error::kAlreadyInitialized, int(si), "init-twice"); break; }
        expect(do_init(code, s.arch, s.a != 0, int(s.b)), Error::kOk, int(si), s.b ? "init-with-features" : "init");
        arch = s.arch; feat = int(s.b); has_base = s.a != 0; clean_full = true; append_ok = true; on_holder_clean();
        if (count) ST.inits[s.b % kNumFeatSel]++;
        break;
      }
      case OP_SETCFG: {
        int fam = arch >= 0 ? fam_of(arch) : 0;
        BaseEmitter* em = R.get(fam, k);
        if (pending[fam][k]) { ran = false; break; }
        if (R.code2 && em->code() == R.code2) { ran = false; break; }   // away on the other holder: its options stay as they are until it is back
        Res hr = make_res(cfg_loglvl(s.a) == 0 ? cfg_log(s.a) : 0, cfg_fmt(s.a), cfg_eh(s.a) == 1);
        Res er = make_res(cfg_loglvl(s.a) == 1 ? cfg_log(s.a) : 0, cfg_fmt(s.a), cfg_eh(s.a) == 2);
        if (code.is_initialized()) {
          code.set_logger(hr.lg); code.set_error_handler(hr.eh);
          R.retire(R.holder_res); R.holder_res = hr;
        }
        else Rig::free_res(hr);
        em->set_logger(er.lg); em->set_error_handler(er.eh);
        R.retire(R.em_res[fam][k]); R.em_res[fam][k] = er;
        em->clear_diagnostic_options(DiagnosticOptions(0xFFFFFFFFu));
        em->add_diagnostic_options(DiagnosticOptions(s.b));
        if (count) { ST.cfg_log[cfg_log(s.a)]++; if (cfg_log(s.a)) ST.cfg_loglvl[cfg_loglvl(s.a)]++; ST.cfg_eh[cfg_eh(s.a)]++; for (int i = 0; i < 4; i++) if (s.b & kDiagBits[i]) ST.cfg_diag[i]++; }
        break;
      }
      case OP_ATTACH: {
        if (!code.is_initialized()) { ran = false; break; }
        int fam = fam_of(arch) ^ int(s.a & 1);
        BaseEmitter* em = R.get(fam, k);
        if (s.a & 1) {
          if (em->code() != nullptr) { ran = false; break; }
          expect(code.attach(em), Error::kInvalidArch, int(si), "attach-wrong-arch"); break;
        }
        bool was = R.attached(fam, k);
        if (em->code() && !was) { expect(code.attach(em), Error::kInvalidState, int(si), "attach-while-attached-to-another-holder"); break; }
        expect(code.attach(em), Error::kOk, int(si), was ? "attach-again" : "attach");
        if (!was) { spent[fam][k] = false; unfin[fam][k] = false; used[fam][k] = false; if (k == K_ASM) asm_stale = false; }
        break;
      }
      case OP_DETACH: {
        if (!code.is_initialized()) { ran = false; break; }
        int fam = fam_of(arch);
        BaseEmitter* em = R.get(fam, k);
        if (!R.attached(fam, k)) { expect(code.detach(em), Error::kInvalidState, int(si), "detach-unattached"); break; }
        note_clean("detach", fam, k);
        expect(code.detach(em), Error::kOk, int(si), "detach");
        spent[fam][k] = false; unfin[fam][k] = false; used[fam][k] = false; clear_pending(fam, k);
        break;
      }
      case OP_RECREATE: {
        int fam = arch >= 0 ? fam_of(arch) : 0;
        if (!R.em[fam][k]) { ran = false; break; }
        if (R.attached(fam, k)) note_clean("recreate", fam, k);
        BaseEmitter* em = R.em[fam][k];
        if (away.active && away.fam == fam && away.kind == k) { away.active = false; away.ctx.reset(); }   // destroyed while attached to the other holder (which unlinks it)
        em->set_logger(nullptr); em->set_error_handler(nullptr);
        R.retire(R.em_res[fam][k]);
        R.drop(fam, k);
        R.get(fam, k);
        spent[fam][k] = false; unfin[fam][k] = false; used[fam][k] = false; clear_pending(fam, k);
        break;
      }
      case OP_RESET_SOFT: case OP_RESET_HARD: {
        if (code.is_initialized()) note_clean(s.op == OP_RESET_SOFT ? "reset_soft" : "reset_hard", -1, -1);
        code.reset(s.op == OP_RESET_SOFT ? ResetPolicy::kSoft : ResetPolicy::kHard);
        if (code.is_initialized()) fail(CL_API, int(si), "holder still initialised after reset()", "api:reset");
        for (int f = 0; f < 2; f++) for (int kk = 0; kk < 3; kk++) if (R.em[f][kk] && R.em[f][kk]->code() == &code) fail(CL_API, int(si), "emitter still attached after reset()", "api:reset-detach");
        R.retire(R.holder_res);       // the holder dropped its logger / handler: the user may destroy them
        detach_all_flags(); arch = -1; clean_full = false; append_ok = false; on_holder_clean();
        break;
      }
      case OP_NEWHOLDER: {
        if (code.is_initialized()) note_clean("newholder", -1, -1);
        R.new_holder();
        if (code.is_initialized()) fail(CL_API, int(si), "a new holder is initialised", "api:newholder");
        for (int f = 0; f < 2; f++) for (int kk = 0; kk < 3; kk++) if (R.em[f][kk] && R.em[f][kk]->code() == &code) fail(CL_API, int(si), "emitter still attached after its holder was destroyed", "api:newholder-detach");
        R.retire(R.holder_res);       // the holder's logger / handler went away with it
        detach_all_flags(); arch = -1; clean_full = false; append_ok = false; on_holder_clean();
        break;
      }
      case OP_REINIT: {
        if (!code.is_initialized()) { expect(code.reinit(), Error::kNotInitialized, int(si), "reinit-uninitialised"); break; }
        note_clean("reinit", -1, -1);
        expect(code.reinit(), Error::kOk, int(si), "reinit");
        detach_all_flags(); clean_full = true; append_ok = true; on_holder_clean();
        break;
      }
      case OP_NOISE: { Rng nr(s.seed); heap_noise(R, nr); noise_seen = true; break; }
      case OP_POKE: {
        // calls on a detached emitter: same answers, same handler calls and same public state as an emitter that was never attached
        int fam = arch >= 0 ? fam_of(arch) : int(s.seed & 1);
        if (!R.em[fam][k] || R.em[fam][k]->code() != nullptr) fam ^= 1;
        if (!R.em[fam][k] || R.em[fam][k]->code() != nullptr) { ran = false; break; }
        BaseEmitter* em = R.em[fam][k];
        Res& er = R.em_res[fam][k];
        const PokeResult& want = fresh_poke(fam, k, er.eh != nullptr);
        Fields SF; snapshot_emitter(em, k, er.lg, er.eh, er.lg != nullptr, er.eh != nullptr, SF);
        for (size_t i = 0; i < SF.size() && i < want.state.size(); i++)
          if (SF[i].second != want.state[i].second)
            fail_sub(CL_STATE, int(si), fmtv("after %s, detached emitter: %s is '%s', on an emitter that was never attached '%s'", last_clean.c_str(), SF[i].first.c_str(), SF[i].second.c_str(), want.state[i].second.c_str()),
                     fmtv("state:detached:%s:%s", kKindNames[k], SF[i].first.c_str()), "detached:" + SF[i].first, false);
        uint64_t own0 = er.eh ? er.eh->n : 0, hold0 = R.holder_res.eh ? R.holder_res.eh->n : 0;
        Trace tr; poke_calls(em, fam, k, tr);
        if (count) { ST.pokes++; ST.poke_calls += tr.n; ST.poke_by_clean[last_clean]++; if (er.eh) ST.pokes_own_eh++; if (er.lg) ST.pokes_own_logger++; }
        if (tr.s != want.trace)
          fail(CL_TRACE, int(si), fmtv("calls on the detached %s emitter (after %s) answer '%s', an emitter that was never attached answers '%s'", kKindNames[k], last_clean.c_str(), tr.s.c_str(), want.trace.c_str()),
               fmtv("detached:error-codes:%s:%s", kKindNames[k], last_clean.c_str()));
        else if ((er.eh ? er.eh->n - own0 : 0) != want.handler_calls)
          fail(CL_API, int(si), fmtv("calls on the detached %s emitter (after %s) called its own error handler %llu times, an emitter that was never attached calls it %llu times", kKindNames[k], last_clean.c_str(),
               (ull)(er.eh ? er.eh->n - own0 : 0), (ull)want.handler_calls), fmtv("detached:handler-calls:%s", kKindNames[k]));
        else if (R.holder_res.eh && R.holder_res.eh->n != hold0)
          fail(CL_API, int(si), fmtv("calls on the detached %s emitter (after %s) called the error handler of the holder it was detached from", kKindNames[k], last_clean.c_str()), fmtv("detached:holder-handler-called:%s", kKindNames[k]));
        break;
      }
      case OP_MIGRATE_OUT: {
        // the emitter leaves the first holder (which stays alive and in use) and generates a program in a second one
        int a2 = s.arch, fam = fam_of(a2);
        const Prog& P = kProgs[s.prog];
        if (away.active || !P.fn[fam] || !(P.kinds & (1u << k)) || pending[fam][k]) { ran = false; break; }
        BaseEmitter* em = R.get(fam, k);
        CodeHolder& B = *R.other();
        if (B.is_initialized()) B.reset((s.a & 1) ? ResetPolicy::kHard : ResetPolicy::kSoft);
        expect(do_init(B, a2, false, 0), Error::kOk, int(si), "init-other-holder");
        if (R.attached(fam, k)) {
          expect(B.attach(em), Error::kInvalidState, int(si), "attach-while-attached-to-another-holder");
          note_clean("detach", fam, k);
          expect(code.detach(em), Error::kOk, int(si), "detach");
          spent[fam][k] = false; unfin[fam][k] = false; used[fam][k] = false; clear_pending(fam, k);
        }
        expect(B.attach(em), Error::kOk, int(si), "attach-other-holder");
        if (O.stop) break;
        {
          Fields SF; Res& er = R.em_res[fam][k];
          snapshot_state(B, em, k, er.lg, er.eh, er.lg != nullptr, er.eh != nullptr, nullptr, nullptr, a2, false, 0, 1, SF);
          const Fields& FS = fresh_state(a2, k);
          for (size_t i = 0; i < SF.size() && i < FS.size(); i++)
            if (SF[i].second != FS[i].second)
              fail_sub(CL_STATE, int(si), fmtv("after %s, before %s: %s is '%s', on fresh objects '%s'", last_clean.c_str(), step_token(s, true).c_str(), SF[i].first.c_str(), SF[i].second.c_str(), FS[i].second.c_str()),
                       fmtv("state:%s:%s", kKindNames[k], SF[i].first.c_str()), SF[i].first, false);
          if (count) ST.state_checks++;
        }
        away.active = true; away.fam = fam; away.kind = k; away.arch = a2; away.first_holder_cleaned = false; away.step = si;
        ProbeSpec& sp = away.sp;
        sp = ProbeSpec(); sp.arch = a2; sp.kind = k; sp.prog = s.prog; sp.seed = s.seed; sp.base = false; sp.feat = 0; sp.val = uint32_t(em->diagnostic_options()) & 3u; sp.fin = 0; sp.post = (s.a & 2) != 0;
        sp.append = false; sp.pfx = "f_";
        away.ctx.reset(new Ctx(B, em, k, a2, s.seed, sp.pfx));
        Label none;
        g_count_probe_calls = false; probe_generate(*away.ctx, sp, none); g_count_probe_calls = count;
        if (count) ST.away_runs++;
        break;
      }
      case OP_MIGRATE_BACK: {
        if (!away.active || away.kind != k) { ran = false; break; }
        away_back(int(si), s.a & 3);
        break;
      }
      case OP_TWEAK: {
        // the user sets fields of the built-in section directly (public setters of Section)
        if (!code.is_initialized()) { ran = false; break; }
        Section* t = code.text_section();
        static const uint32_t al[3] = { 32, 64, 4096 };
        if (s.a & 1) t->set_alignment(al[s.b % 3]);
        if (s.a & 2) t->add_flags(SectionFlags::kZeroInitialized);
        if (s.a & 4) t->set_offset(0x1000u * (1 + s.b % 5));
        if (s.a & 8) t->set_virtual_size(0x20000u + s.b);
        if (count) for (int i = 0; i < 4; i++) if (s.a & (1u << i)) ST.tweaks[i]++;
        tweaked = true; left |= LEFT_TWEAK; clean_full = false; append_ok = false;
        break;
      }
      case OP_ONESHOT: {
        if (arch < 0) { ran = false; break; }
        int fam = fam_of(arch);
        if (!R.attached(fam, k) || pending[fam][k]) { ran = false; break; }
        BaseEmitter* em = R.em[fam][k];
        // options / extra register / inline comment set for an instruction that is never emitted
        char* str = strdup("pending inline comment of an instruction that never came");
        R.pending_str[fam][k] = str;
        em->set_inline_comment(str);
        if (fam == 0) {
          x86::Emitter* xe = em->as<x86::Emitter>();
          switch (s.a % 3) { case 0: xe->lock(); break; case 1: xe->k(x86::k3).z(); break; default: xe->rep(); em->set_extra_reg(arch == A_X64 ? x86::rcx : x86::ecx); break; }
        }
        else em->set_inst_options(InstOptions::kShortForm);
        pending[fam][k] = true; used[fam][k] = true; clean_full = false; append_ok = false;
        break;
      }
      case OP_FINALIZE: {
        if (arch < 0 || k == K_ASM) { ran = false; break; }
        int fam = fam_of(arch);
        if (!R.attached(fam, k) || pending[fam][k] || spent[fam][k]) { ran = false; break; }
        Error e = R.em[fam][k]->finalize();
        if (e != Error::kOk) left |= LEFT_ERR;
        spent[fam][k] = true; unfin[fam][k] = false; asm_stale = true; clean_full = false;
        break;
      }
      case OP_POST: {
        if (!code.is_initialized()) { ran = false; break; }
        Fields f; observe_full(code, arch, true, f);
        if (code.has_base_address()) has_base = true;   // relocate_to_base() gives the holder a base address, which reinit() documents to keep
        posted = true; asm_stale = true; clean_full = false; append_ok = false;
        break;
      }
      case OP_GEN: case OP_PROBE: case OP_APROBE: {
        if (arch < 0) { ran = false; break; }
        int fam = fam_of(arch);
        const Prog& P = kProgs[s.prog];
        if (!P.fn[fam] || !(P.kinds & (1u << k)) || !R.attached(fam, k) || pending[fam][k] || spent[fam][k] || (k == K_ASM && asm_stale)) { ran = false; break; }
        BaseEmitter* em = R.em[fam][k];
        bool full_probe = s.op == OP_PROBE && clean_full;
        bool app_probe = !full_probe && s.op == OP_APROBE && !clean_full && append_ok && (P.flags & F_TEXTONLY) && !(P.flags & F_GLOBALCP) && !(arch == A_X86 && (P.flags & F_ABS32)) &&
                         !((P.flags & F_ABSCALL) && code.has_base_address());
        if (s.op == OP_APROBE && clean_full && (P.flags & F_TEXTONLY)) full_probe = true;   // nothing before it: an ordinary probe
        if (g_neutralize && !used[fam][k] && k == K_CMP) static_cast<BaseCompiler*>(em)->_jump_annotations.reset();
        if (g_neutralize) em->set_error_handler(R.em_res[fam][k].eh);
        if (!used[fam][k]) {
          // public state of the emitter that was just (re-)attached / re-initialised and - when the holder is clean too - of the
          // holder; with content in the holder only the emitter's own state is comparable
          Fields SF;
          Res& er = R.em_res[fam][k];
          snapshot_state(code, em, k, er.lg ? er.lg : R.holder_res.lg, er.eh ? static_cast<ErrorHandler*>(er.eh) : static_cast<ErrorHandler*>(R.holder_res.eh), er.lg != nullptr, er.eh != nullptr,
                         R.holder_res.lg, R.holder_res.eh, arch, has_base, feat, R.count_attached(code), SF);
          const Fields& FS = fresh_state(arch, k);
          for (size_t i = 0; i < SF.size() && i < FS.size(); i++) {
            const std::string& fn = SF[i].first;
            if (!full_probe && !(fn.rfind("em.", 0) == 0 || fn.rfind("cmp.", 0) == 0 || fn == "bld.nodes" || fn == "bld.cursor" || fn == "bld.passes" || fn == "code.attached_emitters")) continue;
            if (SF[i].second != FS[i].second)
              fail_sub(CL_STATE, int(si), fmtv("after %s, before %s: %s is '%s', on fresh objects '%s'", last_clean.c_str(), step_token(s, true).c_str(), fn.c_str(), SF[i].second.c_str(), FS[i].second.c_str()),
                       fmtv("state:%s:%s", kKindNames[k], fn.c_str()), fn, false);
          }
          if (count) ST.state_checks++;
        }
        used[fam][k] = true;
        if (!full_probe && !app_probe) {
          // ---- junk generation: its only purpose is to leave state behind
          Ctx c(code, em, k, arch, s.seed, "f_");
          g_fn_log.clear();
          P.fn[fam](c);
          if (k == K_CMP) { if (!unfin[fam][k]) fn_hist[fam].clear(); fn_hist[fam].insert(fn_hist[fam].end(), g_fn_log.begin(), g_fn_log.end()); }
          bool fin = k != K_ASM && ((s.a & 1) || s.op != OP_GEN);
          if (fin) { c.tr.rec(em->finalize()); spent[fam][k] = true; asm_stale = true; }
          else if (k != K_ASM) unfin[fam][k] = true;
          if (c.tr.nerr) left |= LEFT_ERR;
          if (c.tr.nerr || !(P.flags & F_CLEAN) || (P.flags & F_GLOBALCP)) append_ok = false;
          clean_full = false;
          break;
        }
        ProbeSpec sp;
        sp.arch = arch; sp.kind = k; sp.prog = s.prog; sp.seed = s.seed; sp.base = has_base; sp.feat = feat;
        sp.val = uint32_t(em->diagnostic_options()) & 3u; sp.fin = (k != K_ASM && (s.a & 1)) ? 1 : 0; sp.post = full_probe && (s.a & 2); sp.append = app_probe;
        sp.pfx = app_probe ? fmtv("a%zu_", si) : std::string("f_");
        BaseEmitter* ser = nullptr;
        if (sp.fin == 1) {
          ser = R.get(fam, K_ASM);
          if (pending[fam][K_ASM] || (ser->code() && ser->code() != &code)) { sp.fin = 0; ser = nullptr; }
          else {
            if (R.attached(fam, K_ASM)) expect(code.detach(ser), Error::kOk, int(si), "detach");   // re-attach: positions it at the end of .text
            expect(code.attach(ser), Error::kOk, int(si), "attach");
            ser->clear_diagnostic_options(DiagnosticOptions(0xFFFFFFFFu)); ser->add_diagnostic_options(DiagnosticOptions(sp.val));
            asm_stale = false;
          }
        }
        Fields F; fadd(F, "setup", "0,0");
        g_fn_log.clear();
        uint32_t nerr = run_probe(code, em, ser, sp, F);
        if (count && app_probe && k == K_CMP && unfin[fam][k] && !fn_hist[fam].empty() && !g_fn_log.empty()) {
          // Q's functions stand behind earlier functions of the same Compiler: were those compiled under other per-function settings?
          ST.append_behind_funcs++;
          for (uint32_t v : fn_hist[fam]) if (v != g_fn_log[0]) { ST.append_behind_other_variant++; break; }
        }
        int rres = text_residue(code);
        const FreshResult& fr = fresh_control(sp, hc.pseed, rres);
        int fres = fr.res64;
        std::string what, fld = diff_fields(F, fr.f, &what);
        O.probes++;
        if (leftover_clean_seen) O.nontrivial = true;
        if (count) {
          if (rres >= 0) ST.res_recycled[rres]++;
          if (fres >= 0) ST.res_fresh[fres]++;
          if (rres >= 0 && fres >= 0) {
            bool d = rres != fres; if (d) ST.pairs_diff++; else ST.pairs_same++;
            if (P.flags & F_WIDEALIGN) { ST.pairs_wide++; if (d) ST.pairs_wide_diff++; }
          }
          ST.probes[app_probe ? 1 : 0][k][arch]++; ST.progs_probed[P.name]++; if (fr.nerr) { ST.probe_err_programs++; ST.progs_err[P.name]++; }
          if (R.holder_res.lg || R.em_res[fam][k].lg) ST.probes_with_logger++;
          if (R.holder_res.eh || R.em_res[fam][k].eh) ST.probes_with_eh++;
          if (uint32_t(em->diagnostic_options())) ST.probes_with_diag++;
          if (hc.static_size) ST.probes_static++;
          ST.probes_by_feat[feat % kNumFeatSel]++; if (tweak_cleaned) ST.probes_after_tweak++;
          if (noise_seen) ST.probes_after_noise++;
        }
        if (!app_probe && O.canon.size() < 6) O.canon.emplace_back(sp.str(), fr.hash);
        if (!fld.empty()) {
          fail(cls_of_field(fld), int(si), fmtv("probe %s after %s (.text buffer at %d mod 64, fresh control at %d mod 64): ", sp.str().c_str(), last_clean.c_str(), rres, fres) + what,
               fmtv("%s:%s:%s:%s:%s", app_probe ? "append" : "residue", kClsNames[cls_of_field(fld)], kKindNames[k], last_clean.c_str(), P.name));
          break;
        }
        // fresh objects must give the same answer whatever the heap looks like right now
        // (the heap is perturbed between the twins; the second one is steered onto another residue mod 64 when the allocator allows it)
        if ((O.probes & 7) == 1 || (g_steer && (P.flags & F_WIDEALIGN))) {
          if (count) ST.nondet_checks++;
          std::string key = sp.str(); FreshResult old = g_fresh_cache[key]; g_fresh_cache.erase(key);
          const FreshResult& again = fresh_control(sp, hc.pseed ^ 0x7717ull, old.res64);
          if (count && again.res64 >= 0 && old.res64 >= 0) {
            bool d = again.res64 != old.res64; ST.res_twin[again.res64]++; if (d) ST.twin_diff++; else ST.twin_same++;
            if (P.flags & F_WIDEALIGN) { ST.twin_wide++; if (d) ST.twin_wide_diff++; }
          }
          std::string w2, f2 = diff_fields(again.f, old.f, &w2);
          if (!f2.empty()) {
            fail(CL_NONDET, int(si), fmtv("two fresh generations of %s differ (.text buffers at %d and %d mod 64): ", key.c_str(), again.res64, old.res64) + w2, std::string("nondet:") + kKindNames[k] + ":" + P.name);
            break;
          }
        }
        if (count && (P.flags & F_FEAT) && fam == 0 && k == K_CMP && !app_probe) {
          // evidence: is this probe's output a function of the holder's CPU features at all?
          uint64_t h0 = fresh_control(sp, hc.pseed).hash;
          ProbeSpec sp2 = sp; sp2.feat = feat == 3 ? 0 : 3;
          g_count_probe_calls = false;
          uint64_t h1 = fresh_control(sp2, hc.pseed).hash;
          g_count_probe_calls = count;
          ST.feat_checks++; if (h0 != h1) ST.feat_sensitive++;
        }
        if (sp.kind != K_ASM) { spent[fam][k] = true; if (sp.fin == 0) asm_stale = true; }
        if (sp.post) { posted = true; asm_stale = true; append_ok = false; if (code.has_base_address()) has_base = true; }
        if (nerr) left |= LEFT_ERR;
        if (nerr || !(P.flags & F_CLEAN)) append_ok = false;
        clean_full = false;
        break;
      }
      default: ran = false; break;
    }
    aw_poll();
    if (count) { if (ran) ST.steps[s.op]++; else ST.skipped[s.op]++; }
    if (ran) { O.sig += step_token(s, false); O.sig += ' '; }
    if (g_stale_log != stale_log0) { fail(CL_STALE_LOG, int(si), fmtv("a logger that is no longer installed was called during step %s", step_token(s, true).c_str()), std::string("stale-logger:") + kOpNames[s.op]); stale_log0 = g_stale_log; }
    if (g_stale_eh != stale_eh0) { fail(CL_STALE_EH, int(si), fmtv("an error handler that is no longer installed was called during step %s", step_token(s, true).c_str()), std::string("stale-eh:") + kOpNames[s.op]); stale_eh0 = g_stale_eh; }
    R.tick();
  }
  if (away.active && !O.stop) away_back(int(S.size()) - 1, 0);   // whatever was generated in the other holder is finalized and compared
  aw_poll();
  // before the objects go away: emitter-level loggers are uninstalled by their owner
  for (int f = 0; f < 2; f++) for (int k = 0; k < 3; k++) if (R.em[f][k]) { R.em[f][k]->set_logger(nullptr); R.em[f][k]->set_error_handler(nullptr); }
}

// =========================================================================================================
// Shrinking (fork()ed children: a sanitizer abort only kills the attempt) and main
// =========================================================================================================

static void make_history(uint64_t seed, uint64_t idx, HistCfg& hc, std::vector<Step>& S) {
  Rng r(fnv1a(&idx, sizeof idx, seed * 0x9E3779B97F4A7C15ull + 0xC16));
  hc = HistCfg(); S.clear();
  gen_history(r, hc, S);
  hc.pseed = r.next();
  hc.quarantine = (hc.pseed >> 17) & 1;
}

struct ChildResult { std::vector<std::string> ids, whats; bool has(const std::string& id) const { return std::find(ids.begin(), ids.end(), id) != ids.end(); } };
static bool g_child_quiet = true;
static unsigned g_hang_seconds = 10;

static ChildResult run_in_child(const HistCfg& hc, const std::vector<Step>& S) {
  ChildResult cr;
  int pfd[2]; if (pipe(pfd) != 0) return cr;
  fflush(stdout); fflush(stderr);
  pid_t pid = fork();
  if (pid == 0) {
    close(pfd[0]);
    if (g_child_quiet) { int dn = open("/dev/null", O_WRONLY); if (dn >= 0) { dup2(dn, 2); close(dn); } }
    signal(SIGALRM, SIG_DFL); alarm(g_hang_seconds);
    g_viol_fd = pfd[1];
    Outcome O; run_history(hc, S, O, false);
    g_fresh_cache.clear(); g_fresh_state.clear(); g_fresh_poke.clear();
    if (leak_check_now()) { std::string msg = "leak\tLeakSanitizer: memory of the history is unreachable after all objects were destroyed\n"; ssize_t wr = write(pfd[1], msg.data(), msg.size()); (void)wr; }
    close(pfd[1]);
    _exit(0);
  }
  close(pfd[1]);
  std::string msg; char buf[4096]; ssize_t n;
  while ((n = read(pfd[0], buf, sizeof buf)) > 0) msg.append(buf, size_t(n));
  close(pfd[0]);
  int status = 0; waitpid(pid, &status, 0);
  size_t pos = 0;
  while (pos < msg.size()) {
    size_t nl = msg.find('\n', pos); if (nl == std::string::npos) break;
    std::string line = msg.substr(pos, nl - pos); pos = nl + 1;
    size_t tab = line.find('\t'); if (tab == std::string::npos) continue;
    cr.ids.push_back(line.substr(0, tab)); cr.whats.push_back(line.substr(tab + 1));
  }
  if (WIFSIGNALED(status) && WTERMSIG(status) == SIGALRM) { cr.ids.push_back("hang"); cr.whats.push_back("the history did not finish (endless loop)"); }
  else if (!(WIFEXITED(status) && WEXITSTATUS(status) == 0)) {
    cr.ids.push_back("sanitizer");
    cr.whats.push_back(WIFSIGNALED(status) ? fmtv("child killed by signal %d", WTERMSIG(status)) : fmtv("child exit code %d", WEXITSTATUS(status)));
  }
  return cr;
}

static std::string history_str(const HistCfg& hc, const std::vector<Step>& S, bool full) {
  std::string o;
  if (hc.static_size) o += full ? fmtv("[static_arena=%u] ", hc.static_size) : "[static_arena] ";
  if (hc.noise && full) o += "[heap-noise] ";
  if (hc.quarantine && full && kAsanBuild) o += "[arena-quarantine] ";
  for (size_t i = 0; i < S.size(); i++) { if (S[i].op == OP_NOISE && !full) continue; if (i) o += ' '; o += step_token(S[i], full); }
  return o;
}

static void shrink(HistCfg& hc, std::vector<Step>& S, const std::string& target, uint64_t& attempts) {
  auto still = [&](const HistCfg& h, const std::vector<Step>& T2) { attempts++; return run_in_child(h, T2).has(target); };
  bool changed = true;
  while (changed) {
    changed = false;
    // remove chunks, then single steps
    for (size_t chunk = S.size() / 2; chunk >= 1; chunk /= 2) {
      for (size_t i = 0; i + chunk <= S.size();) {
        std::vector<Step> T2(S.begin(), S.begin() + long(i)); T2.insert(T2.end(), S.begin() + long(i + chunk), S.end());
        if (!T2.empty() && still(hc, T2)) { S = T2; changed = true; } else i++;
      }
      if (chunk == 1) break;
    }
    // simplify parameters
    if (hc.static_size) { HistCfg h = hc; h.static_size = 0; if (still(h, S)) { hc = h; changed = true; } }
    if (hc.quarantine) { HistCfg h = hc; h.quarantine = false; if (still(h, S)) { hc = h; changed = true; } }
    if (hc.noise) { HistCfg h = hc; h.noise = false; std::vector<Step> T2; for (auto& s : S) if (s.op != OP_NOISE) T2.push_back(s); if (still(h, T2)) { hc = h; S = T2; changed = true; } }
    for (size_t i = 0; i < S.size(); i++) {
      auto attempt = [&](Step ns) { if (memcmp(&ns, &S[i], sizeof ns) == 0) return; std::vector<Step> T2 = S; T2[i] = ns; if (still(hc, T2)) { S = T2; changed = true; } };
      Step s = S[i];
      if (s.op == OP_SETCFG) {
        { Step n = S[i]; n.a = cfg_pack(0, 0, cfg_eh(n.a), 0); attempt(n); }
        { Step n = S[i]; n.a = cfg_pack(cfg_log(n.a), cfg_loglvl(n.a), 0, cfg_fmt(n.a)); attempt(n); }
        { Step n = S[i]; n.a = cfg_pack(cfg_log(n.a), cfg_loglvl(n.a), cfg_eh(n.a), 0); attempt(n); }
        for (uint32_t d : kDiagBits) { Step n = S[i]; n.b &= ~d; attempt(n); }
      }
      if (s.op == OP_GEN || s.op == OP_PROBE || s.op == OP_APROBE) {
        { Step n = S[i]; n.seed = 0; attempt(n); }
        { Step n = S[i]; n.a &= ~1u; attempt(n); }
        { Step n = S[i]; n.a &= ~2u; attempt(n); }
        if (s.op != OP_GEN && target.rfind("state:", 0) == 0) { Step n = S[i]; n.prog = 0; attempt(n); }   // state alarms do not depend on the probe program
      }
      if (s.op == OP_INIT) { Step n = S[i]; n.a = 0; attempt(n); }
      if (s.op == OP_INIT) { Step n = S[i]; n.b = 0; attempt(n); }
      if (s.op == OP_INIT && s.b > 1) { Step n = S[i]; n.b = 1; attempt(n); }
      if (s.op == OP_MIGRATE_OUT) { { Step n = S[i]; n.seed = 0; attempt(n); } { Step n = S[i]; n.a = 0; attempt(n); } }
      if (s.op == OP_MIGRATE_BACK) { Step n = S[i]; n.a = 0; attempt(n); }
      if (s.op == OP_TWEAK) for (uint32_t bit = 1; bit <= 8; bit <<= 1) { Step n = S[i]; n.a &= ~bit; if (n.a) attempt(n); }
      if (s.op == OP_NEWHOLDER) { Step n = S[i]; n.op = OP_RESET_HARD; attempt(n); }
      if (s.op == OP_RESET_HARD) { Step n = S[i]; n.op = OP_RESET_SOFT; attempt(n); }
    }
  }
}

int main(int argc, char** argv) {
  Args args(argc, argv);
  uint64_t seed = args.u64("seed", 1), nh = args.u64("histories", 100), first = args.u64("first", 0);
  g_dump = args.has("dump"); g_neutralize = args.has("neutralize") || getenv("VERIF_C16_NEUTRALIZE") != nullptr;
  g_hang_seconds = unsigned(args.u64("hang-seconds", 10));
  g_devnull = fopen("/dev/null", "w");
  setvbuf(stderr, nullptr, _IOLBF, 0);

  if (args.has("only") && args.has("shrink")) {
    uint64_t idx = args.u64("only", 0);
    HistCfg hc; std::vector<Step> S; make_history(seed, idx, hc, S);
    g_child_quiet = !args.has("verbose");
    ChildResult cr = run_in_child(hc, S);
    std::string target = args.str("target", "");
    if (target.empty() && !cr.ids.empty()) {
      target = cr.ids[0];
      for (auto& id : cr.ids) if (id.rfind("state:", 0) != 0) { target = id; break; }   // prefer what the output shows over what the state shows
    }
    uint64_t attempts = 0; size_t before = S.size();
    std::string orig = history_str(hc, S, true);
    bool found = !target.empty() && cr.has(target);
    if (found) shrink(hc, S, target, attempts);
    ChildResult fin = found ? run_in_child(hc, S) : cr;
    std::string what;
    for (size_t i = 0; i < fin.ids.size(); i++) if (fin.ids[i] == target) what = fin.whats[i];
    std::string others;
    for (auto& id : fin.ids) if (id != target && others.find(id + " ") == std::string::npos) others += id + " ";
    std::string key = !found ? "" : target + "|" + history_str(hc, S, false);
    printf("{\"mode\":\"shrink\",\"idx\":%llu,\"cls\":%s,\"key\":%s,\"what\":%s,\"also\":%s,\"minimal\":%s,\"original\":%s,\"steps_before\":%zu,\"steps_after\":%zu,\"attempts\":%llu}\n",
           (ull)idx, jstr(found ? target : "none").c_str(), jstr(key).c_str(), jstr(what).c_str(), jstr(others).c_str(), jstr(history_str(hc, S, true)).c_str(),
           jstr(orig).c_str(), before, S.size(), (ull)attempts);
    return 0;
  }

  if (args.has("only")) { first = args.u64("only", 0); nh = 1; }
  std::string viol;
  std::set<std::string> sigs_nontrivial; uint64_t sigs_all = 0, nontrivial = 0, probes = 0, histories = 0, leak_checks = 0;
  std::vector<std::string> samples;
  std::string canon;
  size_t ncanon = 0;
  for (uint64_t idx = first; idx < first + nh; idx++) {
    HistCfg hc; std::vector<Step> S; make_history(seed, idx, hc, S);
    alarm(g_hang_seconds * 3);
    { char b[64]; int n = snprintf(b, sizeof b, "@h %llu\n", (ull)idx); ssize_t wr = write(2, b, size_t(n)); (void)wr; }
    if (g_dump) fprintf(stderr, "history %llu: %s\n", (ull)idx, history_str(hc, S, true).c_str());
    Outcome O; run_history(hc, S, O, true);
    histories++; probes += O.probes; sigs_all++;
    if (O.nontrivial && O.v.empty()) { nontrivial++; char hb[24]; snprintf(hb, sizeof hb, "%016llx", (ull)fnv1a(O.sig.data(), O.sig.size())); sigs_nontrivial.insert(hb); if (samples.size() < 3) samples.push_back(history_str(hc, S, true)); }
    for (auto& cn : O.canon) if (ncanon < 500) { if (ncanon++) canon += ","; canon += jstr(cn.first) + ":\"" + fmtv("%016llx", (ull)cn.second) + "\""; }
    for (auto& x : O.v) {
      if (!viol.empty()) viol += ",";
      viol += fmtv("{\"idx\":%llu,\"cls\":%s,\"id\":%s,\"key\":%s,\"what\":%s,\"history\":%s}", (ull)idx, jstr(kClsNames[x.cls]).c_str(), jstr(x.id).c_str(), jstr(x.prelim).c_str(), jstr(x.what).c_str(),
                   jstr(history_str(hc, S, true)).c_str());
      if (g_dump) fprintf(stderr, "VIOLATION %s: %s\n", x.prelim.c_str(), x.what.c_str());
    }
    // leaks are looked for while the culprit can still be named
    if (((idx - first) & 31) == 31 || idx + 1 == first + nh) {
      leak_checks++;
      g_fresh_cache.clear(); g_fresh_state.clear(); g_fresh_poke.clear();
      if (leak_check_now()) {
        if (!viol.empty()) viol += ",";
        viol += fmtv("{\"idx\":%llu,\"cls\":\"leak\",\"id\":\"leak\",\"key\":\"leak\",\"what\":\"LeakSanitizer report within histories %llu..%llu\",\"history\":\"\",\"range\":[%llu,%llu]}",
                     (ull)idx, (ull)(idx & ~31ull), (ull)idx, (ull)(idx - ((idx - first) & 31)), (ull)idx);
      }
    }
  }
  ST.log_calls = g_log_calls; ST.eh_calls = g_eh_calls;
  std::string out = "{\"mode\":\"run\",\"violations\":[" + viol + "]";
  out += fmtv(",\"histories\":%llu,\"probes\":%llu,\"nontrivial\":%llu,\"fresh_runs\":%llu,\"fresh_cache_hits\":%llu,\"leak_checks\":%llu", (ull)histories, (ull)probes, (ull)nontrivial,
              (ull)g_fresh_runs, (ull)g_fresh_hits, (ull)leak_checks);
  out += ",\"sigs\":[";
  { bool f1 = true; for (auto& s : sigs_nontrivial) { if (!f1) out += ","; f1 = false; out += "\"" + s + "\""; } }
  out += "],\"steps\":{";
  for (int i = 0; i < OP_COUNT; i++) out += fmtv("%s\"%s\":[%llu,%llu]", i ? "," : "", kOpNames[i], (ull)ST.steps[i], (ull)ST.skipped[i]);
  out += "},\"probes_by\":{";
  { bool f1 = true; for (int m = 0; m < 2; m++) for (int k = 0; k < 3; k++) for (int a = 0; a < 3; a++) { out += fmtv("%s\"%s/%s/%s\":%llu", f1 ? "" : ",", m ? "append" : "full", kKindNames[k], kArchNames[a], (ull)ST.probes[m][k][a]); f1 = false; } }
  out += "},\"progs_probed\":{";
  { bool f1 = true; for (auto& p : ST.progs_probed) { out += fmtv("%s\"%s\":%llu", f1 ? "" : ",", p.first.c_str(), (ull)p.second); f1 = false; } }
  out += "},\"progs_err\":{";
  { bool f1 = true; for (auto& p : ST.progs_err) { out += fmtv("%s\"%s\":%llu", f1 ? "" : ",", p.first.c_str(), (ull)p.second); f1 = false; } }
  out += "},\"leftover_at_clean\":{";
  for (int i = 0; i < kNumLeft; i++) out += fmtv("%s\"%s\":%llu", i ? "," : "", kLeftNames[i], (ull)ST.cleans_with_leftover[i]);
  out += fmtv("},\"cleans\":%llu,\"cleans_with_leftover\":%llu,\"probe_programs_with_errors\":%llu,\"expected_api_errors\":%llu,\"nondet_checks\":%llu", (ull)ST.cleans, (ull)ST.cleans_leftover_any,
              (ull)ST.probe_err_programs, (ull)ST.expected_api_errors, (ull)ST.nondet_checks);
  out += fmtv(",\"state_checks\":%llu", (ull)ST.state_checks);
  out += fmtv(",\"probes_after_tweak\":%llu,\"feat_checks\":%llu,\"feat_sensitive\":%llu,\"append_behind_funcs\":%llu,\"append_behind_other_variant\":%llu",
              (ull)ST.probes_after_tweak, (ull)ST.feat_checks, (ull)ST.feat_sensitive, (ull)ST.append_behind_funcs, (ull)ST.append_behind_other_variant);
  out += fmtv(",\"arena_watch\":{\"arenas_registered\":%llu,\"arena_requests_seen\":%llu,\"resets_seen\":%llu,\"resets_with_retained_memory\":%llu,\"retained_blocks_behind_first\":%llu,\"bytes_poisoned\":%llu,"
              "\"histories_quarantine_mode\":%llu,\"blocks_quarantined\":%llu,\"bytes_quarantined\":%llu}",
              (ull)g_aw_tracked, (ull)g_aw_requests, (ull)g_aw_resets, (ull)g_aw_resets_retaining, (ull)g_aw_blocks, (ull)g_aw_bytes, (ull)ST.quarantine_hist, (ull)g_aw_quar_blocks, (ull)g_aw_quar_bytes);
  out += fmtv(",\"pokes\":%llu,\"poke_calls\":%llu,\"pokes_own_eh\":%llu,\"pokes_own_logger\":%llu,\"away_runs\":%llu,\"away_compared\":%llu,\"away_spanning_clean\":%llu",
              (ull)ST.pokes, (ull)ST.poke_calls, (ull)ST.pokes_own_eh, (ull)ST.pokes_own_logger, (ull)ST.away_runs, (ull)ST.away_compared, (ull)ST.away_spanning_clean);
  out += ",\"poke_by_clean\":{";
  { bool f1 = true; for (auto& p : ST.poke_by_clean) { out += fmtv("%s\"%s\":%llu", f1 ? "" : ",", p.first.c_str(), (ull)p.second); f1 = false; } }
  out += "},\"away_by\":{";
  { bool f1 = true; for (auto& p : ST.away_by) { out += fmtv("%s\"%s\":%llu", f1 ? "" : ",", p.first.c_str(), (ull)p.second); f1 = false; } }
  out += "}";
  out += fmtv(",\"init_by\":{\"init(env,base)\":%llu,\"init(env,no features,base)\":%llu,\"init(env,features2,base)\":%llu,\"init(env,features3,base)\":%llu,"
              "\"probes/init(env,base)\":%llu,\"probes/no features\":%llu,\"probes/features2\":%llu,\"probes/features3\":%llu}",
              (ull)ST.inits[0], (ull)ST.inits[1], (ull)ST.inits[2], (ull)ST.inits[3], (ull)ST.probes_by_feat[0], (ull)ST.probes_by_feat[1], (ull)ST.probes_by_feat[2], (ull)ST.probes_by_feat[3]);
  out += fmtv(",\"tweaks\":{\"alignment\":%llu,\"flags\":%llu,\"offset\":%llu,\"virtual_size\":%llu}", (ull)ST.tweaks[0], (ull)ST.tweaks[1], (ull)ST.tweaks[2], (ull)ST.tweaks[3]);
  {
    std::string fv = ",\"fn_variants\":{", fc = ",\"fn_cc\":{", ic = ",\"invoke_cc\":{"; bool f1 = true, f2 = true, f3 = true;
    for (int f = 0; f < 2; f++) for (int v = 0; v < 64; v++) if (g_fn_variants[f][v]) {
      // family / calling-convention slot / avx / avx512 / preserved frame pointer
      fv += fmtv("%s\"%s/cc%d%s%s%s\":%llu", f1 ? "" : ",", f ? "a64" : "x86", v & 7, (v & 8) ? "/avx" : "", (v & 16) ? "/avx512" : "", (v & 32) ? "/fp" : "", (ull)g_fn_variants[f][v]); f1 = false; }
    for (int a = 0; a < 3; a++) for (int sl = 0; sl < 5; sl++) {
      if (g_fn_cc[a][sl]) { fc += fmtv("%s\"%s/%s\":%llu", f2 ? "" : ",", kArchNames[a], kCCNames[a][sl], (ull)g_fn_cc[a][sl]); f2 = false; }
      if (g_invoke_cc[a][sl]) { ic += fmtv("%s\"%s/%s\":%llu", f3 ? "" : ",", kArchNames[a], kCCNames[a][sl], (ull)g_invoke_cc[a][sl]); f3 = false; }
    }
    out += fv + "}" + fc + "}" + ic + "}";
  }
  out += fmtv(",\"perturb\":{\"static_arena_histories\":%llu,\"heap_noise_histories\":%llu,\"probes_static_arena\":%llu,\"probes_after_heap_noise\":%llu,\"probes_with_logger\":%llu,\"probes_with_error_handler\":%llu,"
              "\"probes_with_diagnostics\":%llu,\"setcfg_string_logger\":%llu,\"setcfg_file_logger\":%llu,\"setcfg_logger_on_holder\":%llu,\"setcfg_logger_on_emitter\":%llu,\"setcfg_eh_holder\":%llu,\"setcfg_eh_emitter\":%llu,"
              "\"diag_validate_assembler\":%llu,\"diag_validate_intermediate\":%llu,\"diag_ra_annotate\":%llu,\"diag_ra_debug_all\":%llu,\"logger_calls\":%llu,\"handler_calls\":%llu}",
              (ull)ST.static_hist, (ull)ST.noise_hist, (ull)ST.probes_static, (ull)ST.probes_after_noise, (ull)ST.probes_with_logger, (ull)ST.probes_with_eh, (ull)ST.probes_with_diag,
              (ull)ST.cfg_log[1], (ull)ST.cfg_log[2], (ull)ST.cfg_loglvl[0], (ull)ST.cfg_loglvl[1], (ull)ST.cfg_eh[1], (ull)ST.cfg_eh[2], (ull)ST.cfg_diag[0], (ull)ST.cfg_diag[1], (ull)ST.cfg_diag[2],
              (ull)ST.cfg_diag[3], (ull)ST.log_calls, (ull)ST.eh_calls);
  {
    auto hist = [&](const char* name, const uint64_t* h) { std::string o = fmtv(",\"%s\":{", name); bool f1 = true; for (int i = 0; i < 64; i++) if (h[i]) { o += fmtv("%s\"%d\":%llu", f1 ? "" : ",", i, (ull)h[i]); f1 = false; } return o + "}"; };
    out += hist("res_recycled", ST.res_recycled) + hist("res_fresh", ST.res_fresh) + hist("res_twin", ST.res_twin);
    out += fmtv(",\"addr\":{\"pairs_different_residue\":%llu,\"pairs_same_residue\":%llu,\"wide_align_pairs\":%llu,\"wide_align_pairs_different_residue\":%llu,\"twins_different_residue\":%llu,"
                "\"twins_same_residue\":%llu,\"wide_align_twins\":%llu,\"wide_align_twins_different_residue\":%llu,\"steering_retries\":%llu,\"heap_perturbations\":%llu,\"perturbation_blocks\":%llu,"
                "\"perturbation_blocks_kept\":%llu,\"align_offset_model_mismatches\":%llu}",
                (ull)ST.pairs_diff, (ull)ST.pairs_same, (ull)ST.pairs_wide, (ull)ST.pairs_wide_diff, (ull)ST.twin_diff, (ull)ST.twin_same, (ull)ST.twin_wide, (ull)ST.twin_wide_diff, (ull)g_steer_retries,
                (ull)g_perturb_calls, (ull)g_perturb_blocks, (ull)g_perturb_kept, (ull)g_align_model_mismatch);
    static const char* kFam[2] = { "x86", "a64" };
    std::string al = ",\"aligns\":{", pl = ",\"pools\":{", nc = ",\"new_const\":{"; bool f1 = true, f2 = true, f3 = true;
    for (int f = 0; f < 2; f++) for (int m = 0; m < 3; m++) for (int l = 0; l < 7; l++) if (g_align_total[f][m][l]) {
      al += fmtv("%s\"%s/%s/%u\":[%llu,%llu]", f1 ? "" : ",", kFam[f], kAlignModeNames[m], 1u << l, (ull)g_align_unaligned[f][m][l], (ull)g_align_total[f][m][l]); f1 = false; }
    for (int f = 0; f < 2; f++) for (int k = 0; k < 3; k++) for (int l = 0; l < 7; l++) if (g_pool_embeds[f][k][l]) {
      pl += fmtv("%s\"%s/%s/%u\":[%llu,%llu]", f2 ? "" : ",", kFam[f], kKindNames[k], 1u << l, (ull)g_pool_unaligned[f][k][l], (ull)g_pool_embeds[f][k][l]); f2 = false; }
    for (int f = 0; f < 2; f++) for (int sc = 0; sc < 2; sc++) for (int l = 0; l < 7; l++) if (g_new_const[f][sc][l]) {
      nc += fmtv("%s\"%s/%s/%u\":%llu", f3 ? "" : ",", kFam[f], sc ? "global" : "local", 1u << l, (ull)g_new_const[f][sc][l]); f3 = false; }
    out += al + "}" + pl + "}" + nc + "}";
    out += fmtv(",\"allocator\":\"%s\"", kAsanBuild ? "asan" : "glibc");
  }
  out += ",\"static_sizes\":{";
  for (int i = 0; i < 10; i++) out += fmtv("%s\"%u\":%llu", i ? "," : "", kStaticSizes[i], (ull)ST.static_sizes[i]);
  out += "},\"samples\":[";
  for (size_t i = 0; i < samples.size(); i++) out += (i ? "," : "") + jstr(samples[i]);
  out += "],\"canon\":{" + canon + "}}";
  puts(out.c_str());
  fflush(stdout);
  _exit(0);   // leak checks were done above (with attribution); the exit-time check would only repeat them
}
