// AArch64 emit driver (C02): reads case lines, builds operands with the public API, calls a64::Assembler::emit and
// reports what happened. No oracle logic here; oracles live in vlib/props/c02.py.
//
// case line: <id> <inst-name[.cc]|#instid> <nops> <op>...
//   G:w|x:<id>                         a64::Gp (id 31 = SP, 63 = ZR, anything else taken literally)
//   V:b|h|s|d|q:<id>[:<et>[:<idx>]]    a64::Vec; et in -,b,h,s,d,b4,h2 ; idx = element index
//   I:<int64>  U:<uint64>  F:<double>  immediates
//   S:<shiftop>:<amount>               Imm(arm::Shift(op, amount)); shiftop = lsl,lsr,asr,ror,msl,uxtb..sxtx
//   M:<baseid>:<mode o|pre|post>:<off> a64::Mem [x<baseid>, #off] (fixed / pre-index / post-index)
//   MX:<baseid>:<w|x>:<idxid>:<shiftop|->:<amount>:<mode>   register index
//   ML:<off>                           Mem(label bound at the current position, off)
//   MA:<disp>                          Mem(absolute address = pc + disp)
//   L                                  label bound at the current position
//   A:<disp>                           Imm(absolute address of pc + disp)     (code base address is known)
//   AP:<disp>                          Imm((pc & ~4095) + disp)               (ADRP)
#include <asmjit/core.h>
#include <asmjit/a64.h>
#include <asmjit/arm/a64instdb_p.h>
#include "vcommon.h"
#include <iostream>
#include <sstream>
#include <fstream>

using namespace asmjit;

struct CountingHandler : public ErrorHandler {
  int calls = 0;
  Error last = Error::kOk;
  void handle_error(Error err, const char*, BaseEmitter*) override { calls++; last = err; }
};

static std::vector<std::string> split(const std::string& s, char c) {
  std::vector<std::string> o; std::string cur;
  for (char ch : s) { if (ch == c) { o.push_back(cur); cur.clear(); } else cur += ch; }
  o.push_back(cur);
  return o;
}

static const uint64_t kBase = 0x40000000ull;

struct Env {
  CodeHolder code;
  a64::Assembler a;
  CountingHandler eh;
  int n = 0;
  void reinit() {
    code.reset(ResetPolicy::kHard);
    code.init(Environment(Arch::kAArch64), kBase);
    code.set_error_handler(&eh);
    code.attach(&a);
    // keep the first page free so that negative displacements stay inside the address space and ADRP page maths is easy
    for (int i = 0; i < 16; i++) a.nop();
    n = 0;
  }
};

static bool shift_op_of(const std::string& s, arm::ShiftOp* out) {
  static const char* names[] = { "lsl", "lsr", "asr", "ror", "rrx", "msl", "uxtb", "uxth", "uxtw", "uxtx", "sxtb", "sxth", "sxtw", "sxtx" };
  for (unsigned i = 0; i < 14; i++) if (s == names[i]) { *out = arm::ShiftOp(i); return true; }
  return false;
}

static a64::VecElementType et_of(const std::string& s) {
  if (s == "b") return a64::VecElementType::kB;
  if (s == "h") return a64::VecElementType::kH;
  if (s == "s") return a64::VecElementType::kS;
  if (s == "d") return a64::VecElementType::kD;
  if (s == "b4") return a64::VecElementType::kB4;
  if (s == "h2") return a64::VecElementType::kH2;
  return a64::VecElementType::kNone;
}

int main(int argc, char** argv) {
  Args args(argc, argv);
  std::string in = args.str("cases", "-");

  // name -> ids (AArch64 uses one mnemonic for a GP and a SIMD id)
  std::map<std::string, std::vector<uint32_t>> by_name;
  for (uint32_t id = 1; id < a64::Inst::_kIdCount; id++) {
    String s;
    InstAPI::inst_id_to_string(Arch::kAArch64, id, InstStringifyOptions::kNone, s);
    by_name[std::string(s.data(), s.size())].push_back(id);
  }

  if (args.has("names")) {
    // one line per name: <name> <id>... <api-id>
    for (auto& kv : by_name) {
      printf("%s", kv.first.c_str());
      for (uint32_t x : kv.second) printf(" %u", x);
      printf(" api=%u\n", InstAPI::string_to_inst_id(Arch::kAArch64, kv.first.c_str(), kv.first.size()));
    }
    return 0;
  }

  Env E;
  E.reinit();

  std::istream* is = &std::cin;
  std::ifstream f;
  if (in != "-") { f.open(in); is = &f; }
  std::string line, out;
  out.reserve(1 << 20);
  while (std::getline(*is, line)) {
    if (line.empty()) continue;
    std::istringstream ss(line);
    std::string id, name; int nops = 0;
    ss >> id >> name >> nops;
    if (++E.n > 2000) E.reinit();
    a64::Assembler& a = E.a;

    Operand ops[6];
    bool bad = false, has_vec = false;
    Label self_label;
    uint64_t pc = kBase + a.offset();
    for (int i = 0; i < nops && i < 6; i++) {
      std::string tok; ss >> tok;
      std::vector<std::string> p = split(tok, ':');
      const std::string& k = p[0];
      if (k == "G" && p.size() >= 3) {
        uint32_t rid = (uint32_t)strtoul(p[2].c_str(), nullptr, 0);
        ops[i] = p[1] == "w" ? a64::Gp::make_r32(rid) : a64::Gp::make_r64(rid);
      }
      else if (k == "V" && p.size() >= 3) {
        has_vec = true;
        uint32_t rid = (uint32_t)strtoul(p[2].c_str(), nullptr, 0);
        a64::Vec v;
        char t = p[1][0];
        v = t == 'b' ? a64::Vec::make_v8(rid) : t == 'h' ? a64::Vec::make_v16(rid) : t == 's' ? a64::Vec::make_v32(rid) :
            t == 'd' ? a64::Vec::make_v64(rid) : a64::Vec::make_v128(rid);
        if (p.size() >= 4 && p[3] != "-") v.set_element_type(et_of(p[3]));
        if (p.size() >= 5 && p[4] != "-") v.set_element_index((uint32_t)strtoul(p[4].c_str(), nullptr, 0));
        ops[i] = v;
      }
      else if (k == "I" && p.size() >= 2) ops[i] = Imm((int64_t)strtoll(p[1].c_str(), nullptr, 0));
      else if (k == "U" && p.size() >= 2) ops[i] = Imm((uint64_t)strtoull(p[1].c_str(), nullptr, 0));
      else if (k == "F" && p.size() >= 2) ops[i] = Imm(strtod(p[1].c_str(), nullptr));
      else if (k == "S" && p.size() >= 3) {
        arm::ShiftOp sop;
        if (!shift_op_of(p[1], &sop)) bad = true;
        else ops[i] = Imm(arm::Shift(sop, (uint32_t)strtoul(p[2].c_str(), nullptr, 0)));
      }
      else if (k == "M" && p.size() >= 4) {
        uint32_t bid = (uint32_t)strtoul(p[1].c_str(), nullptr, 0);
        int32_t off = (int32_t)strtoll(p[3].c_str(), nullptr, 0);
        a64::Mem m(a64::Gp::make_r64(bid), off);
        if (p[2] == "pre") m.make_pre_index();
        else if (p[2] == "post") m.make_post_index();
        ops[i] = m;
      }
      else if (k == "MX" && p.size() >= 7) {
        uint32_t bid = (uint32_t)strtoul(p[1].c_str(), nullptr, 0);
        uint32_t iid = (uint32_t)strtoul(p[3].c_str(), nullptr, 0);
        a64::Gp idx = p[2] == "w" ? a64::Gp::make_r32(iid) : a64::Gp::make_r64(iid);
        a64::Mem m;
        if (p[4] == "-") m = a64::Mem(a64::Gp::make_r64(bid), idx);
        else {
          arm::ShiftOp sop;
          if (!shift_op_of(p[4], &sop)) bad = true;
          else m = a64::Mem(a64::Gp::make_r64(bid), idx, arm::Shift(sop, (uint32_t)strtoul(p[5].c_str(), nullptr, 0)));
        }
        if (p[6] == "pre") m.make_pre_index();
        else if (p[6] == "post") m.make_post_index();
        ops[i] = m;
      }
      else if (k == "ML" && p.size() >= 2) {
        if (!self_label.is_valid()) { self_label = a.new_label(); a.bind(self_label); }
        ops[i] = a64::Mem(self_label, (int32_t)strtoll(p[1].c_str(), nullptr, 0));
      }
      else if (k == "MA" && p.size() >= 2) {
        ops[i] = a64::Mem(uint64_t(pc + (uint64_t)strtoll(p[1].c_str(), nullptr, 0)));
      }
      else if (k == "L") {
        if (!self_label.is_valid()) { self_label = a.new_label(); a.bind(self_label); }
        ops[i] = self_label;
      }
      else if (k == "A" && p.size() >= 2) ops[i] = Imm(uint64_t(pc + (uint64_t)strtoll(p[1].c_str(), nullptr, 0)));
      else if (k == "AP" && p.size() >= 2) ops[i] = Imm(uint64_t((pc & ~uint64_t(4095)) + (uint64_t)strtoll(p[1].c_str(), nullptr, 0)));
      else bad = true;
    }

    // instruction id: by name through the public API; `_v` id when operands are vectors.
    uint32_t cc = 0;
    std::string base = name;
    size_t dot = name.find('.');
    if (dot != std::string::npos) { base = name.substr(0, dot); cc = (uint32_t)strtoul(name.c_str() + dot + 1, nullptr, 0); }
    InstId inst_id = 0;
    int lookup_miss = 0;
    if (base[0] == '#') inst_id = (InstId)strtoul(base.c_str() + 1, nullptr, 0);
    else {
      // by name through the public API; the name table (built from inst_id_to_string) only serves to find the sibling id
      // (GP vs `_v`) that carries the same mnemonic - it is no fallback: a name the API does not find stays unknown.
      InstId api_id = InstAPI::string_to_inst_id(Arch::kAArch64, base.c_str(), base.size());
      inst_id = api_id;
      auto it = by_name.find(base);
      if (it != by_name.end()) {
        const std::vector<uint32_t>& ids = it->second;
        bool found = false;
        for (uint32_t x : ids) if (x == api_id) found = true;
        if (!found) lookup_miss = 1;
        else if (ids.size() > 1) inst_id = has_vec ? ids.back() : ids.front();
      }
    }
    uint32_t real_id = inst_id;
    uint32_t encoding = real_id < a64::Inst::_kIdCount ? a64::InstDB::_inst_info_table[real_id]._encoding : 0;
    if (cc) inst_id = BaseInst::compose_arm_inst_id(inst_id, arm::CondCode(cc));

    size_t off0 = a.offset();
    size_t nl0 = E.code.label_count();
    size_t fix0 = E.code.unresolved_fixup_count();
    size_t rel0 = E.code.reloc_entries().size();
    E.eh.calls = 0; E.eh.last = Error::kOk;
    Error err = Error::kOk;
    if (bad) err = Error::kInvalidArgument;
    else if (real_id == 0) err = Error::kInvalidInstruction;
    else err = a.emit_op_array(inst_id, ops, (size_t)nops);
    size_t off1 = a.offset();

    char head[256];
    snprintf(head, sizeof head, "{\"id\":%s,\"err\":%u,\"h\":%d,\"inst\":%u,\"enc\":%u,\"miss\":%d,\"parse\":%d,\"df\":%zu,\"dr\":%zu,\"bytes\":\"",
             id.c_str(), unsigned(err), E.eh.calls, real_id, encoding, lookup_miss, int(bad),
             E.code.unresolved_fixup_count() - fix0, E.code.reloc_entries().size() - rel0);
    out += head;
    if (off1 > off0) out += hexstr(a.buffer_data() + off0, off1 - off0);
    out += "\"";
    if (off1 < off0) out += ",\"shrunk\":1";
    out += "}\n";
    (void)nl0;
    if (out.size() > (1 << 20)) { fwrite(out.data(), 1, out.size(), stdout); out.clear(); }
  }
  fwrite(out.data(), 1, out.size(), stdout);
  return 0;
}
