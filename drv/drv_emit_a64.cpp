// AArch64 emit driver (C02): reads case lines, builds operands with the public API, calls a64::Assembler::emit and
// reports what happened. No oracle logic here; oracles live in vlib/props/c02.py.
//
// case line: <id> <inst-name[.cc]|#instid> <nops> <op>...
//   G:w|x:<id>                         a64::Gp (id 31 = SP, 63 = ZR, anything else taken literally)
//   V:b|h|s|d|q:<id>[:<et>[:<idx>]]    a64::Vec; et in -,b,h,s,d,b4,h2 ; idx = element index
//   I:<int64>  U:<uint64>  F:<double>  immediates
//   S:<shiftop>:<amount>               Imm(arm::Shift(op, amount)); shiftop = lsl,lsr,asr,ror,msl,uxtb..sxtx
//   M:<baseid>:<mode o|pre|post>:<off>[:w] a64::Mem [x<baseid>, #off] (fixed / pre-index / post-index; `w`: W register as base)
//   MX:<baseid>:<w|x>:<idxid>:<shiftop|->:<amount>:<mode>[:<off>]   register index (with <off>: index AND offset)
//   MLX:<off>:<idxid>                  Mem(label, off) with an index register set
// Every G / V / S / M / MX operand is built twice: with the raw constructors (make_r32, set_element_type, Mem(base, off) +
// make_pre_index ...) and with the public builders of a64operand.h (x(id).w(), v(id).h4(), v(id).s(i), ptr_pre(), lsl(n) ...);
// the record says how many twins differ (`bld`) and the emit() call gets the builder-made operand.
// Options: --arm 1 arms the one-shot state (comment / options / extra register) before every call and reports what is left
// after it (`os`); --handler throw installs a throwing error handler (`threw`); --probe 1 emits `add x1, x2, x3` after every
// failed call and compares it with the architectural word (`probe`), then rewinds; --emitter builder pushes every case
// through a fresh a64::Builder (probe + case) and finalizes it.
//   ML:<off>                           Mem(label bound at the current position, off)
//   MA:<disp>                          Mem(absolute address = pc + disp)
//   L                                  label bound at the current position
//   A:<disp>                           Imm(absolute address of pc + disp)     (code base address is known)
//   AP:<disp>                          Imm((pc & ~4095) + disp)               (ADRP)
#include <asmjit/core.h>
#include <asmjit/a64.h>
#include <asmjit/arm/a64instdb_p.h>
#include <string.h>
#include "vcommon.h"
#include <iostream>
#include <sstream>
#include <fstream>

using namespace asmjit;

struct Thrown { Error err; };

struct CountingHandler : public ErrorHandler {
  int calls = 0;
  bool throwing = false;
  Error last = Error::kOk;
  void handle_error(Error err, const char*, BaseEmitter*) override { calls++; last = err; if (throwing) throw Thrown{err}; }
};

static std::vector<std::string> split(const std::string& s, char c) {
  std::vector<std::string> o; std::string cur;
  for (char ch : s) { if (ch == c) { o.push_back(cur); cur.clear(); } else cur += ch; }
  o.push_back(cur);
  return o;
}

static const uint64_t kBase = 0x40000000ull;

struct Env {
  CodeHolder code;
  a64::Assembler a;
  CountingHandler eh;
  int n = 0;
  void reinit() {
    code.reset(ResetPolicy::kHard);
    code.init(Environment(Arch::kAArch64), kBase);
    code.set_error_handler(&eh);
    code.attach(&a);
    // keep the first page free so that negative displacements stay inside the address space and ADRP page maths is easy
    for (int i = 0; i < 16; i++) a.nop();
    n = 0;
  }
};

static bool shift_op_of(const std::string& s, arm::ShiftOp* out) {
  static const char* names[] = { "lsl", "lsr", "asr", "ror", "rrx", "msl", "uxtb", "uxth", "uxtw", "uxtx", "sxtb", "sxth", "sxtw", "sxtx" };
  for (unsigned i = 0; i < 14; i++) if (s == names[i]) { *out = arm::ShiftOp(i); return true; }
  return false;
}

static a64::VecElementType et_of(const std::string& s) {
  if (s == "b") return a64::VecElementType::kB;
  if (s == "h") return a64::VecElementType::kH;
  if (s == "s") return a64::VecElementType::kS;
  if (s == "d") return a64::VecElementType::kD;
  if (s == "b4") return a64::VecElementType::kB4;
  if (s == "h2") return a64::VecElementType::kH2;
  return a64::VecElementType::kNone;
}

// -- twins through the public builders of a64operand.h ---------------------------------------------------------------
static bool shift_builder(arm::ShiftOp sop, uint32_t n, arm::Shift* out) {
  switch (sop) {
    case arm::ShiftOp::kLSL: *out = a64::lsl(n); return true;
    case arm::ShiftOp::kLSR: *out = a64::lsr(n); return true;
    case arm::ShiftOp::kASR: *out = a64::asr(n); return true;
    case arm::ShiftOp::kROR: *out = a64::ror(n); return true;
    case arm::ShiftOp::kMSL: *out = a64::msl(n); return true;
    case arm::ShiftOp::kUXTB: *out = a64::uxtb(n); return true;
    case arm::ShiftOp::kUXTH: *out = a64::uxth(n); return true;
    case arm::ShiftOp::kUXTW: *out = a64::uxtw(n); return true;
    case arm::ShiftOp::kUXTX: *out = a64::uxtx(n); return true;
    case arm::ShiftOp::kSXTB: *out = a64::sxtb(n); return true;
    case arm::ShiftOp::kSXTH: *out = a64::sxth(n); return true;
    case arm::ShiftOp::kSXTW: *out = a64::sxtw(n); return true;
    case arm::ShiftOp::kSXTX: *out = a64::sxtx(n); return true;
    default: return false;
  }
}

// -> true when a builder exists for this (register view, element type[, index]) combination
static bool vec_builder(char t, uint32_t rid, const std::string& et, bool has_idx, uint32_t idx, a64::Vec* out, const char** which) {
  a64::Vec base = a64::v(rid);
  if (has_idx) {
    if (t != 'q') return false;
    if (et == "b") { *out = base.b(idx); *which = "Vec::b(i)"; return true; }
    if (et == "h") { *out = base.h(idx); *which = "Vec::h(i)"; return true; }
    if (et == "s") { *out = base.s(idx); *which = "Vec::s(i)"; return true; }
    if (et == "d") { *out = base.d(idx); *which = "Vec::d(i)"; return true; }
    if (et == "h2") { *out = base.h2(idx); *which = "Vec::h2(i)"; return true; }
    if (et == "b4") { *out = base.b4(idx); *which = "Vec::b4(i)"; return true; }
    return false;
  }
  if (et.empty() || et == "-") {
    switch (t) {
      case 'b': *out = a64::d(rid).b(); *which = "Vec::b()"; return true;
      case 'h': *out = a64::q(rid).h(); *which = "Vec::h()"; return true;
      case 's': *out = a64::b(rid).s(); *which = "Vec::s()"; return true;
      case 'd': *out = a64::s(rid).d(); *which = "Vec::d()"; return true;
      default: *out = a64::h(rid).q(); *which = "Vec::q()"; return true;
    }
  }
  if (t == 'd' && et == "b") { *out = base.b8(); *which = "Vec::b8()"; return true; }
  if (t == 'q' && et == "b") { *out = base.b16(); *which = "Vec::b16()"; return true; }
  if (t == 's' && et == "h") { *out = base.h2(); *which = "Vec::h2()"; return true; }
  if (t == 'd' && et == "h") { *out = base.h4(); *which = "Vec::h4()"; return true; }
  if (t == 'q' && et == "h") { *out = base.h8(); *which = "Vec::h8()"; return true; }
  if (t == 'd' && et == "s") { *out = base.s2(); *which = "Vec::s2()"; return true; }
  if (t == 'q' && et == "s") { *out = base.s4(); *which = "Vec::s4()"; return true; }
  if (t == 'q' && et == "d") { *out = base.d2(); *which = "Vec::d2()"; return true; }
  return false;
}

static const uint32_t kProbeWord = 0x8B030041u;   // add x1, x2, x3

int main(int argc, char** argv) {
  Args args(argc, argv);
  std::string in = args.str("cases", "-");
  const bool arm_state = args.u64("arm", 0) != 0;
  const bool throwing = args.str("handler", "return") == "throw";
  const bool probe_after_failure = args.u64("probe", 0) != 0;
  const bool via_builder = args.str("emitter", "assembler") == "builder";

  // name -> ids (AArch64 uses one mnemonic for a GP and a SIMD id)
  std::map<std::string, std::vector<uint32_t>> by_name;
  for (uint32_t id = 1; id < a64::Inst::_kIdCount; id++) {
    String s;
    InstAPI::inst_id_to_string(Arch::kAArch64, id, InstStringifyOptions::kNone, s);
    by_name[std::string(s.data(), s.size())].push_back(id);
  }

  if (args.has("names") && args.u64("names", 1) == 2) {
    // one line per name: <name> <id>:<encoding class>... api=<api-id>
    for (auto& kv : by_name) {
      printf("%s", kv.first.c_str());
      for (uint32_t x : kv.second) printf(" %u:%u", x, unsigned(a64::InstDB::_inst_info_table[x]._encoding));
      printf(" api=%u\n", InstAPI::string_to_inst_id(Arch::kAArch64, kv.first.c_str(), kv.first.size()));
    }
    printf("#count %u\n", unsigned(a64::Inst::_kIdCount));
    return 0;
  }
  if (args.has("names")) {
    // one line per name: <name> <id>... <api-id>
    for (auto& kv : by_name) {
      printf("%s", kv.first.c_str());
      for (uint32_t x : kv.second) printf(" %u", x);
      printf(" api=%u\n", InstAPI::string_to_inst_id(Arch::kAArch64, kv.first.c_str(), kv.first.size()));
    }
    return 0;
  }

  Env E;
  E.eh.throwing = throwing;
  E.reinit();

  std::istream* is = &std::cin;
  std::ifstream f;
  if (in != "-") { f.open(in); is = &f; }
  std::string line, out;
  out.reserve(1 << 20);
  while (std::getline(*is, line)) {
    if (line.empty()) continue;
    std::istringstream ss(line);
    std::string id, name; int nops = 0;
    ss >> id >> name >> nops;
    if (++E.n > 2000) E.reinit();
    a64::Assembler& a = E.a;

    Operand ops[6];
    int bld_n = 0, bld_bad = 0;
    std::string bld_which;
    auto twin = [&](int i, const Operand_& built, const char* which) {
      bld_n++;
      if (memcmp(&ops[i], &built, sizeof(Operand_)) != 0) { bld_bad++; if (bld_which.empty()) bld_which = which; }
      ops[i] = built;
    };
    bool bad = false, has_vec = false;
    Label self_label;
    uint64_t pc = kBase + a.offset();
    for (int i = 0; i < nops && i < 6; i++) {
      std::string tok; ss >> tok;
      std::vector<std::string> p = split(tok, ':');
      const std::string& k = p[0];
      if (k == "G" && p.size() >= 3) {
        uint32_t rid = (uint32_t)strtoul(p[2].c_str(), nullptr, 0);
        ops[i] = p[1] == "w" ? a64::Gp::make_r32(rid) : a64::Gp::make_r64(rid);
        if (p[1] == "w") twin(i, (E.n & 1) ? a64::w(rid) : a64::x(rid).w(), (E.n & 1) ? "a64::w(id)" : "Gp::w()");
        else twin(i, (E.n & 1) ? a64::x(rid) : a64::w(rid).x(), (E.n & 1) ? "a64::x(id)" : "Gp::x()");
      }
      else if (k == "V" && p.size() >= 3) {
        has_vec = true;
        uint32_t rid = (uint32_t)strtoul(p[2].c_str(), nullptr, 0);
        a64::Vec v;
        char t = p[1][0];
        v = t == 'b' ? a64::Vec::make_v8(rid) : t == 'h' ? a64::Vec::make_v16(rid) : t == 's' ? a64::Vec::make_v32(rid) :
            t == 'd' ? a64::Vec::make_v64(rid) : a64::Vec::make_v128(rid);
        if (p.size() >= 4 && p[3] != "-") v.set_element_type(et_of(p[3]));
        if (p.size() >= 5 && p[4] != "-") v.set_element_index((uint32_t)strtoul(p[4].c_str(), nullptr, 0));
        ops[i] = v;
        {
          a64::Vec b; const char* which = "";
          bool has_idx = p.size() >= 5 && p[4] != "-";
          uint32_t idx = has_idx ? (uint32_t)strtoul(p[4].c_str(), nullptr, 0) : 0;
          if (vec_builder(t, rid, p.size() >= 4 ? p[3] : std::string(), has_idx, idx, &b, &which)) twin(i, b, which);
        }
      }
      else if (k == "I" && p.size() >= 2) ops[i] = Imm((int64_t)strtoll(p[1].c_str(), nullptr, 0));
      else if (k == "U" && p.size() >= 2) ops[i] = Imm((uint64_t)strtoull(p[1].c_str(), nullptr, 0));
      else if (k == "F" && p.size() >= 2) ops[i] = Imm(strtod(p[1].c_str(), nullptr));
      else if (k == "S" && p.size() >= 3) {
        arm::ShiftOp sop;
        if (!shift_op_of(p[1], &sop)) bad = true;
        else {
          uint32_t n = (uint32_t)strtoul(p[2].c_str(), nullptr, 0);
          ops[i] = Imm(arm::Shift(sop, n));
          arm::Shift sb;
          if (shift_builder(sop, n, &sb)) twin(i, Imm(sb), "a64::<shift>(n)");
        }
      }
      else if (k == "M" && p.size() >= 4) {
        uint32_t bid = (uint32_t)strtoul(p[1].c_str(), nullptr, 0);
        int32_t off = (int32_t)strtoll(p[3].c_str(), nullptr, 0);
        bool wbase = p.size() >= 5 && p[4] == "w";
        a64::Gp breg = wbase ? a64::Gp::make_r32(bid) : a64::Gp::make_r64(bid);
        a64::Mem m(breg, off);
        if (p[2] == "pre") m.make_pre_index();
        else if (p[2] == "post") m.make_post_index();
        ops[i] = m;
        if (p[2] == "pre") twin(i, (E.n & 1) ? a64::ptr_pre(breg, off) : a64::ptr(breg).pre(off), (E.n & 1) ? "a64::ptr_pre(base, off)" : "Mem::pre(off)");
        else if (p[2] == "post") twin(i, (E.n & 1) ? a64::ptr_post(breg, off) : a64::ptr(breg).post(off), (E.n & 1) ? "a64::ptr_post(base, off)" : "Mem::post(off)");
        else twin(i, a64::ptr(breg, off), "a64::ptr(base, off)");
      }
      else if (k == "MX" && p.size() >= 7) {
        uint32_t bid = (uint32_t)strtoul(p[1].c_str(), nullptr, 0);
        uint32_t iid = (uint32_t)strtoul(p[3].c_str(), nullptr, 0);
        a64::Gp idx = p[2] == "w" ? a64::Gp::make_r32(iid) : a64::Gp::make_r64(iid);
        a64::Mem m;
        if (p[4] == "-") m = a64::Mem(a64::Gp::make_r64(bid), idx);
        else {
          arm::ShiftOp sop;
          if (!shift_op_of(p[4], &sop)) bad = true;
          else m = a64::Mem(a64::Gp::make_r64(bid), idx, arm::Shift(sop, (uint32_t)strtoul(p[5].c_str(), nullptr, 0)));
        }
        if (p[6] == "pre") m.make_pre_index();
        else if (p[6] == "post") m.make_post_index();
        if (p.size() >= 8) m.set_offset((int64_t)strtoll(p[7].c_str(), nullptr, 0));
        ops[i] = m;
        if (!bad && p.size() < 8) {
          a64::Gp breg = a64::Gp::make_r64(bid);
          arm::ShiftOp sop; arm::Shift sb;
          if (p[4] == "-") {
            if (p[6] == "pre") twin(i, a64::ptr_pre(breg, idx), "a64::ptr_pre(base, index)");
            else if (p[6] == "post") twin(i, a64::ptr_post(breg, idx), "a64::ptr_post(base, index)");
            else twin(i, a64::ptr(breg, idx), "a64::ptr(base, index)");
          }
          else if (p[6] == "o" && shift_op_of(p[4], &sop) && shift_builder(sop, (uint32_t)strtoul(p[5].c_str(), nullptr, 0), &sb))
            twin(i, a64::ptr(breg, idx, sb), "a64::ptr(base, index, shift)");
        }
      }
      else if (k == "MLX" && p.size() >= 3) {
        if (!self_label.is_valid()) { self_label = a.new_label(); a.bind(self_label); }
        a64::Mem m(self_label, (int32_t)strtoll(p[1].c_str(), nullptr, 0));
        m.set_index(a64::Gp::make_r64((uint32_t)strtoul(p[2].c_str(), nullptr, 0)));
        ops[i] = m;
      }
      else if (k == "ML" && p.size() >= 2) {
        if (!self_label.is_valid()) { self_label = a.new_label(); a.bind(self_label); }
        ops[i] = a64::Mem(self_label, (int32_t)strtoll(p[1].c_str(), nullptr, 0));
      }
      else if (k == "MA" && p.size() >= 2) {
        ops[i] = a64::Mem(uint64_t(pc + (uint64_t)strtoll(p[1].c_str(), nullptr, 0)));
      }
      else if (k == "L") {
        if (!self_label.is_valid()) { self_label = a.new_label(); a.bind(self_label); }
        ops[i] = self_label;
      }
      else if (k == "A" && p.size() >= 2) ops[i] = Imm(uint64_t(pc + (uint64_t)strtoll(p[1].c_str(), nullptr, 0)));
      else if (k == "AP" && p.size() >= 2) ops[i] = Imm(uint64_t((pc & ~uint64_t(4095)) + (uint64_t)strtoll(p[1].c_str(), nullptr, 0)));
      else bad = true;
    }

    // instruction id: by name through the public API; `_v` id when operands are vectors.
    uint32_t cc = 0;
    std::string base = name;
    size_t dot = name.find('.');
    if (dot != std::string::npos) { base = name.substr(0, dot); cc = (uint32_t)strtoul(name.c_str() + dot + 1, nullptr, 0); }
    InstId inst_id = 0;
    int lookup_miss = 0;
    if (base[0] == '#') inst_id = (InstId)strtoul(base.c_str() + 1, nullptr, 0);
    else {
      // by name through the public API; the name table (built from inst_id_to_string) only serves to find the sibling id
      // (GP vs `_v`) that carries the same mnemonic - it is no fallback: a name the API does not find stays unknown.
      InstId api_id = InstAPI::string_to_inst_id(Arch::kAArch64, base.c_str(), base.size());
      inst_id = api_id;
      auto it = by_name.find(base);
      if (it != by_name.end()) {
        const std::vector<uint32_t>& ids = it->second;
        bool found = false;
        for (uint32_t x : ids) if (x == api_id) found = true;
        if (!found) lookup_miss = 1;
        else if (ids.size() > 1) inst_id = has_vec ? ids.back() : ids.front();
      }
    }
    uint32_t real_id = inst_id;
    uint32_t encoding = real_id < a64::Inst::_kIdCount ? a64::InstDB::_inst_info_table[real_id]._encoding : 0;
    if (cc) inst_id = BaseInst::compose_arm_inst_id(inst_id, arm::CondCode(cc));

    if (via_builder) {
      // a fresh Builder: probe + case, then finalize. A refused case must make emit() or finalize() fail, the handler must
      // be called exactly once, and the text section must hold the probe only.
      CodeHolder code;
      CountingHandler eh;
      code.init(Environment(Arch::kAArch64), kBase);
      code.set_error_handler(&eh);
      a64::Builder cb(&code);
      Error e0 = cb.add(a64::x1, a64::x2, a64::x3);
      Error e1 = Error::kOk, e2 = Error::kOk;
      // (labels of the case line belong to the shared holder: such lines are not sent here)
      if (bad) e1 = Error::kInvalidArgument;
      else if (real_id == 0) e1 = Error::kInvalidInstruction;
      else e1 = cb.emit_op_array(inst_id, ops, (size_t)nops);
      int h_emit = eh.calls;
      e2 = cb.finalize();
      Section* text = code.text_section();
      size_t sz = text->buffer_size();
      uint32_t w0 = 0;
      if (sz >= 4) memcpy(&w0, text->data(), 4);
      char head[256];
      snprintf(head, sizeof head, "{\"id\":%s,\"err\":%u,\"ferr\":%u,\"h\":%d,\"hemit\":%d,\"inst\":%u,\"enc\":%u,\"parse\":%d,\"probe\":%d,\"size\":%zu,\"e0\":%u}\n",
               id.c_str(), unsigned(e1), unsigned(e2), eh.calls, h_emit, real_id, encoding, int(bad), int(sz >= 4 && w0 == kProbeWord ? 0 : 1), sz, unsigned(e0));
      out += head;
      if (out.size() > (1 << 20)) { fwrite(out.data(), 1, out.size(), stdout); out.clear(); }
      continue;
    }

    if (arm_state) {
      a.set_inline_comment("vc");
      if (E.n % 3 == 1) a.add_inst_options(InstOptions::kUnfollow);
      if (E.n % 3 == 2) a.set_extra_reg(a64::x5);
    }
    size_t off0 = a.offset();
    size_t nl0 = E.code.label_count();
    size_t fix0 = E.code.unresolved_fixup_count();
    size_t rel0 = E.code.reloc_entries().size();
    E.eh.calls = 0; E.eh.last = Error::kOk;
    Error err = Error::kOk;
    int threw = 0;
    if (bad) err = Error::kInvalidArgument;
    else if (real_id == 0) err = Error::kInvalidInstruction;
    else {
      try { err = a.emit_op_array(inst_id, ops, (size_t)nops); }
      catch (const Thrown& t) { threw = 1; err = t.err; }
    }
    size_t off1 = a.offset();
    int oneshot = -1;
    if (arm_state && !bad && real_id != 0) {
      oneshot = (a.inst_options() != InstOptions::kNone ? 1 : 0) | (a.has_extra_reg() ? 2 : 0) | (a.inline_comment() != nullptr ? 4 : 0);
      a.reset_inst_options(); a.reset_extra_reg(); a.reset_inline_comment();
    }
    size_t dl = E.code.label_count() - nl0, df = E.code.unresolved_fixup_count() - fix0, dr = E.code.reloc_entries().size() - rel0;
    int probe = -1;
    if (probe_after_failure && err != Error::kOk && !bad && real_id != 0) {
      // the emitter must produce exactly what a fresh one would
      int hc = E.eh.calls;
      size_t po = a.offset();
      Error pe = Error::kOk;
      try { pe = a.add(a64::x1, a64::x2, a64::x3); } catch (const Thrown& t) { pe = t.err; }
      uint32_t w = 0;
      if (a.offset() == po + 4) memcpy(&w, a.buffer_data() + po, 4);
      probe = (pe == Error::kOk && po == off1 && a.offset() == po + 4 && w == kProbeWord && E.eh.calls == hc) ? 0 : 1;
      a.set_offset(po);
    }

    char head[320];
    snprintf(head, sizeof head, "{\"id\":%s,\"err\":%u,\"h\":%d,\"inst\":%u,\"enc\":%u,\"miss\":%d,\"parse\":%d,\"df\":%zu,\"dr\":%zu,\"dl\":%zu,\"os\":%d,\"threw\":%d,\"probe\":%d,\"bld\":%d,\"bldn\":%d,\"bldw\":\"%s\",\"bytes\":\"",
             id.c_str(), unsigned(err), E.eh.calls, real_id, encoding, lookup_miss, int(bad), df, dr, dl, oneshot, threw, probe,
             bld_bad, bld_n, bld_which.c_str());
    out += head;
    if (off1 > off0) out += hexstr(a.buffer_data() + off0, off1 - off0);
    out += "\"";
    if (off1 < off0) out += ",\"shrunk\":1";
    out += "}\n";
    if (out.size() > (1 << 20)) { fwrite(out.data(), 1, out.size(), stdout); out.clear(); }
  }
  fwrite(out.data(), 1, out.size(), stdout);
  return 0;
}
