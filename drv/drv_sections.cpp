// C10 driver: random section tables -> flatten / code_size / relocate_to_base / copy_flattened_data / copy_section_data
// (and JitRuntime::add) observed by an independent oracle. Harness code; asmjit is only called through its public API.
//
// One "table" = one CodeHolder with 1..40 sections. The oracle never predicts the exact offsets chosen by
// flatten(); it only demands what property C10 states:
//   * every non-empty section's offset is a multiple of its alignment, sections with a smaller order end before
//     sections with a larger order start, no two [offset, offset+real_size) intersect, code_size() == end of the
//     last section;
//   * copying writes the section bytes (known from the driver's own shadow of what it emitted) at their offsets,
//     padding is zero when the flag asks, nothing is written outside [dst, dst+dst_size) (canaries + ASan red
//     zones), a destination that cannot hold the section bytes is refused, a destination of code_size() or more
//     is accepted;
//   * code_size() before relocate_to_base() is never smaller than after it.
// Later additions (all drawn from side streams, the tables of earlier rounds are unchanged): section flags and names are
// attributes that must be recorded and must not influence anything; `.text` may have a virtual size of its own;
// sections_by_order() is sorted by (order, id) and offsets do not decrease along it; with kPadSectionBuffer every
// non-section byte of the image is zero (also in JitRuntime memory, which is dirtied beforehand); the image is copied
// before any relocation as well; relocate_to_base() runs without a summary in a quarter of the tables; half of the
// tables keep their null buffers; the span JitRuntime::add keeps must cover the image and survive a neighbour.
#include <asmjit/x86.h>
#include <asmjit/a64.h>
#include "vcommon.h"
#include <algorithm>
#include <memory>
#include <numeric>
#include <unordered_set>

#if defined(__SANITIZE_ADDRESS__)
#include <sanitizer/asan_interface.h>
#define V_POISON(p, n) ASAN_POISON_MEMORY_REGION(p, n)
#define V_UNPOISON(p, n) ASAN_UNPOISON_MEMORY_REGION(p, n)
#else
#define V_POISON(p, n) ((void)0)
#define V_UNPOISON(p, n) ((void)0)
#endif

using namespace asmjit;
typedef unsigned __int128 u128;
typedef unsigned long long ull;

// ---------------------------------------------------------------------------------------------------------
// Results
// ---------------------------------------------------------------------------------------------------------

struct Violation { std::string key, what; uint64_t table; uint64_t count; };
static std::vector<Violation> g_viol;
static std::map<std::string, size_t> g_viol_ix;
static uint64_t g_table = 0;         // index of the table being processed (also printed when ASan kills us)
static std::string g_table_desc;
static bool g_poison = true;
static bool g_verbose = false;
static bool a_trace_fail = false;

static void viol(const std::string& key, const std::string& what) {
  auto it = g_viol_ix.find(key);
  if (it != g_viol_ix.end()) { g_viol[it->second].count++; return; }
  g_viol_ix[key] = g_viol.size();
  g_viol.push_back(Violation{key, what + " | table " + std::to_string(g_table) + ": " + g_table_desc, g_table, 1});
}

[[noreturn]] static void harness_fail(const std::string& msg) {
  fprintf(stderr, "HARNESS-FAIL table=%llu: %s\n", (ull)g_table, msg.c_str());
  exit(3);
}

// Called by the sanitizer runtime when it kills the process (possibly after static destructors ran: plain buffers only).
static char g_death_desc[900];
static bool g_finished = false;
static void set_desc(const std::string& d) { g_table_desc = d; snprintf(g_death_desc, sizeof g_death_desc, "%s", d.c_str()); }
static void on_asan_death() { if (!g_finished) fprintf(stderr, "@asan-death table=%llu desc=%s\n", (ull)g_table, g_death_desc); }

enum SizeClass { SC_ZERO, SC_BYTES_M1, SC_BYTES, SC_REQ_M1, SC_REQ, SC_REQ_PK, SC_CODESIZE, SC_COUNT };
static const char* kSizeClassNames[] = { "zero", "section_bytes-1", "section_bytes", "required-1", "required", "required+k", "code_size()" };

struct Counters {
  uint64_t tables = 0, sections = 0, jit_tables = 0;
  uint64_t arch[3] {};
  uint64_t kinds[16] {};
  uint64_t names_refused = 0, aligns_refused = 0, names_checked = 0, names_not_terminated = 0;
  uint64_t flatten_ok = 0, flatten_refused_overflow = 0, overflow_code_size_not_max = 0;
  uint64_t ref_layout_equal = 0, ref_layout_differs = 0, est0_equal_ref = 0, est0_differs_ref = 0, est0_below_final_code_size = 0;
  uint64_t empty_section_unaligned = 0, uncovered_gap_tables = 0;
  uint64_t with_addrtab = 0, addrtab_not_last = 0, addrtab_shrunk = 0, addrtab_slots_checked = 0, call_sites_rel = 0, call_sites_tab = 0;
  uint64_t relocate_failed = 0, copies_skipped_big = 0;
  uint64_t flat[SC_COUNT][4] {}, flat_accepted[SC_COUNT][4] {}, flat_refused[SC_COUNT][4] {};
  uint64_t sect[3][4] {};
  uint64_t undersized_accepted_impl_defined = 0, undersized_refused_impl_defined = 0;
  uint64_t bytes_section = 0, bytes_padding = 0, bytes_beyond = 0, bytes_slot = 0, bytes_jit = 0;
  uint64_t canary_checks = 0, null_buffer_sections = 0;
  uint64_t max_sections = 0, max_image = 0;
  // round 11 dimensions
  uint64_t text_virt_only = 0, text_virt_larger = 0, text_virt_smaller = 0, text_overflow = 0;
  uint64_t flags_checked = 0, flags_nonzero = 0, flag_combo[16] {};
  uint64_t by_order_sequences = 0, equal_order_pairs = 0, equal_order_nonempty_pairs = 0;
  uint64_t bytes_align_pad = 0, align_pad_tables = 0;
  uint64_t pre_reloc_probes = 0, pre_reloc_tables_with_sites = 0, reloc_null_summary = 0, reloc_null_summary_shrunk = 0;
  uint64_t null_buffers_left = 0, null_buffer_tables_left = 0;
  uint64_t jit_span_queried = 0, jit_predirtied = 0, jit_predirtied_reused = 0, jit_small_allocs = 0, jit_align_pad_bytes = 0, jit_shrunk_spans = 0;
  uint64_t names_looked_up = 0, names_duplicate = 0, names_absent_refused = 0;
  uint64_t reflatten_identical = 0, reflatten_empty_moved = 0, reflatten_differs = 0;
};
static Counters C;
static std::unordered_set<uint64_t> g_distinct_all, g_distinct_nontrivial;
static std::vector<std::string> g_samples;

// ---------------------------------------------------------------------------------------------------------
// Table specification (pure data, generated from the seed; nothing of asmjit in here)
// ---------------------------------------------------------------------------------------------------------

enum { A_X64 = 0, A_X86 = 1, A_A64 = 2 };
enum Kind { K_EMPTY = 0, K_DATA, K_CODE, K_VIRT, K_DATA_VIRT, K_DATA_SMALLVIRT, K_RAW, K_ADDRTAB, K_COUNT };
static const char* kKindNames[] = { "empty", "data", "code", "virtual", "data+virtual", "data>virtual", "raw", "addrtab" };
enum ItemType { IT_EMBED, IT_NOP, IT_RET, IT_MOV, IT_TRAP, IT_CALL, IT_JMP };

struct Item { int type = IT_NOP; std::vector<uint8_t> bytes; uint32_t imm = 0; int target = 0; };
struct SecSpec {
  bool is_text = false;
  std::string name; bool strlen_size = true;
  uint32_t align = 0; int32_t order = 0; int kind = K_EMPTY;
  std::vector<Item> items; uint64_t vsize = 0; bool set_vsize = false;
  bool bad_name = false, bad_align = false;
  uint32_t flags = 0;          // SectionFlags given to new_section (must not influence layout or bytes)
};
enum { OP_NEW, OP_FILL, OP_ENSURE_ADDRTAB };
struct Step { int op; int idx; };
struct AbsTarget { bool is_far; int64_t delta; uint64_t abs_; };
struct TableSpec {
  int arch = A_X64;
  std::vector<SecSpec> secs;   // [0] is .text
  std::vector<Step> steps;
  std::vector<AbsTarget> targets;
  uint64_t base = 0x10000;
  bool jit = false;
};

static uint32_t pick_alignment(Rng& r, int regime, bool& bad) {
  bad = false;
  if (r.chance(6, 100)) {  // must be refused: not a power of two
    static const uint32_t kBad[] = { 3, 5, 6, 7, 12, 24, 48, 96, 100, 1000, 4095, 4097, 65535, 65537, 0x30000, 0x7FFFFFFF, 0xFFFFFFFFu, 0x80000001u };
    bad = true;
    return r.chance(1, 3) ? uint32_t(r.range(3, 70000)) | 3u : kBad[r.below(sizeof(kBad) / sizeof(kBad[0]))];
  }
  uint32_t max_log = regime == 0 ? 6 : regime == 1 ? 12 : 16;
  uint32_t k = uint32_t(r.below(max_log + 2));  // 0 -> alignment 0 ("none"), else 1 << (k - 1)
  if (regime == 2 && r.chance(1, 3)) k = uint32_t(r.range(13, 17));
  return k == 0 ? 0u : 1u << (k - 1);
}

static int32_t pick_order(Rng& r, int regime, int32_t common) {
  static const int32_t kMix[] = { INT32_MIN, INT32_MIN + 1, -1000, -1, 0, 0, 1, 1000, INT32_MAX - 1, INT32_MAX, INT32_MAX };
  switch (regime) {
    case 0: return common;
    case 1: return int32_t(r.below(3)) - 1;
    case 2: return kMix[r.below(sizeof(kMix) / sizeof(kMix[0]))];
    default: return int32_t(uint32_t(r.next()));
  }
}

static size_t pick_size(Rng& r, int regime) {
  if (regime == 0) return size_t(r.range(1, 64));
  if (regime == 1) return size_t(r.range(1, 600));
  return r.chance(1, 4) ? size_t(r.range(7000, 20000)) : size_t(r.range(1, 3000));
}

static void gen_items(Rng& r, SecSpec& s, int arch, int kind, int size_regime, bool calls, size_t ntargets) {
  if (kind == K_DATA || kind == K_DATA_VIRT || kind == K_DATA_SMALLVIRT || kind == K_RAW) {
    size_t chunks = kind == K_RAW ? 1 : size_t(r.range(1, 3));
    for (size_t c = 0; c < chunks; c++) {
      Item it; it.type = IT_EMBED;
      size_t n = pick_size(r, size_regime);
      it.bytes.resize(n);
      for (size_t i = 0; i < n; i++) it.bytes[i] = uint8_t(r.next() >> 13);
      s.items.push_back(std::move(it));
    }
  }
  else if (kind == K_CODE) {
    size_t n = size_regime == 0 ? size_t(r.range(1, 12)) : size_regime == 1 ? size_t(r.range(1, 80)) : size_t(r.range(1, 1500));
    for (size_t i = 0; i < n; i++) {
      Item it;
      uint64_t w = r.below(100);
      if (calls && arch != A_A64 && ntargets && w < 22) { it.type = r.chance(2, 3) ? IT_CALL : IT_JMP; it.target = int(r.below(ntargets)); }
      else if (w < 40) it.type = IT_NOP;
      else if (w < 50) it.type = IT_RET;
      else if (w < 75) { it.type = IT_MOV; it.imm = uint32_t(r.next()); }
      else if (w < 82) it.type = IT_TRAP;
      else { it.type = IT_EMBED; size_t m = size_t(r.range(1, 24)); it.bytes.resize(m); for (auto& b : it.bytes) b = uint8_t(r.next() >> 9); }
      s.items.push_back(std::move(it));
    }
  }
}

struct Item;
static void expected_encoding(int arch, const Item& it, std::vector<uint8_t>& out);

static TableSpec gen_table(Rng& r, bool allow_jit) {
  TableSpec t;
  // Side stream for the dimensions added later (section flags, .text with a virtual size): the main stream and with it
  // every table of earlier rounds stays what it was.
  Rng q(r.s ^ 0x5EC7105F1A65ull);
  uint64_t a = r.below(100);
  t.arch = a < 60 ? A_X64 : a < 75 ? A_X86 : A_A64;
  uint64_t w = r.below(100);
  size_t nsec = w < 25 ? size_t(r.range(1, 3)) : w < 65 ? size_t(r.range(2, 8)) : w < 90 ? size_t(r.range(5, 20)) : size_t(r.range(20, 40));
  int align_regime = int(r.below(100)); align_regime = align_regime < 55 ? 0 : align_regime < 85 ? 1 : 2;
  int order_regime = int(r.below(4));
  int size_regime = int(r.below(100)); size_regime = size_regime < 50 ? 0 : size_regime < 87 ? 1 : 2;
  int32_t common_order = r.chance(1, 8) ? INT32_MAX : r.chance(1, 8) ? INT32_MIN : int32_t(r.below(5)) - 2;
  bool calls = t.arch != A_A64 && r.chance(55, 100);
  bool ensure_tab = r.chance(t.arch == A_X64 ? 10 : 20, 100);
  bool overflow_table = r.chance(2, 100);
  if ((calls && t.arch == A_X64) || ensure_tab) { if (nsec > 1) nsec--; }

  // Targets of absolute call/jmp: near ones are reachable by rel32 from the image, far ones need an address-table slot.
  size_t nnear = size_t(r.below(3)), nfar = size_t(r.range(nnear ? 0 : 1, 3));
  for (size_t i = 0; i < nnear; i++) t.targets.push_back(AbsTarget{false, int64_t(r.below(1u << 30)) - int64_t(1u << 29), 0});
  for (size_t i = 0; i < nfar; i++) t.targets.push_back(AbsTarget{true, 0, 0});

  if (t.arch == A_X86) t.base = (r.range(0x10000, 0xE0000000ull)) & ~uint64_t(r.chance(9, 10) ? 0xFFF : 0);
  else t.base = (r.range(0x10000, 0x7FFF00000000ull)) & ~uint64_t(r.chance(9, 10) ? 0xFFF : 0);
  for (auto& tg : t.targets) {
    if (!tg.is_far) continue;
    if (t.arch == A_X86) tg.abs_ = uint32_t(r.next());
    else { tg.abs_ = r.next(); uint64_t d = tg.abs_ - t.base; if (int64_t(d) < (int64_t(1) << 33) && int64_t(d) > -(int64_t(1) << 33)) tg.abs_ ^= uint64_t(1) << 62; }
  }

  // .text
  {
    SecSpec s; s.is_text = true; s.name = ".text";
    uint64_t k = r.below(100);
    s.kind = k < 15 ? K_EMPTY : k < 75 ? K_CODE : K_DATA;
    gen_items(r, s, t.arch, s.kind, size_regime, calls, t.targets.size());
    // .text with a virtual size of its own (virtual-only, larger than the buffer, smaller than the buffer)
    if (q.chance(1, 4)) {
      size_t buf = 0;
      { std::vector<uint8_t> tmp; for (auto& it : s.items) expected_encoding(t.arch, it, tmp); buf = tmp.size(); }
      s.set_vsize = true;
      if (buf == 0) { s.kind = K_VIRT; s.vsize = size_regime == 0 ? q.range(1, 100) : size_regime == 1 ? q.range(1, 5000) : q.range(1, 200000); }
      else if (q.chance(2, 3)) { s.vsize = buf + q.range(1, size_regime == 0 ? 40 : 3000); if (s.kind == K_DATA) s.kind = K_DATA_VIRT; }
      else { s.vsize = q.below(buf); if (s.kind == K_DATA) s.kind = K_DATA_SMALLVIRT; }
    }
    t.secs.push_back(std::move(s));
  }
  bool have_huge = false;
  for (size_t i = 1; i < nsec; i++) {
    SecSpec s;
    // name: 0..35 valid, 36+ must be refused
    size_t len;
    uint64_t nw = r.below(100);
    if (nw < 5) { len = size_t(r.range(36, 64)); s.bad_name = true; }
    else if (nw < 12) len = 35;
    else if (nw < 17) len = 0;
    else if (nw < 22) len = 34;
    else len = size_t(r.range(1, 33));
    bool any_byte = r.chance(1, 4);
    for (size_t c = 0; c < len; c++) s.name += any_byte ? char(r.range(1, 255)) : char(r.range(0x21, 0x7e));
    s.strlen_size = r.chance(1, 2);
    s.align = pick_alignment(r, align_regime, s.bad_align);
    s.order = pick_order(r, order_regime, common_order);
    { uint64_t fw = q.below(100); s.flags = fw < 35 ? 0u : fw < 75 ? (1u << q.below(4)) : uint32_t(q.below(16)); }
    static const int kKindW[] = { K_EMPTY, K_EMPTY, K_EMPTY, K_DATA, K_DATA, K_DATA, K_DATA, K_CODE, K_CODE, K_CODE, K_VIRT, K_VIRT, K_VIRT,
                                  K_DATA_VIRT, K_DATA_VIRT, K_DATA_SMALLVIRT, K_RAW, K_RAW };
    s.kind = kKindW[r.below(sizeof(kKindW) / sizeof(kKindW[0]))];
    gen_items(r, s, t.arch, s.kind, size_regime, calls, t.targets.size());
    size_t buf = 0;
    for (auto& it : s.items) buf += it.bytes.size();
    if (s.kind == K_VIRT) {
      s.set_vsize = true;
      s.vsize = size_regime == 0 ? r.range(1, 100) : size_regime == 1 ? r.range(1, 5000) : r.range(1, 200000);
      if (!have_huge && r.chance(1, 60)) { s.vsize = r.range(200000, 1u << 20); have_huge = true; }
    }
    else if (s.kind == K_DATA_VIRT) { s.set_vsize = true; s.vsize = buf + r.range(1, size_regime == 0 ? 40 : 3000); }
    else if (s.kind == K_DATA_SMALLVIRT) { s.set_vsize = true; s.vsize = r.below(buf ? buf : 1); }
    else if (s.kind == K_EMPTY && r.chance(1, 6)) { s.set_vsize = true; s.vsize = 0; }
    t.secs.push_back(std::move(s));
  }
  if (overflow_table && t.secs.size() > 1) {
    static const uint64_t kHuge[] = { ~uint64_t(0), ~uint64_t(0) - 7, uint64_t(1) << 63, (uint64_t(1) << 63) + 5, ~uint64_t(0) - 65535, ~uint64_t(0) - 100000 };
    size_t n = size_t(r.range(1, 2));
    for (size_t k = 0; k < n; k++) {
      SecSpec& s = t.secs[size_t(r.range(1, t.secs.size() - 1))];
      s.kind = K_VIRT; s.items.clear(); s.set_vsize = true; s.vsize = kHuge[r.below(6)];
    }
  }
  // the overflowing virtual size may also be the one of .text (side stream; tables that never go to JitRuntime)
  if (!overflow_table && q.chance(1, 100)) {
    static const uint64_t kHugeT[] = { ~uint64_t(0), ~uint64_t(0) - 7, uint64_t(1) << 63, ~uint64_t(0) - 65535 };
    SecSpec& s = t.secs[0];
    s.kind = K_VIRT; s.items.clear(); s.set_vsize = true; s.vsize = kHugeT[q.below(4)];
    overflow_table = true;
  }

  // Steps: creation in index order, fills either right away or deferred; .addrtab appears wherever the first
  // absolute call is emitted or where ensure_address_table_section() is called.
  std::vector<int> deferred;
  bool text_first = r.chance(1, 2);
  if (text_first) t.steps.push_back(Step{OP_FILL, 0}); else deferred.push_back(0);
  size_t ensure_at = ensure_tab ? size_t(r.below(t.secs.size() + 1)) : SIZE_MAX;
  for (size_t i = 1; i < t.secs.size(); i++) {
    if (ensure_at == i) t.steps.push_back(Step{OP_ENSURE_ADDRTAB, 0});
    t.steps.push_back(Step{OP_NEW, int(i)});
    if (r.chance(1, 2)) t.steps.push_back(Step{OP_FILL, int(i)}); else deferred.push_back(int(i));
  }
  for (size_t i = deferred.size(); i > 1; i--) std::swap(deferred[i - 1], deferred[r.below(i)]);
  for (int d : deferred) t.steps.push_back(Step{OP_FILL, d});
  if (ensure_tab && ensure_at >= t.secs.size()) t.steps.push_back(Step{OP_ENSURE_ADDRTAB, 0});

  t.jit = allow_jit && t.arch == A_X64 && !overflow_table && r.chance(1, 3);
  return t;
}

// ---------------------------------------------------------------------------------------------------------
// Driver-side knowledge of the bytes it emits (independent of the section buffers)
// ---------------------------------------------------------------------------------------------------------

static void put32(std::vector<uint8_t>& v, uint32_t x) { for (int i = 0; i < 4; i++) v.push_back(uint8_t(x >> (8 * i))); }

static void expected_encoding(int arch, const Item& it, std::vector<uint8_t>& out) {
  if (it.type == IT_EMBED) { out.insert(out.end(), it.bytes.begin(), it.bytes.end()); return; }
  if (arch == A_A64) {
    switch (it.type) {
      case IT_NOP: put32(out, 0xD503201Fu); break;
      case IT_RET: put32(out, 0xD65F03C0u); break;
      case IT_MOV: put32(out, 0x52800000u | ((it.imm & 0xFFFFu) << 5)); break;   // movz w0, #imm16
      case IT_TRAP: put32(out, 0xD4200000u | ((it.imm & 0xFFFFu) << 5)); break;  // brk #imm16
      default: harness_fail("a64 item");
    }
    return;
  }
  switch (it.type) {
    case IT_NOP: out.push_back(0x90); break;
    case IT_RET: out.push_back(0xC3); break;
    case IT_MOV: out.push_back(0xB8); put32(out, it.imm); break;  // mov eax, imm32
    case IT_TRAP: out.push_back(0xCC); break;
    case IT_CALL: case IT_JMP:
      if (arch == A_X64) out.push_back(0x40);                     // REX placeholder reserved for the address-table patch
      out.push_back(it.type == IT_CALL ? 0xE8 : 0xE9); put32(out, 0);
      break;
    default: harness_fail("x86 item");
  }
}

// ---------------------------------------------------------------------------------------------------------
// Building the CodeHolder from a specification
// ---------------------------------------------------------------------------------------------------------

struct SecRT { Section* sec = nullptr; int spec = -1; int kind = K_EMPTY; std::vector<uint8_t> shadow; uint64_t vsize_set = 0; };
struct Site { uint32_t sec_id; size_t off; int len; bool is_call; uint64_t target; };

struct Built {
  CodeHolder code;
  x86::Assembler xa;
  a64::Assembler aa;
  std::map<uint32_t, SecRT> rt;   // by section id
  std::vector<Site> sites;
};

static void ck(Error e, const char* what) { if (e != Error::kOk) harness_fail(std::string(what) + " failed with error " + std::to_string(unsigned(e))); }

static uint64_t resolve_target(const TableSpec& t, int idx, uint64_t base_hint) {
  const AbsTarget& tg = t.targets[size_t(idx)];
  uint64_t v = tg.is_far ? tg.abs_ : base_hint + uint64_t(tg.delta);
  return t.arch == A_X86 ? uint64_t(uint32_t(v)) : v;
}

// A previous life of the holder: an unrelated multi-section image is built and flattened, then the holder is recycled
// (reinit, soft or hard reset). Nothing of it may show in the layout of the table that follows (the reference layout is
// computed from the table alone).
static uint64_t g_prelives[3];
static bool g_recycled = false;
static void prelife(const TableSpec& t, Built& B, const Environment& env, Rng& r) {
  static const uint8_t zeros[64] = { 0 };
  ck(B.code.init(env), "CodeHolder::init (previous life)");
  BaseAssembler* as = t.arch == A_A64 ? static_cast<BaseAssembler*>(&B.aa) : static_cast<BaseAssembler*>(&B.xa);
  ck(B.code.attach(as), "attach (previous life)");
  ck(as->embed(zeros, 4 * (1 + r.below(16))), "embed (previous life)");
  int ns = 1 + int(r.below(3));
  for (int i = 0; i < ns; i++) {
    char nm[16]; snprintf(nm, sizeof nm, ".old%d", i);
    Section* sec = nullptr;
    ck(B.code.new_section(Out(sec), nm, SIZE_MAX, SectionFlags::kNone, 1u << r.below(13), int32_t(r.below(3)) - 1), "new_section (previous life)");
    ck(as->section(sec), "section (previous life)");
    if (r.chance(3, 4)) ck(as->embed(zeros, 4 * (1 + r.below(16))), "embed (previous life)");
    if (r.chance(1, 3)) sec->set_virtual_size(size_t(64) << r.below(8));
  }
  if (r.chance(1, 4)) B.code.text_section()->set_virtual_size(size_t(256) << r.below(6));
  if (r.chance(1, 4)) (void)B.code.ensure_address_table_section();
  ck(B.code.flatten(), "flatten (previous life)");
  ck(B.code.detach(as), "detach (previous life)");
  uint64_t how = r.below(3);
  g_prelives[how]++;
  if (how == 0) ck(B.code.reinit(), "reinit");
  else B.code.reset(how == 1 ? ResetPolicy::kSoft : ResetPolicy::kHard);
}

static void build(const TableSpec& t, Built& B, const Environment& env, uint64_t base_hint) {
  if (!B.code.is_initialized()) ck(B.code.init(env), "CodeHolder::init");
  if (t.arch == A_A64) ck(B.code.attach(&B.aa), "attach"); else ck(B.code.attach(&B.xa), "attach");
  BaseAssembler* as = t.arch == A_A64 ? static_cast<BaseAssembler*>(&B.aa) : static_cast<BaseAssembler*>(&B.xa);
  { SecRT r; r.sec = B.code.text_section(); r.spec = 0; r.kind = t.secs[0].kind; B.rt[0] = std::move(r); }
  std::vector<Section*> by_spec(t.secs.size(), nullptr);
  by_spec[0] = B.code.text_section();

  for (const Step& st : t.steps) {
    if (st.op == OP_ENSURE_ADDRTAB) {
      if (!B.code.ensure_address_table_section()) harness_fail("ensure_address_table_section returned null");
      continue;
    }
    const SecSpec& s = t.secs[size_t(st.idx)];
    if (st.op == OP_NEW) {
      size_t before = B.code.section_count();
      Section* out = reinterpret_cast<Section*>(uintptr_t(1));
      Error err;
      if (s.strlen_size) err = B.code.new_section(Out(out), s.name.c_str(), SIZE_MAX, SectionFlags(s.flags), s.align, s.order);
      else {
        // exact-size heap copy without terminator: an over-read of the name is an ASan report
        std::unique_ptr<char[]> nm(new char[s.name.size() ? s.name.size() : 1]);
        memcpy(nm.get(), s.name.data(), s.name.size());
        err = B.code.new_section(Out(out), nm.get(), s.name.size(), SectionFlags(s.flags), s.align, s.order);
      }
      bool refused = err != Error::kOk;
      if (s.bad_name || s.bad_align) {
        if (s.bad_name) C.names_refused += refused; else C.aligns_refused += refused;
        if (!refused || B.code.section_count() != before || out != nullptr) {
          char b[200]; snprintf(b, sizeof b, "new_section(name_len=%zu, alignment=%u) -> err=%u out=%p sections %zu->%zu", s.name.size(), s.align, unsigned(err), (void*)out, before, B.code.section_count());
          viol(!s.bad_align ? "new-section:overlong-name-accepted" : !s.bad_name ? "new-section:non-power-of-2-alignment-accepted" : "new-section:invalid-section-accepted", b);
          if (!refused && out && B.code.section_count() == before + 1) { SecRT r; r.sec = out; r.spec = st.idx; r.kind = K_EMPTY; B.rt[out->section_id()] = std::move(r); }
        }
        continue;   // refused (or wrongly accepted: it stays empty and takes part in the layout)
      }
      if (refused || !out || B.code.section_count() != before + 1) {
        char b[200]; snprintf(b, sizeof b, "new_section(name_len=%zu, alignment=%u, order=%d) -> err=%u", s.name.size(), s.align, s.order, unsigned(err));
        viol("new-section:valid-section-refused", b);
        continue;
      }
      if (out->alignment() != (s.align ? s.align : 1u) || out->order() != s.order || out->section_id() != before || uint32_t(out->flags()) != s.flags) {
        char b[240]; snprintf(b, sizeof b, "asked align=%u order=%d flags=0x%x -> section reports align=%u order=%d flags=0x%x id=%u (expected id %zu)", s.align, s.order, s.flags, out->alignment(), out->order(), unsigned(out->flags()), out->section_id(), before);
        viol("new-section:attributes-not-recorded", b);
      }
      C.flags_checked++; C.flags_nonzero += s.flags != 0; C.flag_combo[s.flags & 15u]++;
      // the name is an attribute as well: stored as given (any bytes, 0..35 of them) and terminated
      C.names_checked++;
      if (memcmp(out->_name.str, s.name.data(), s.name.size()) != 0) {
        char b[160]; snprintf(b, sizeof b, "new_section(name of %zu bytes, %s): the section does not hold the name it was given", s.name.size(), s.strlen_size ? "size=SIZE_MAX" : "explicit size");
        viol("new-section:name-not-recorded", b);
      }
      else if (out->_name.str[s.name.size()] != '\0') {
        C.names_not_terminated++;
        char b[160]; snprintf(b, sizeof b, "new_section(name of %zu bytes, %s): the stored name is not terminated", s.name.size(), s.strlen_size ? "size=SIZE_MAX" : "explicit size");
        viol("section-name-unterminated", b);
      }
      by_spec[size_t(st.idx)] = out;
      SecRT r; r.sec = out; r.spec = st.idx; r.kind = s.kind; B.rt[out->section_id()] = std::move(r);
      continue;
    }
    // OP_FILL
    Section* sec = by_spec[size_t(st.idx)];
    if (!sec) continue;
    SecRT& R = B.rt[sec->section_id()];
    if (s.kind == K_RAW && !s.is_text) {
      // "appended by users": the buffer is filled without an emitter
      const std::vector<uint8_t>& d = s.items[0].bytes;
      ck(B.code.reserve_buffer(&sec->_buffer, d.size()), "reserve_buffer");
      memcpy(sec->_buffer._data, d.data(), d.size());
      sec->_buffer._size = d.size();
      R.shadow = d;
    }
    else {
      ck(as->section(sec), "section()");
      for (const Item& it : s.items) {
        size_t off = R.shadow.size();
        if (as->offset() != off) harness_fail("assembler offset differs from shadow size");
        expected_encoding(t.arch, it, R.shadow);
        switch (it.type) {
          case IT_EMBED: ck(as->embed(it.bytes.data(), it.bytes.size()), "embed"); break;
          case IT_NOP: ck(t.arch == A_A64 ? B.aa.nop() : B.xa.nop(), "nop"); break;
          case IT_RET: ck(t.arch == A_A64 ? B.aa.ret(a64::x30) : B.xa.ret(), "ret"); break;
          case IT_MOV: ck(t.arch == A_A64 ? B.aa.movz(a64::w0, it.imm & 0xFFFFu) : B.xa.mov(x86::eax, it.imm), "mov"); break;
          case IT_TRAP: ck(t.arch == A_A64 ? B.aa.brk(it.imm & 0xFFFFu) : B.xa.int3(), "trap"); break;
          case IT_CALL: case IT_JMP: {
            uint64_t tgt = resolve_target(t, it.target, base_hint);
            ck(it.type == IT_CALL ? B.xa.call(Imm(tgt)) : B.xa.jmp(Imm(tgt)), "call/jmp abs");
            B.sites.push_back(Site{sec->section_id(), off, t.arch == A_X64 ? 6 : 5, it.type == IT_CALL, tgt});
            break;
          }
        }
      }
    }
    if (s.set_vsize) { sec->set_virtual_size(s.vsize); R.vsize_set = s.vsize; }
    if (sec->buffer_size() != R.shadow.size() || (R.shadow.size() && memcmp(sec->data(), R.shadow.data(), R.shadow.size()) != 0)) {
      char b[160]; snprintf(b, sizeof b, "section #%u (%s): buffer_size=%zu, driver emitted %zu bytes", sec->section_id(), kKindNames[s.kind], sec->buffer_size(), R.shadow.size());
      viol("section-buffer:content-ne-emitted-bytes", b);
    }
  }
  // the address table, however it came to be
  for (Section* sec : B.code.sections()) {
    if (B.rt.count(sec->section_id())) continue;
    if (sec != B.code.address_table_section()) harness_fail("unknown section appeared");
    SecRT r; r.sec = sec; r.spec = -1; r.kind = K_ADDRTAB; B.rt[sec->section_id()] = std::move(r);
  }
  // before flatten() a section has the virtual size it was given and no other (a recycled holder included)
  for (auto& kv : B.rt) {
    if (kv.second.kind == K_ADDRTAB) continue;
    if (kv.second.sec->virtual_size() != kv.second.vsize_set) {
      char b[200]; snprintf(b, sizeof b, "section #%u reports virtual_size()=%llu before flatten(), it was given %llu (holder %s)", kv.first, (ull)kv.second.sec->virtual_size(), (ull)kv.second.vsize_set, g_recycled ? "recycled" : "fresh");
      viol(std::string("section:virtual-size-not-what-was-set:") + (g_recycled ? "recycled-holder" : "fresh-holder"), b);
    }
  }
}

// ---------------------------------------------------------------------------------------------------------
// Oracle
// ---------------------------------------------------------------------------------------------------------

struct SI {
  uint32_t id; int32_t order; uint64_t align; int kind;
  uint64_t buf0, virt0, real0;          // before flatten
  uint64_t off = 0, buf1 = 0, virt1 = 0, real1 = 0;  // after flatten / relocation
};

static std::vector<SI> snapshot(Built& B) {
  std::vector<SI> v;
  for (Section* s : B.code.sections()) {
    SI x; x.id = s->section_id(); x.order = s->order(); x.align = s->alignment() ? s->alignment() : 1; x.kind = B.rt[x.id].kind;
    x.buf0 = s->buffer_size(); x.virt0 = s->virtual_size(); x.real0 = std::max<uint64_t>(x.buf0, x.virt0);
    v.push_back(x);
  }
  return v;
}

static void resnapshot(Built& B, std::vector<SI>& v) {
  for (SI& x : v) {
    Section* s = B.code.section_by_id(x.id);
    x.off = s->offset(); x.buf1 = s->buffer_size(); x.virt1 = s->virtual_size(); x.real1 = std::max<uint64_t>(x.buf1, x.virt1);
  }
}

// Independent reference layout: the tightest layout in (order, creation id) sequence. Only used to know whether a
// layout exists at all (no 64-bit overflow) and as an informative comparison; the verdicts below do not depend on it.
static bool ref_layout(const std::vector<SI>& v, std::vector<u128>& offs, u128& total) {
  std::vector<size_t> ix(v.size());
  std::iota(ix.begin(), ix.end(), size_t(0));
  std::sort(ix.begin(), ix.end(), [&](size_t a, size_t b) { return v[a].order != v[b].order ? v[a].order < v[b].order : v[a].id < v[b].id; });
  offs.assign(v.size(), 0);
  u128 off = 0;
  for (size_t i : ix) {
    if (v[i].real0) off = (off + v[i].align - 1) / v[i].align * v[i].align;
    offs[i] = off;
    off += v[i].real0;
  }
  total = off;
  return total <= u128(~uint64_t(0));
}

static std::string describe(const TableSpec& t, const std::vector<SI>& v, bool with_layout) {
  std::vector<size_t> ix(v.size());
  std::iota(ix.begin(), ix.end(), size_t(0));
  std::sort(ix.begin(), ix.end(), [&](size_t a, size_t b) { return v[a].order != v[b].order ? v[a].order < v[b].order : v[a].id < v[b].id; });
  std::string o = std::string(t.arch == A_X64 ? "x64" : t.arch == A_X86 ? "x86" : "a64") + " [";
  size_t n = 0;
  for (size_t i : ix) {
    char b[200];
    if (with_layout) snprintf(b, sizeof b, "#%u{order=%d align=%llu %s buf=%llu virt=%llu -> off=%llu buf=%llu virt=%llu} ", v[i].id, v[i].order, (ull)v[i].align, kKindNames[v[i].kind], (ull)v[i].buf0, (ull)v[i].virt0, (ull)v[i].off, (ull)v[i].buf1, (ull)v[i].virt1);
    else snprintf(b, sizeof b, "#%u{order=%d align=%llu %s buf=%llu virt=%llu} ", v[i].id, v[i].order, (ull)v[i].align, kKindNames[v[i].kind], (ull)v[i].buf0, (ull)v[i].virt0);
    o += b;
    if (!g_verbose && ++n >= 12 && ix.size() > 13) { o += "... (" + std::to_string(ix.size()) + " sections) "; break; }
  }
  return o + "]";
}

// sections_by_order() is documented as "sorted according to section order first, then section id"; flatten() walks it.
static void check_by_order(Built& B, const char* phase) {
  auto so = B.code.sections_by_order();
  C.by_order_sequences++;
  if (so.size() != B.code.section_count()) { viol("sections-by-order:size-ne-section-count", std::string(phase) + ": sections_by_order() has " + std::to_string(so.size()) + " entries, section_count() is " + std::to_string(B.code.section_count())); return; }
  for (size_t i = 0; i + 1 < so.size(); i++) {
    const Section* a = so[i]; const Section* b = so[i + 1];
    bool sorted = a->order() != b->order() ? a->order() < b->order() : a->section_id() < b->section_id();
    if (!sorted) {
      char m[240]; snprintf(m, sizeof m, "%s: sections_by_order()[%zu] is #%u (order %d), [%zu] is #%u (order %d)", phase, i, a->section_id(), a->order(), i + 1, b->section_id(), b->order());
      viol(a->order() == b->order() ? "sections-by-order:equal-order-not-by-id" : "sections-by-order:not-sorted-by-order", m);
      return;
    }
  }
}

// section_by_name(): every accepted name finds the first section created under it (any bytes, with and without an
// explicit size), a name nobody has finds nothing.
static void check_names(const TableSpec& t, Built& B) {
  std::vector<std::pair<uint32_t, std::string>> names;   // in id order
  for (auto& kv : B.rt) {
    const SecRT& R = kv.second;
    std::string nm = R.kind == K_ADDRTAB ? std::string(".addrtab") : R.spec == 0 ? std::string(".text") : t.secs[size_t(R.spec)].name;
    if (nm.size() > Globals::kMaxSectionNameSize) continue;   // wrongly accepted: reported already
    names.emplace_back(kv.first, nm);
  }
  for (size_t i = 0; i < names.size(); i++) {
    const std::string& nm = names[i].second;
    uint32_t first = names[i].first;
    for (size_t j = 0; j < i; j++) if (names[j].second == nm) { first = names[j].first; break; }
    C.names_looked_up++;
    C.names_duplicate += first != names[i].first;
    Section* a = B.code.section_by_name(nm.c_str());
    std::unique_ptr<char[]> raw(new char[nm.size() ? nm.size() : 1]);
    memcpy(raw.get(), nm.data(), nm.size());
    Section* b = B.code.section_by_name(raw.get(), nm.size());
    if (!a || !b || a->section_id() != first || b->section_id() != first) {
      char m[240]; snprintf(m, sizeof m, "section_by_name(name of %zu bytes given to section #%u, first given to #%u) -> %s#%d with size=SIZE_MAX, %s#%d with the explicit size", nm.size(), names[i].first, first,
                            a ? "" : "null ", a ? int(a->section_id()) : -1, b ? "" : "null ", b ? int(b->section_id()) : -1);
      viol("section-by-name:wrong-section", m);
    }
  }
  // a name that no section has
  if (!names.empty()) {
    std::string absent = names[names.size() / 2].second;
    if (absent.size() < Globals::kMaxSectionNameSize) absent += '\x01'; else absent[0] = char(absent[0] ^ 0x55);
    bool taken = false;
    for (auto& n : names) taken |= n.second == absent;
    if (!taken) {
      C.names_absent_refused++;
      if (B.code.section_by_name(absent.data(), absent.size()) != nullptr) viol("section-by-name:absent-name-found", "section_by_name() returned a section for a name of " + std::to_string(absent.size()) + " bytes that no section was given");
    }
  }
}

// Layout verdicts. Returns false if the layout is unusable for the image checks.
static bool check_layout(const std::vector<SI>& v, u128& end_out, const char* phase) {
  bool ok = true;
  u128 end = 0;
  for (const SI& s : v) {
    if (s.real0 > 0 && s.off % s.align != 0) {
      char b[160]; snprintf(b, sizeof b, "%s: section #%u offset %llu is not a multiple of its alignment %llu", phase, s.id, (ull)s.off, (ull)s.align);
      viol("flatten:misaligned-offset", b);
    }
    if (s.real0 == 0 && s.off % s.align != 0) C.empty_section_unaligned++;
    if (s.real1 < s.buf0 || (s.kind != K_ADDRTAB && s.real1 < s.real0)) {
      char b[160]; snprintf(b, sizeof b, "%s: section #%u real size shrank %llu -> %llu", phase, s.id, (ull)s.real0, (ull)s.real1);
      viol("flatten:section-shrunk", b); ok = false;
    }
    end = std::max(end, u128(s.off) + s.real1);
  }
  for (size_t i = 0; i < v.size(); i++) {
    for (size_t j = 0; j < v.size(); j++) {
      if (i == j) continue;
      const SI &a = v[i], &b = v[j];
      u128 ea = u128(a.off) + a.real1;
      // order: what the section itself holds (not the padding flatten() may have added to its virtual size) ends
      // before any section of a larger order value starts
      uint64_t content = a.kind == K_ADDRTAB ? std::min(a.real0, a.real1) : a.real0;
      if (a.order < b.order && u128(a.off) + content > b.off) {
        char m[240]; snprintf(m, sizeof m, "%s: section #%u (order %d) holds [%llu,+%llu) but section #%u (order %d) starts at %llu", phase, a.id, a.order, (ull)a.off, (ull)content, b.id, b.order, (ull)b.off);
        viol("flatten:order-violated", m); ok = false;
      }
      // equal order values: the creation sequence decides ("section order has a higher priority than section id")
      if (a.order == b.order && a.id < b.id) {
        C.equal_order_pairs++;
        if (content && b.real0) C.equal_order_nonempty_pairs++;
        if (u128(a.off) + content > b.off) {
          char m[240]; snprintf(m, sizeof m, "%s: sections #%u and #%u both have order %d; #%u was created first and holds [%llu,+%llu) but #%u starts at %llu", phase, a.id, b.id, a.order, a.id, (ull)a.off, (ull)content, b.id, (ull)b.off);
          viol("flatten:equal-order-not-in-creation-sequence", m); ok = false;
        }
      }
      if (i < j && a.real1 && b.real1) {
        u128 eb = u128(b.off) + b.real1;
        if (u128(a.off) < eb && u128(b.off) < ea) {
          char m[240]; snprintf(m, sizeof m, "%s: sections #%u [%llu,+%llu) and #%u [%llu,+%llu) intersect", phase, a.id, (ull)a.off, (ull)a.real1, b.id, (ull)b.off, (ull)b.real1);
          viol("flatten:overlap", m); ok = false;
        }
      }
    }
  }
  end_out = end;
  return ok;
}

// Input class of one way to make code_size() wrong after flatten(): a section that was empty sits at an offset that
// is not a multiple of its own alignment and was given a virtual size by flatten() to cover the padding after it.
// code_size() then aligns that section too. Everything derived from code_size() on such a table is reported under
// this one key (one root cause, one key); tables outside this class use the specific keys.
static const char kEmptyGainedKey[] = "code-size-ne-end:empty-aligned-section-gained-padding";
static bool empty_gained(const std::vector<SI>& v) {
  for (const SI& s : v) if (s.real0 == 0 && s.real1 > 0 && s.align > 1 && s.off % s.align != 0) return true;
  return false;
}

static void check_code_size(const std::vector<SI>& v, size_t cs, u128 end, const char* phase) {
  if (u128(cs) == end) return;
  char b[200]; snprintf(b, sizeof b, "code_size() %s = %zu but the last section ends at %llu", phase, cs, (ull)uint64_t(end));
  viol(empty_gained(v) ? kEmptyGainedKey : std::string("code-size-ne-end:") + phase, b);
}

enum { CL_SEC = 0, CL_PAD = 1, CL_GAP = 2, CL_SLOT = 3 };
struct Slot { uint64_t img_off; uint64_t target; uint32_t site_sec; size_t site_off; };
struct Image {
  std::vector<uint8_t> val, cls;   // [0, end)
  uint64_t end = 0, need = 0;
  uint64_t align_pad = 0;          // bytes between what a section holds and the start of the next one (alignment padding)
  std::vector<Slot> slots;
  std::map<uint32_t, std::vector<uint8_t>> expect;   // per section id: the bytes the section must hold
  bool tab_present = false, tab_last = false;
  uint64_t tab_off = 0, tab_buf = 0, tab_real = 0;
};

static inline uint8_t prefill(size_t i) { return uint8_t(0x80u | ((i * 37u + (i >> 7)) & 0x7Fu)); }   // never zero

static int32_t rd32(const uint8_t* p) { uint32_t x; memcpy(&x, p, 4); return int32_t(x); }

// Validates the relocated call sites and builds the expected flattened image.
static bool expected_image(const TableSpec& t, Built& B, const std::vector<SI>& v, uint64_t base, uint64_t end, Image& im, bool relocated = true) {
  im.end = end;
  im.val.assign(size_t(end), 0);
  im.cls.assign(size_t(end), CL_GAP);
  std::map<uint32_t, const SI*> by_id;
  for (const SI& s : v) by_id[s.id] = &s;

  Section* tab = B.code.address_table_section();
  if (tab) {
    const SI* ts = by_id[tab->section_id()];
    im.tab_present = true; im.tab_off = ts->off; im.tab_buf = ts->buf1; im.tab_real = ts->real1;
    im.tab_last = B.code.sections_by_order()[B.code.section_count() - 1] == tab;
  }

  // expected section bytes = what the driver emitted, except the call sites which are checked for their meaning
  std::map<uint32_t, std::vector<uint8_t>>& expect = im.expect;
  for (auto& kv : B.rt) expect[kv.first] = kv.second.kind == K_ADDRTAB ? std::vector<uint8_t>(kv.second.sec->data(), kv.second.sec->data() + kv.second.sec->buffer_size()) : kv.second.shadow;
  for (const Site& st : B.sites) {
    Section* sec = B.code.section_by_id(st.sec_id);
    const SI* s = by_id[st.sec_id];
    if (st.off + size_t(st.len) > sec->buffer_size()) harness_fail("site outside buffer");
    const uint8_t* b = sec->data() + st.off;
    if (!relocated) { memcpy(expect[st.sec_id].data() + st.off, b, size_t(st.len)); continue; }   // placeholder bytes: nothing to judge yet
    char where[200]; snprintf(where, sizeof where, "%s to 0x%llx at section #%u+%zu (image offset %llu, base 0x%llx): bytes %s", st.is_call ? "call" : "jmp", (ull)st.target, st.sec_id, st.off, (ull)(s->off + st.off), (ull)base, hexstr(b, size_t(st.len)).c_str());
    if (t.arch == A_X86) {
      uint32_t next = uint32_t(base + s->off + st.off + 5);
      if (b[0] != (st.is_call ? 0xE8 : 0xE9) || uint32_t(next + uint32_t(rd32(b + 1))) != uint32_t(st.target)) viol("reloc:rel32-wrong-target", where);
      C.call_sites_rel++;
    }
    else {
      uint64_t next_img = s->off + st.off + 6;
      if (b[0] == 0x40 && b[1] == (st.is_call ? 0xE8 : 0xE9)) {
        if (base + next_img + uint64_t(int64_t(rd32(b + 2))) != st.target) viol("reloc:rel32-wrong-target", where);
        C.call_sites_rel++;
      }
      else if (b[0] == 0xFF && b[1] == (st.is_call ? 0x15 : 0x25)) {
        uint64_t slot = next_img + uint64_t(int64_t(rd32(b + 2)));
        if (!tab || slot < im.tab_off || slot + 8 > im.tab_off + im.tab_real || (slot - im.tab_off) % 8 != 0) viol("addrtab:slot-outside-table", where);
        else im.slots.push_back(Slot{slot, st.target, st.sec_id, st.off});
        C.call_sites_tab++;
      }
      else viol("reloc:unexpected-site-bytes", where);
    }
    memcpy(expect[st.sec_id].data() + st.off, b, size_t(st.len));
  }
  uint64_t need = 0;
  for (const SI& s : v) {
    Section* sec = B.code.section_by_id(s.id);
    std::vector<uint8_t>& e = expect[s.id];
    if (e.size() != s.buf1 || (s.buf1 && memcmp(e.data(), sec->data(), size_t(s.buf1)) != 0)) {
      char b[160]; snprintf(b, sizeof b, "section #%u: buffer (size %llu) differs from the %zu bytes emitted outside of the relocated sites", s.id, (ull)s.buf1, e.size());
      viol("section-buffer:changed-outside-reloc-sites", b);
      return false;
    }
    for (uint64_t i = 0; i < s.real1; i++) {
      size_t p = size_t(s.off + i);
      if (i < s.buf1) { im.cls[p] = CL_SEC; im.val[p] = e[size_t(i)]; } else im.cls[p] = CL_PAD;
    }
    if (s.buf1) need = std::max(need, s.off + s.buf1);
    uint64_t own = s.kind == K_ADDRTAB ? s.real1 : std::max(s.real0, s.buf1);
    if (s.real1 > own) im.align_pad += s.real1 - own;
  }
  im.need = need;
  for (const Slot& sl : im.slots) for (int k = 0; k < 8; k++) { im.cls[size_t(sl.img_off) + size_t(k)] = CL_SLOT; }
  bool gap = false;
  for (size_t i = 0; i < im.cls.size(); i++) if (im.cls[i] == CL_GAP) { gap = true; break; }
  C.uncovered_gap_tables += gap;
  return true;
}

static void check_slots(const Image& im, const uint8_t* mem, uint64_t avail, const char* how) {
  for (const Slot& sl : im.slots) {
    if (sl.img_off + 8 > avail) continue;
    C.addrtab_slots_checked++;
    uint64_t got; memcpy(&got, mem + sl.img_off, 8);
    if (got == sl.target) continue;
    bool not_copied = sl.img_off + 8 > im.tab_off + im.tab_buf;   // slot lies beyond the table's buffer size
    char b[640];
    snprintf(b, sizeof b, "%s: address-table slot at image offset %llu holds 0x%llx, the call/jmp at section #%u+%zu needs 0x%llx there (.addrtab off=%llu buffer_size=%llu virtual_size=%llu, %s section by order)",
             how, (ull)sl.img_off, (ull)got, sl.site_sec, sl.site_off, (ull)sl.target, (ull)im.tab_off, (ull)im.tab_buf, (ull)im.tab_real, im.tab_last ? "last" : "NOT the last");
    viol(not_copied ? (im.tab_last ? "addrtab:bytes-not-copied" : "addrtab-not-last:bytes-not-copied") : "addrtab:entry-ne-target", b);
  }
}

// Sections that never received a buffer have data() == nullptr, and the copy functions call memcpy(dst, nullptr, 0)
// for them. UBSan (nonnull-attribute, non-recoverable in this build) aborts on that although nothing is read or
// written; it is outside of what C10 states, so the driver gives such sections a (still empty) buffer before the
// copy phase and only counts how often that was necessary.
// Since the repair of that finding (5174536) half of the tables keep their null buffers, so the guarded path stays observed.
static void materialize_null_buffers(Built& B, bool leave_null) {
  bool any = false;
  for (Section* sec : B.code.sections()) {
    if (sec->_buffer.is_allocated()) continue;
    if (leave_null) { C.null_buffers_left++; any = true; continue; }
    C.null_buffer_sections++;
    ck(B.code.reserve_buffer(&sec->_buffer, 8), "reserve_buffer");
  }
  C.null_buffer_tables_left += any;
}

// Destination carved from one malloc block: [guard][dst .. dst+d)[guard ... end of block)
struct Dest {
  static constexpr size_t GUARD = 64;
  uint8_t* block = nullptr; size_t cap = 0; uint8_t* dst = nullptr; size_t d = 0;
  explicit Dest(size_t maxd) { cap = GUARD + maxd + GUARD; block = static_cast<uint8_t*>(malloc(cap)); if (!block) harness_fail("malloc"); dst = block + GUARD; }
  ~Dest() { V_UNPOISON(block, cap); free(block); }
  static uint8_t canary(size_t i) { return uint8_t(0xC5u ^ (i * 11u)); }
  void arm(size_t size) {
    d = size;
    for (size_t i = 0; i < GUARD; i++) { block[i] = canary(i); dst[d + i] = canary(i + 64); }
    for (size_t i = 0; i < d; i++) dst[i] = prefill(i);
    if (g_poison) { V_POISON(block, GUARD); V_POISON(dst + d, cap - GUARD - d); }
  }
  bool disarm_and_check() {
    V_UNPOISON(block, cap);
    C.canary_checks++;
    for (size_t i = 0; i < GUARD; i++) if (block[i] != canary(i) || dst[d + i] != canary(i + 64)) return false;
    return true;
  }
};

static void flat_copy_probe(Built& B, const Image& im, Dest& D, size_t d, uint32_t flags, int sc, size_t code_size, bool relocated = true) {
  const char* pre = relocated ? "" : " [before relocate_to_base()]";
  if (relocated) C.flat[sc][flags]++; else C.pre_reloc_probes++;
  D.arm(d);
  Error err = B.code.copy_flattened_data(D.dst, d, CopySectionFlags(flags));
  bool guards = D.disarm_and_check();
  char hdr[160]; snprintf(hdr, sizeof hdr, "copy_flattened_data(dst_size=%zu [%s], flags=%u) -> err=%u; image end=%llu section bytes end=%llu code_size()=%zu", d, kSizeClassNames[sc], flags, unsigned(err), (ull)im.end, (ull)im.need, code_size);
  std::string H = std::string(hdr) + pre;
  if (!guards) viol("copy-flat:write-outside-destination", H + ": a guard byte next to the destination was modified");
  if (err != Error::kOk) {
    if (relocated) C.flat_refused[sc][flags]++;
    if (d >= im.end) viol("copy-flat:valid-destination-refused", H);
    else if (d >= im.need) C.undersized_refused_impl_defined++;
    return;
  }
  if (relocated) C.flat_accepted[sc][flags]++;
  if ((flags & 1u) && d >= im.end) C.bytes_align_pad += im.align_pad;
  if (d < im.need) { viol("copy-flat:too-small-destination-accepted", H); }
  else if (d < im.end) C.undersized_accepted_impl_defined++;
  const uint8_t* p = D.dst;
  size_t lim = size_t(std::min<uint64_t>(d, im.end));
  for (size_t i = 0; i < lim; i++) {
    uint8_t c = im.cls[i], g = p[i];
    if (c == CL_SEC) {
      if (g != im.val[i]) { char b[120]; snprintf(b, sizeof b, ": byte at image offset %zu is 0x%02x, the section holds 0x%02x there", i, g, im.val[i]); viol("copy-flat:section-byte-wrong", H + b); break; }
    }
    else if (c == CL_PAD || c == CL_GAP) {
      // kPadSectionBuffer: every byte of the image that is not a section byte is padding and has to be zero, the stretch
      // that aligns the next section included (flatten() hands it to the previous section)
      bool ok = (flags & 1u) ? g == 0 : flags == 0 ? g == prefill(i) : (g == 0 || g == prefill(i));
      if (!ok) {
        char b[160]; snprintf(b, sizeof b, ": %s byte at image offset %zu is 0x%02x (destination held 0x%02x before)", c == CL_PAD ? "padding" : "inter-section", i, g, prefill(i));
        viol((flags & 1u) ? (c == CL_PAD ? "copy-flat:section-padding-not-zeroed" : "copy-flat:inter-section-gap-not-zeroed") : "copy-flat:padding-written-unasked", H + b); break;
      }
    }
  }
  for (size_t i = 0; i < lim; i++) { uint8_t c = im.cls[i]; if (c == CL_SEC) C.bytes_section++; else if (c == CL_SLOT) C.bytes_slot++; else C.bytes_padding++; }
  for (size_t i = size_t(im.end); i < d; i++) {
    uint8_t g = p[i];
    bool ok = (flags & 2u) ? g == 0 : g == prefill(i);
    if (!ok) {
      char b[120]; snprintf(b, sizeof b, ": byte at offset %zu beyond the image is 0x%02x (destination held 0x%02x before)", i, g, prefill(i));
      viol((flags & 2u) ? "copy-flat:target-padding-not-zeroed" : "copy-flat:unasked-write-beyond-image", H + b); break;
    }
    C.bytes_beyond++;
  }
  check_slots(im, p, d, H.c_str());
}

static void section_copy_probes(Built& B, const Image& im, const std::vector<SI>& v, Rng& r) {
  std::vector<size_t> pick;
  for (size_t i = 0; i < v.size(); i++) pick.push_back(i);
  for (size_t i = pick.size(); i > 1; i--) std::swap(pick[i - 1], pick[r.below(i)]);
  if (pick.size() > 6) pick.resize(6);
  for (size_t pi : pick) {
    const SI& s = v[pi];
    Section* sec = B.code.section_by_id(s.id);
    size_t bs = sec->buffer_size();
    if (bs > (8u << 20)) continue;
    size_t k = size_t(r.range(1, 300));
    Dest D(bs + k);
    const std::vector<uint8_t>& want_bytes = im.expect.at(s.id);
    if (want_bytes.size() != bs) harness_fail("expected bytes / buffer size mismatch");
    for (int cls = 0; cls < 3; cls++) {
      if (cls == 0 && bs == 0) continue;
      size_t d = cls == 0 ? bs - 1 : cls == 1 ? bs : bs + k;
      for (uint32_t flags = 0; flags < 4; flags++) {
        C.sect[cls][flags]++;
        D.arm(d);
        Error err = B.code.copy_section_data(D.dst, d, s.id, CopySectionFlags(flags));
        bool guards = D.disarm_and_check();
        char hdr[200]; snprintf(hdr, sizeof hdr, "copy_section_data(dst_size=%zu, section #%u with buffer_size=%zu, flags=%u) -> err=%u", d, s.id, bs, flags, unsigned(err));
        if (!guards) viol("copy-section:write-outside-destination", hdr);
        if (cls == 0) { if (err == Error::kOk) viol("copy-section:too-small-destination-accepted", hdr); continue; }
        if (err != Error::kOk) { viol("copy-section:valid-destination-refused", hdr); continue; }
        for (size_t i = 0; i < bs; i++) {
          uint8_t want = want_bytes[i];
          if (D.dst[i] != want) { char b[100]; snprintf(b, sizeof b, ": byte %zu is 0x%02x, section holds 0x%02x", i, D.dst[i], want); viol("copy-section:section-byte-wrong", std::string(hdr) + b); break; }
        }
        for (size_t i = bs; i < d; i++) {
          bool ok = (flags & 1u) ? D.dst[i] == 0 : D.dst[i] == prefill(i);
          if (!ok) { char b[100]; snprintf(b, sizeof b, ": byte %zu after the section data is 0x%02x", i, D.dst[i]); viol((flags & 1u) ? "copy-section:padding-not-zeroed" : "copy-section:padding-written-unasked", std::string(hdr) + b); break; }
        }
      }
    }
  }
  // an invalid section id must not be copied from
  {
    Dest D(64);
    D.arm(64);
    Error err = B.code.copy_section_data(D.dst, 64, uint32_t(B.code.section_count() + r.below(5)), CopySectionFlags::kNone);
    if (!D.disarm_and_check() || err == Error::kOk) viol("copy-section:invalid-section-id-accepted", "copy_section_data with a section id >= section_count()");
  }
}

static uint64_t table_signature(const std::vector<SI>& v) {
  std::vector<std::tuple<int32_t, uint64_t, int>> m;
  for (const SI& s : v) m.emplace_back(s.order, s.align, s.kind + (s.id == 0 ? 100 : 0));
  std::sort(m.begin(), m.end());
  uint64_t h = 1469598103934665603ull;
  for (auto& e : m) { int32_t o = std::get<0>(e); uint64_t a = std::get<1>(e); int k = std::get<2>(e); h = fnv1a(&o, 4, h); h = fnv1a(&a, 8, h); h = fnv1a(&k, 4, h); }
  return h;
}

static void note_evidence(const TableSpec& t, const std::vector<SI>& v, bool laid_out) {
  uint64_t sig = table_signature(v);
  g_distinct_all.insert(sig);
  // non-trivial: >= 2 non-empty sections with alignment padding between two of them, or a virtual-size-only section
  bool virt_only = false;
  size_t nonempty = 0;
  for (const SI& s : v) { if (s.buf0 == 0 && s.virt0 > 0) virt_only = true; if (s.real0) nonempty++; }
  bool padding = false;
  if (laid_out && nonempty >= 2) {
    std::vector<const SI*> ne;
    for (const SI& s : v) if (s.real0) ne.push_back(&s);
    std::sort(ne.begin(), ne.end(), [](const SI* a, const SI* b) { return a->off < b->off; });
    for (size_t i = 0; i + 1 < ne.size(); i++) if (ne[i]->off + ne[i]->real0 < ne[i + 1]->off) padding = true;
  }
  if (virt_only || padding) g_distinct_nontrivial.insert(sig);
  C.sections += v.size();
  C.max_sections = std::max<uint64_t>(C.max_sections, v.size());
  for (const SI& s : v) C.kinds[s.kind]++;
  if (g_samples.size() < 3 && v.size() >= 3 && v.size() <= 7 && (padding || virt_only)) g_samples.push_back(describe(t, v, laid_out));
}

// --- the manual pipeline: flatten, code_size, relocate_to_base, copies --------------------------------------

static void run_manual(const TableSpec& t, Rng& r) {
  Built B;
  Environment env(t.arch == A_X64 ? Arch::kX64 : t.arch == A_X86 ? Arch::kX86 : Arch::kAArch64);
  g_recycled = false;
  { Rng rp = r.fork(77); if (rp.chance(1, 3)) { prelife(t, B, env, rp); g_recycled = true; } }
  build(t, B, env, t.base);
  std::vector<SI> v = snapshot(B);
  set_desc(describe(t, v, false));
  if (g_verbose) fprintf(stderr, "table %llu: %s\n", (ull)g_table, g_table_desc.c_str());
  C.arch[t.arch]++;
  Rng q(r.s ^ 0xD1CE5EED0BADull);   // side stream of the probes added later (r itself draws what it always drew)
  check_by_order(B, "after-build");
  check_names(t, B);
  { const SI& tx = v[0]; if (tx.virt0) { if (tx.virt0 == ~uint64_t(0) || tx.virt0 >= (uint64_t(1) << 62)) C.text_overflow++; else if (!tx.buf0) C.text_virt_only++; else if (tx.virt0 > tx.buf0) C.text_virt_larger++; else C.text_virt_smaller++; } }

  size_t est0 = B.code.code_size();
  std::vector<u128> ref_offs; u128 ref_total = 0;
  bool ref_ok = ref_layout(v, ref_offs, ref_total);
  if (ref_ok) { if (u128(est0) == ref_total) C.est0_equal_ref++; else C.est0_differs_ref++; }

  Error ferr = B.code.flatten();
  if (ferr != Error::kOk) {
    if (!ref_ok) {
      C.flatten_refused_overflow++;
      if (est0 != SIZE_MAX) C.overflow_code_size_not_max++;
    }
    else { char b[120]; snprintf(b, sizeof b, "flatten() -> err=%u although a layout of %llu bytes exists", unsigned(ferr), (ull)uint64_t(ref_total)); viol("flatten:valid-table-refused", b); }
    note_evidence(t, v, false);
    return;
  }
  C.flatten_ok++;
  resnapshot(B, v);
  set_desc(describe(t, v, true));
  note_evidence(t, v, true);
  { bool same = ref_ok; for (size_t i = 0; same && i < v.size(); i++) same = ref_offs[i] == u128(v[i].off); if (same) C.ref_layout_equal++; else C.ref_layout_differs++; }

  u128 end1 = 0;
  bool layout_ok = check_layout(v, end1, "after-flatten");
  size_t cs1 = B.code.code_size();
  check_code_size(v, cs1, end1, "after-flatten");
  if (u128(est0) < end1) { char b[160]; snprintf(b, sizeof b, "code_size() before flatten() = %zu, the flattened sections end at %llu", est0, (ull)uint64_t(end1)); viol("estimate-before-flatten-smaller-than-image", b); }

  Section* tab = B.code.address_table_section();
  if (tab) { C.with_addrtab++; if (B.code.sections_by_order()[B.code.section_count() - 1] != tab) C.addrtab_not_last++; }

  bool leave_null = q.chance(1, 2);
  // A flattened image may be copied without any relocation (position independent code/data): same byte oracle, the
  // absolute call/jmp sites still hold their placeholders and the address table has no buffer yet.
  if (layout_ok && end1 <= (2u << 20) && q.chance(1, 2)) {
    materialize_null_buffers(B, leave_null);
    Image im0;
    if (expected_image(t, B, v, t.base, uint64_t(end1), im0, false)) {
      C.pre_reloc_tables_with_sites += !B.sites.empty();
      size_t k0 = size_t(q.range(0, 200));
      Dest D0(size_t(im0.end) + k0);
      for (uint32_t flags = 0; flags < 4; flags++) flat_copy_probe(B, im0, D0, size_t(im0.end) + (flags == 2 || q.chance(1, 3) ? k0 : 0), flags, SC_REQ, cs1, false);
      if (im0.need > 0) flat_copy_probe(B, im0, D0, size_t(im0.need) - 1, uint32_t(q.below(4)), SC_BYTES_M1, cs1, false);
    }
  }

  CodeHolder::RelocationSummary sum; sum.code_size_reduction = 0;
  bool null_summary = q.chance(1, 4);   // the summary is optional
  Error rerr = null_summary ? B.code.relocate_to_base(t.base) : B.code.relocate_to_base(t.base, &sum);
  if (rerr != Error::kOk) {
    C.relocate_failed++;
    if (g_verbose || a_trace_fail) fprintf(stderr, "table %llu: relocate_to_base -> err=%u end1=%llu %s\n", (ull)g_table, unsigned(rerr), (ull)uint64_t(end1), g_table_desc.c_str());
    // only an image spanning more than 2 GiB gives relocate_to_base() a reason to fail on these tables
    if (end1 < (u128(1) << 31)) { char b[120]; snprintf(b, sizeof b, "relocate_to_base(0x%llx) -> err=%u on an image of %llu bytes", (ull)t.base, unsigned(rerr), (ull)uint64_t(end1)); viol("relocate:failed-on-small-image", b); }
    return;
  }
  std::vector<SI> v1 = v;
  resnapshot(B, v);
  for (size_t i = 0; i < v.size(); i++) if (v[i].off != v1[i].off) { viol("relocate:section-offset-changed", "relocate_to_base() moved section #" + std::to_string(v[i].id)); layout_ok = false; }
  u128 end2 = 0;
  layout_ok = check_layout(v, end2, "after-relocate") && layout_ok;
  set_desc(describe(t, v, true));
  size_t cs2 = B.code.code_size();
  if (g_verbose) fprintf(stderr, "table %llu after relocate: est0=%zu cs1=%zu cs2=%zu reduction=%zu end1=%llu end2=%llu %s\n", (ull)g_table, est0, cs1, cs2, sum.code_size_reduction, (ull)uint64_t(end1), (ull)uint64_t(end2), g_table_desc.c_str());
  check_code_size(v, cs2, end2, "after-relocate");
  bool eg = empty_gained(v);
  if (cs1 < cs2) { char b[160]; snprintf(b, sizeof b, "code_size() after flatten()/before relocate_to_base() = %zu, after relocate_to_base() = %zu", cs1, cs2); viol(eg ? kEmptyGainedKey : "estimate-smaller-than-final-size", b); }
  if (u128(cs1) < end2) { char b[160]; snprintf(b, sizeof b, "code_size() before relocate_to_base() = %zu, the relocated sections end at %llu", cs1, (ull)uint64_t(end2)); viol(eg ? kEmptyGainedKey : "estimate-smaller-than-final-image", b); }
  if (est0 < cs2) C.est0_below_final_code_size++;
  if (null_summary) { C.reloc_null_summary++; C.reloc_null_summary_shrunk += cs1 != cs2; sum.code_size_reduction = cs1 - cs2; }
  if (cs1 - sum.code_size_reduction != cs2) {
    // JitRuntime::add shrinks its span to (estimate - reduction) and asserts that this equals code_size()
    char b[240]; snprintf(b, sizeof b, "code_size() %zu -> %zu across relocate_to_base() but RelocationSummary::code_size_reduction = %zu (sections really end at %llu -> %llu)", cs1, cs2, sum.code_size_reduction, (ull)uint64_t(end1), (ull)uint64_t(end2));
    viol(eg ? kEmptyGainedKey : "relocation-summary:reduction-ne-size-delta", b);
  }
  if (sum.code_size_reduction) C.addrtab_shrunk++;

  if (!layout_ok) return;
  if (end2 > (6u << 20)) { C.copies_skipped_big++; return; }
  C.max_image = std::max<uint64_t>(C.max_image, uint64_t(end2));

  materialize_null_buffers(B, leave_null);
  Image im;
  if (!expected_image(t, B, v, t.base, uint64_t(end2), im)) return;
  C.align_pad_tables += im.align_pad != 0;

  // destinations
  size_t k = size_t(r.chance(1, 4) ? r.range(1, 5000) : r.range(1, 64));
  size_t maxd = std::max<size_t>(size_t(im.end) + k, std::min<size_t>(cs2, size_t(im.end) + (1u << 20)));
  Dest D(maxd);
  struct Probe { size_t d; int sc; };
  std::vector<Probe> probes;
  probes.push_back(Probe{0, SC_ZERO});
  if (im.need > 0 && im.need != im.end) { probes.push_back(Probe{size_t(im.need) - 1, SC_BYTES_M1}); probes.push_back(Probe{size_t(im.need), SC_BYTES}); }
  if (im.end > 0) probes.push_back(Probe{size_t(im.end) - 1, SC_REQ_M1});
  probes.push_back(Probe{size_t(im.end), SC_REQ});
  probes.push_back(Probe{size_t(im.end) + k, SC_REQ_PK});
  if (cs2 != im.end && cs2 <= maxd) probes.push_back(Probe{cs2, SC_CODESIZE});
  bool big = im.end > (256u << 10);
  for (const Probe& p : probes) {
    if (big && p.sc != SC_REQ) flat_copy_probe(B, im, D, p.d, uint32_t(r.below(4)), p.sc, cs2);
    else for (uint32_t flags = 0; flags < 4; flags++) flat_copy_probe(B, im, D, p.d, flags, p.sc, cs2);
  }
  section_copy_probes(B, im, v, r);

  // Side observation, no verdict (the header says flatten() "should never be called more than once"): does a second
  // flatten() of the unchanged holder arrive at the same layout?
  if (q.chance(1, 4) && B.code.flatten() == Error::kOk) {
    bool same = B.code.code_size() == cs2, empty_only = false;
    for (const SI& x : v) {
      bool eq = B.code.section_by_id(x.id)->offset() == x.off && B.code.section_by_id(x.id)->virtual_size() == x.virt1;
      if (!eq && x.real1 == 0 && B.code.section_by_id(x.id)->virtual_size() == 0) empty_only = true; else same = same && eq;
    }
    if (!same) C.reflatten_differs++; else if (empty_only) C.reflatten_empty_moved++; else C.reflatten_identical++;
    if (!same && (g_verbose || a_trace_fail)) {
      fprintf(stderr, "table %llu: second flatten() differs: code_size %zu -> %zu; %s\n", (ull)g_table, cs2, B.code.code_size(), g_table_desc.c_str());
      for (const SI& x : v) { Section* sc = B.code.section_by_id(x.id); if (sc->offset() != x.off || sc->virtual_size() != x.virt1) fprintf(stderr, "   #%u off %llu -> %llu virt %llu -> %llu\n", x.id, (ull)x.off, (ull)sc->offset(), (ull)x.virt1, (ull)sc->virtual_size()); }
    }
  }
}

// --- the JitRuntime::add pipeline (x86-64 host only) --------------------------------------------------------

static JitRuntime* g_rt = nullptr;
static uint64_t g_jit_hint = 0;
static uint64_t a_seed = 0;

static void run_jit(const TableSpec& t) {
  if (!g_rt) {
    // every other process runs the pipeline with separate writable/executable views (rx != rw)
    if (a_seed & 1) {
      JitAllocator::CreateParams dp {};
      dp.options = JitAllocatorOptions::kUseDualMapping;
      g_rt = new JitRuntime(&dp);
    }
    else g_rt = new JitRuntime();
    JitAllocator::Span sp;
    if (g_rt->allocator().alloc(Out(sp), 64) != Error::kOk) harness_fail("JitAllocator::alloc");
    g_jit_hint = uint64_t(uintptr_t(sp.rx()));   // kept allocated: "near" targets are placed around it
  }
  Built B;
  build(t, B, g_rt->environment(), g_jit_hint);
  std::vector<SI> v = snapshot(B);
  set_desc("JitRuntime::add " + describe(t, v, false));
  Rng q(a_seed * 0x9E3779B97F4A7C15ull ^ (g_table * 0xC2B2AE3D27D4EB4Full) ^ 0x717A11ull);
  check_by_order(B, "jit-build");
  materialize_null_buffers(B, q.chance(1, 2));
  // The memory the image will land in is made dirty first (a span of the estimated size is filled and released; the
  // allocator does not clear released memory), so that a byte add() forgets to write does not read as zero by luck.
  void* dirty_rx = nullptr;
  {
    size_t est = B.code.code_size();
    JitAllocator::Span ds;
    if (est && est <= (8u << 20) && g_rt->allocator().alloc(Out(ds), est) == Error::kOk) {
      dirty_rx = ds.rx();
      ck(g_rt->allocator().write(ds, [](JitAllocator::Span& w) noexcept -> Error { memset(w.rw(), 0xCD, w.size()); return Error::kOk; }), "JitAllocator::write (dirtying)");
      ck(g_rt->allocator().release(dirty_rx), "JitAllocator::release (dirtying)");
      C.jit_predirtied++;
    }
  }
  void* p = nullptr;
  Error err = g_rt->add(&p, &B.code);
  if (err == Error::kNoCodeGenerated) { bool any = false; for (const SI& s : v) any |= s.real0 != 0; if (any) viol("jit-add:refused-nonempty-code", "JitRuntime::add -> kNoCodeGenerated"); return; }
  if (err != Error::kOk) {
    C.relocate_failed++;
    if (g_verbose || a_trace_fail) fprintf(stderr, "table %llu: JitRuntime::add -> err=%u %s\n", (ull)g_table, unsigned(err), g_table_desc.c_str());
    { u128 tot = 0; for (const SI& s : v) tot += s.real0 + s.align; if (tot < (u128(1) << 26)) { char b[120]; snprintf(b, sizeof b, "JitRuntime::add -> err=%u on sections of %llu bytes in total", unsigned(err), (ull)uint64_t(tot)); viol("jit-add:failed-on-small-image", b); } }
    return;
  }
  C.jit_tables++;
  C.jit_predirtied_reused += dirty_rx && dirty_rx == p;
  resnapshot(B, v);
  set_desc("JitRuntime::add " + describe(t, v, true));
  u128 end = 0;
  bool ok = check_layout(v, end, "jit-add");
  if (ok && end <= (6u << 20)) {
    Image im;
    uint64_t base = uint64_t(uintptr_t(p));
    if (expected_image(t, B, v, base, uint64_t(end), im)) {
      const uint8_t* mem = static_cast<const uint8_t*>(p);
      for (size_t i = 0; i < size_t(im.end); i++) {
        uint8_t c = im.cls[i];
        if (c == CL_SEC && mem[i] != im.val[i]) { char b[160]; snprintf(b, sizeof b, "JitRuntime::add: byte at image offset %zu is 0x%02x, the section holds 0x%02x there", i, mem[i], im.val[i]); viol("jit-add:section-byte-wrong", b); break; }
        if (c == CL_PAD && mem[i] != 0) { char b[160]; snprintf(b, sizeof b, "JitRuntime::add: padding byte at image offset %zu is 0x%02x", i, mem[i]); viol("jit-add:padding-not-zeroed", b); break; }
        if (c == CL_GAP && mem[i] != 0) { char b[160]; snprintf(b, sizeof b, "JitRuntime::add: byte at image offset %zu between two sections is 0x%02x", i, mem[i]); viol("jit-add:inter-section-gap-not-zeroed", b); break; }
      }
      C.bytes_jit += im.end;
      C.jit_align_pad_bytes += im.align_pad;
      check_slots(im, mem, im.end, "JitRuntime::add");

      // The image has to stay inside the span that add() keeps for it: the span is shrunk to the final code size and
      // whatever lies behind it belongs to the allocator again.
      JitAllocator::Span sp;
      Error qe = g_rt->allocator().query(Out(sp), p);
      if (qe != Error::kOk || sp.rx() != p) { char b[160]; snprintf(b, sizeof b, "JitAllocator::query(pointer returned by add()) -> err=%u rx=%p, add() returned %p", unsigned(qe), sp.rx(), p); viol("jit-add:returned-pointer-not-a-span", b); }
      else {
        C.jit_span_queried++;
        size_t est = 0; { std::vector<u128> ro; u128 rt_ = 0; std::vector<SI> v0 = v; if (ref_layout(v0, ro, rt_)) est = size_t(rt_); }
        if (est > im.end) C.jit_shrunk_spans++;
        if (sp.size() < im.end) { char b[200]; snprintf(b, sizeof b, "JitRuntime::add: the image ends at %llu but the span kept for it has %zu bytes (code_size() = %zu)", (ull)im.end, sp.size(), B.code.code_size()); viol("jit-add:span-smaller-than-image", b); }
        // memory handed out next must not be part of the image, and the image must survive it being written
        JitAllocator::Span s2;
        if (g_rt->allocator().alloc(Out(s2), size_t(q.range(1, 256))) == Error::kOk) {
          C.jit_small_allocs++;
          uintptr_t a0 = uintptr_t(p), a1 = a0 + size_t(im.end), b0 = uintptr_t(s2.rx()), b1 = b0 + s2.size();
          if (b0 < a1 && a0 < b1) { char b[200]; snprintf(b, sizeof b, "JitRuntime::add: image [%p,+%llu) and the next allocation [%p,+%zu) intersect", p, (ull)im.end, s2.rx(), s2.size()); viol("jit-add:image-tail-handed-out-again", b); }
          ck(g_rt->allocator().write(s2, [](JitAllocator::Span& w) noexcept -> Error { memset(w.rw(), 0xEE, w.size()); return Error::kOk; }), "JitAllocator::write (neighbour)");
          for (size_t i = 0; i < size_t(im.end); i++) if (im.cls[i] == CL_SEC && mem[i] != im.val[i]) { char b[160]; snprintf(b, sizeof b, "JitRuntime::add: byte at image offset %zu changed to 0x%02x when the next allocation was written", i, mem[i]); viol("jit-add:image-tail-handed-out-again", b); break; }
          ck(g_rt->allocator().release(s2.rx()), "JitAllocator::release (neighbour)");
        }
      }
    }
  }
  g_rt->release(p);
}

// ---------------------------------------------------------------------------------------------------------

static void jnum(const char* k, uint64_t v, bool comma = true) { printf("\"%s\":%llu%s", k, (ull)v, comma ? "," : ""); }

int main(int argc, char** argv) {
  Args a(argc, argv);
  uint64_t seed = a.u64("seed", 1);
  a_seed = seed;
  uint64_t first = a.u64("first", 0), ntab = a.u64("tables", 100);
  bool allow_jit = a.u64("jit", 1) != 0;
  g_poison = !a.has("no-poison");
  g_verbose = a.has("verbose");
  a_trace_fail = a.has("trace-fail");
  if (a.has("only")) { first = a.u64("only", 0); ntab = 1; }
#if defined(__SANITIZE_ADDRESS__)
  __asan_set_death_callback(on_asan_death);
#endif

  for (uint64_t i = first; i < first + ntab; i++) {
    g_table = i;
    set_desc("");
    Rng r(seed * 1000003ull + i * 7919ull);
    TableSpec t = gen_table(r, allow_jit);
    C.tables++;
    Rng r2 = r.fork(1);
    run_manual(t, r2);
    if (t.jit) run_jit(t);
  }

  g_finished = true;
  printf("{\"violations\":[");
  for (size_t i = 0; i < g_viol.size(); i++)
    printf("%s{\"key\":%s,\"what\":%s,\"table\":%llu,\"count\":%llu}", i ? "," : "", jstr(g_viol[i].key).c_str(), jstr(g_viol[i].what.substr(0, 1800)).c_str(), (ull)g_viol[i].table, (ull)g_viol[i].count);
  printf("],");
  jnum("tables", C.tables); jnum("recycled_reinit", g_prelives[0]); jnum("recycled_soft_reset", g_prelives[1]); jnum("recycled_hard_reset", g_prelives[2]); jnum("sections", C.sections); jnum("jit_tables", C.jit_tables);
  jnum("arch_x64", C.arch[0]); jnum("arch_x86", C.arch[1]); jnum("arch_a64", C.arch[2]);
  printf("\"kinds\":{");
  for (int k = 0; k < K_COUNT; k++) printf("%s\"%s\":%llu", k ? "," : "", kKindNames[k], (ull)C.kinds[k]);
  printf("},");
  jnum("names_refused", C.names_refused); jnum("aligns_refused", C.aligns_refused); jnum("names_checked", C.names_checked); jnum("names_not_terminated", C.names_not_terminated);
  jnum("flatten_ok", C.flatten_ok); jnum("flatten_refused_overflow", C.flatten_refused_overflow); jnum("overflow_code_size_not_max", C.overflow_code_size_not_max);
  jnum("ref_layout_equal", C.ref_layout_equal); jnum("ref_layout_differs", C.ref_layout_differs); jnum("est0_equal_ref", C.est0_equal_ref); jnum("est0_differs_ref", C.est0_differs_ref);
  jnum("est0_below_final_code_size", C.est0_below_final_code_size); jnum("empty_section_unaligned", C.empty_section_unaligned); jnum("uncovered_gap_tables", C.uncovered_gap_tables);
  jnum("with_addrtab", C.with_addrtab); jnum("addrtab_not_last", C.addrtab_not_last); jnum("addrtab_shrunk", C.addrtab_shrunk); jnum("addrtab_slots_checked", C.addrtab_slots_checked);
  jnum("call_sites_rel", C.call_sites_rel); jnum("call_sites_tab", C.call_sites_tab); jnum("relocate_failed", C.relocate_failed); jnum("copies_skipped_big", C.copies_skipped_big);
  jnum("undersized_accepted_impl_defined", C.undersized_accepted_impl_defined); jnum("undersized_refused_impl_defined", C.undersized_refused_impl_defined);
  jnum("bytes_section", C.bytes_section); jnum("bytes_padding", C.bytes_padding); jnum("bytes_beyond", C.bytes_beyond); jnum("bytes_slot", C.bytes_slot); jnum("bytes_jit", C.bytes_jit);
  jnum("canary_checks", C.canary_checks); jnum("null_buffer_sections", C.null_buffer_sections); jnum("max_sections", C.max_sections); jnum("max_image", C.max_image);
  jnum("text_virt_only", C.text_virt_only); jnum("text_virt_larger", C.text_virt_larger); jnum("text_virt_smaller", C.text_virt_smaller); jnum("text_overflow", C.text_overflow);
  jnum("flags_checked", C.flags_checked); jnum("flags_nonzero", C.flags_nonzero);
  printf("\"flag_combo\":["); for (int i = 0; i < 16; i++) printf("%s%llu", i ? "," : "", (ull)C.flag_combo[i]); printf("],");
  jnum("by_order_sequences", C.by_order_sequences); jnum("equal_order_pairs", C.equal_order_pairs); jnum("equal_order_nonempty_pairs", C.equal_order_nonempty_pairs);
  jnum("bytes_align_pad", C.bytes_align_pad); jnum("align_pad_tables", C.align_pad_tables);
  jnum("pre_reloc_probes", C.pre_reloc_probes); jnum("pre_reloc_tables_with_sites", C.pre_reloc_tables_with_sites); jnum("reloc_null_summary", C.reloc_null_summary); jnum("reloc_null_summary_shrunk", C.reloc_null_summary_shrunk);
  jnum("null_buffers_left", C.null_buffers_left); jnum("null_buffer_tables_left", C.null_buffer_tables_left);
  jnum("jit_span_queried", C.jit_span_queried); jnum("jit_predirtied", C.jit_predirtied); jnum("jit_predirtied_reused", C.jit_predirtied_reused); jnum("jit_small_allocs", C.jit_small_allocs);
  jnum("jit_align_pad_bytes", C.jit_align_pad_bytes); jnum("jit_shrunk_spans", C.jit_shrunk_spans);
  jnum("names_looked_up", C.names_looked_up); jnum("names_duplicate", C.names_duplicate); jnum("names_absent_refused", C.names_absent_refused);
  jnum("reflatten_identical", C.reflatten_identical); jnum("reflatten_empty_moved", C.reflatten_empty_moved); jnum("reflatten_differs", C.reflatten_differs);
  printf("\"flat\":{");
  for (int s = 0; s < SC_COUNT; s++) {
    printf("%s\"%s\":{\"probes\":[%llu,%llu,%llu,%llu],\"accepted\":[%llu,%llu,%llu,%llu],\"refused\":[%llu,%llu,%llu,%llu]}", s ? "," : "", kSizeClassNames[s],
           (ull)C.flat[s][0], (ull)C.flat[s][1], (ull)C.flat[s][2], (ull)C.flat[s][3], (ull)C.flat_accepted[s][0], (ull)C.flat_accepted[s][1], (ull)C.flat_accepted[s][2], (ull)C.flat_accepted[s][3],
           (ull)C.flat_refused[s][0], (ull)C.flat_refused[s][1], (ull)C.flat_refused[s][2], (ull)C.flat_refused[s][3]);
  }
  printf("},\"section_copies\":{");
  static const char* kSC[] = { "size-1", "size", "size+k" };
  for (int s = 0; s < 3; s++) printf("%s\"%s\":[%llu,%llu,%llu,%llu]", s ? "," : "", kSC[s], (ull)C.sect[s][0], (ull)C.sect[s][1], (ull)C.sect[s][2], (ull)C.sect[s][3]);
  printf("},\"samples\":[");
  for (size_t i = 0; i < g_samples.size(); i++) printf("%s%s", i ? "," : "", jstr(g_samples[i]).c_str());
  printf("],\"distinct\":[");
  { bool f = true; for (uint64_t h : g_distinct_nontrivial) { printf("%s%llu", f ? "" : ",", (ull)h); f = false; } }
  printf("],\"distinct_all\":[");
  { bool f = true; for (uint64_t h : g_distinct_all) { printf("%s%llu", f ? "" : ",", (ull)h); f = false; } }
  printf("]}\n");
  return 0;
}
