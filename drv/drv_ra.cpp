// C05 driver: register allocation preserves the meaning of Compiler programs.
//
// Harness code (not part of asmjit). Generates random / systematically enumerated well-defined programs in a small
// IR, interprets them over unbounded virtual registers (reference), emits the same program through x86::Compiler
// exactly as a user would, runs the JIT-compiled function natively (x86-64) in a forked child on >= 16 inputs and
// compares return value, final argument buffer and the logged helper-call sequence with the interpreter.
// x86-32 and AArch64 programs are compiled only (register allocator runs under ASan/UBSan); their code bytes are
// handed to the Python side for decode / structural checks.
#include "vcommon.h"

#include <asmjit/x86.h>
#include <asmjit/a64.h>

#include <signal.h>
#include <ucontext.h>
#include <errno.h>
#include <sys/mman.h>
#include <sys/time.h>
#include <sys/wait.h>
#include <unistd.h>
#include <bitset>
#include <algorithm>
#include <functional>

using namespace asmjit;

typedef uint64_t u64;
typedef int64_t i64;
typedef uint32_t u32;
typedef int32_t i32;
typedef uint16_t u16;
typedef uint8_t u8;
typedef unsigned __int128 u128;
typedef __int128 i128;

#define NOSAN __attribute__((no_sanitize("address", "undefined")))

// ---------------------------------------------------------------------------------------------------------------
// IR
// ---------------------------------------------------------------------------------------------------------------

enum : u8 { KIND_G = 0, KIND_V = 1, KIND_D = 2, KIND_K = 3 };

struct ValDef {
  u8 kind = 0;    // KIND_*
  u8 size = 0;    // bytes: G 1/2/4/8, V 16/32/64, D 8, K 1/2/4/8
  u8 local = 0;   // block-local temporary (defined and used inside one block)
  u8 dumped = 0;  // stored to the dump area in the final block (observable)
  u8 sgn = 0;     // GP virtual register created with a signed type id (matters only when a narrower signed parameter is bound to it)
  u8 half = 0;    // 128-bit vector register bound to a double parameter: only the low 8 bytes are ever defined/used
};

enum : u8 { S_NONE = 0, S_REG = 1, S_IMM = 2, S_MEM = 3 };
enum : u8 { M_BUF = 0, M_STK = 1, M_CONST = 2 };

struct MemRef {
  u8 space = M_BUF;
  u8 shift = 0;
  int idx = -1;   // index value (bounded by the generator), -1 = none
  int off = 0;    // byte offset (M_CONST: seed of the constant)
};

struct Src {
  u8 t = S_NONE;
  int v = -1;
  i64 imm = 0;
  MemRef m;
};

static Src SR(int v) { Src s; s.t = S_REG; s.v = v; return s; }
static Src SI(i64 imm) { Src s; s.t = S_IMM; s.imm = imm; return s; }
static Src SM(const MemRef& m) { Src s; s.t = S_MEM; s.m = m; return s; }

enum : u16 {
  O_NOP = 0,
  // general purpose
  O_MOV, O_STORE, O_ALU, O_ALUM, O_ADC2, O_UN, O_UNM, O_SHI, O_SHC, O_IMUL2, O_IMUL3, O_MUL1, O_DIV, O_CMPXCHG,
  O_XCHG, O_XCHGM, O_XADD, O_LEA, O_SETCC, O_CMOV, O_MOVX, O_BITCNT, O_HI8, O_BT,
  // vectors
  O_VMOV, O_VSTORE, O_VALU, O_VSHI, O_VSHUFD, O_VBCAST, O_VEXTR, O_VINS, O_VFROMG, O_VTOG, O_VPINS, O_VPEXT, O_VMSKB,
  O_VTERN, O_VALUK, O_VCMPK, O_VM2V, O_V2M, O_VGATHER,
  // masks
  O_KFROMG, O_KTOG, O_KLOAD, O_KSTORE, O_KMOV, O_KALU, O_KNOT, O_KSHI, O_KSET,
  // scalar double (bit pattern only)
  O_DFROMG, O_DTOG, O_DLOAD, O_DSTORE, O_DMOV,
  // calls
  O_CALL,
  O__COUNT
};

static const char* const kOpNames[] = {
  "nop",
  "mov", "store", "alu", "alum", "adc2", "un", "unm", "shi", "shc", "imul2", "imul3", "mul1", "div", "cmpxchg",
  "xchg", "xchgm", "xadd", "lea", "setcc", "cmov", "movx", "bitcnt", "hi8", "bt",
  "vmov", "vstore", "valu", "vshi", "vshufd", "vbcast", "vextr", "vins", "vfromg", "vtog", "vpins", "vpext", "vmskb",
  "vtern", "valuk", "vcmpk", "vm2v", "v2m", "vgather",
  "kfromg", "ktog", "kload", "kstore", "kmov", "kalu", "knot", "kshi", "kset",
  "dfromg", "dtog", "dload", "dstore", "dmov",
  "call"
};

enum : u8 { A_ADD = 0, A_SUB, A_AND, A_OR, A_XOR, A__N };
enum : u8 { U_NEG = 0, U_NOT, U_INC, U_DEC, U_BSWAP, U__N };
enum : u8 { SH_SHL = 0, SH_SHR, SH_SAR, SH_ROL, SH_ROR, SH__N };
enum : u8 { BC_POPCNT = 0, BC_LZCNT, BC_TZCNT };
enum : u8 { CC_E = 0, CC_NE, CC_B, CC_AE, CC_BE, CC_A, CC_L, CC_GE, CC_LE, CC_G, CC_S, CC_NS, CC__N };

// vector ALU sub-operations
enum : u8 {
  VA_PADDB = 0, VA_PADDW, VA_PADDD, VA_PADDQ, VA_PSUBB, VA_PSUBW, VA_PSUBD, VA_PSUBQ, VA_PXOR, VA_PAND, VA_POR, VA_PANDN,
  VA_PMULLD, VA_PMULLW, VA_PMINUD, VA_PMAXSD, VA_PMINUB, VA_PMAXSW, VA_PCMPEQD, VA_PCMPGTD, VA_PCMPEQB, VA_PUNPCKLDQ,
  VA_PUNPCKHQDQ, VA_PSHUFB, VA_PAVGB, VA_PADDUSB, VA__N
};
enum : u8 { VS_PSLLW = 0, VS_PSLLD, VS_PSLLQ, VS_PSRLW, VS_PSRLD, VS_PSRLQ, VS_PSRAW, VS_PSRAD, VS__N };
enum : u8 { KA_AND = 0, KA_OR, KA_XOR, KA_ANDN, KA_XNOR, KA_ADD, KA__N };

struct Op {
  u16 opc = O_NOP;
  u8 sub = 0;
  u8 w = 0;     // operation width (bytes)
  u8 w2 = 0;    // second width (compare width, source width, ...)
  u8 cc = 0;
  u8 flag = 0;  // op specific (zeroing, signed, test-instead-of-cmp, ...)
  int d = -1, d2 = -1, a = -1, b = -1, c = -1;
  Src s, s2;
  i64 imm = 0;
  std::vector<Src> args;  // call arguments
};

enum : u8 { T_FALL = 0, T_JMP, T_BR, T_DEC, T_SWITCH, T_RET };

struct Term {
  u8 kind = T_FALL;
  u8 cc = 0;
  u8 w = 4;
  u8 test = 0;      // use test instead of cmp
  int a = -1;       // compared value / counter / switch index
  Src s;            // second compare operand
  int target = -1;
  std::vector<int> targets;  // switch
};

struct Block {
  std::vector<Op> ops;
  Term term;
  bool fuel = false;  // block starts with "sub fuel,1 ; js final"
  u8 data_after = 0;  // number of dwords of data embedded (inside the function) right after this block's unconditional terminator
  u8 data_kind = 0;   // 0: dwords that would trap when executed, 1: pseudo-random dwords
};

enum : u8 { MODE_SSE = 0, MODE_AVX = 1, MODE_AVX512 = 2 };
enum : u8 { ARCH_X64 = 0, ARCH_X86 = 1, ARCH_A64 = 2 };

struct Program {
  std::vector<ValDef> vals;
  std::vector<Block> blocks;   // block 0 = entry (never a jump target), last block = final (dump + ret)
  u8 arch = ARCH_X64;
  u8 mode = MODE_SSE;
  u8 sigclass = 0;             // signature class of the generated function
  u8 cconv = 0;                // x86-32: calling convention variant
  int retval = -1;             // returned value (G or D), -1 = void
  int fuel = -1;               // fuel counter value (G4)
  int fuel_init = 40;
  bool tables_inside = false;  // jump tables are embedded inside the function (after the final ret) instead of after end_func()
  bool preserved_fp = false;   // FuncFrame::set_preserved_fp()
  int phys_k = 0;              // physical mask register used by some masked ops (reserved via FuncFrame::add_unavailable_regs)
  std::vector<int> argbind;    // function argument index (after the buffer pointer) -> value or -1
  bool use_stack = false;
  std::string profile;
  std::string shape;
};

static const int DATA_SIZE = 512;       // body loads/stores live in [0, DATA_SIZE)
static const int DUMP_OFF = 512;        // final dump of value i at DUMP_OFF + i*64
static const int MAX_VALS = 320;
static const int BUF_SIZE = DUMP_OFF + MAX_VALS * 64;
static const int STK_SIZE = 128;

static inline u64 maskw(int w) { return w >= 8 ? ~0ull : ((1ull << (8 * w)) - 1); }
static inline i64 sextw(u64 x, int w) {
  switch (w) {
    case 1: return (i64)(int8_t)x;
    case 2: return (i64)(int16_t)x;
    case 4: return (i64)(int32_t)x;
    default: return (i64)x;
  }
}
static inline u64 mix64(u64 z) {
  z += 0x9E3779B97F4A7C15ull;
  z = (z ^ (z >> 30)) * 0xBF58476D1CE4E5B9ull;
  z = (z ^ (z >> 27)) * 0x94D049BB133111EBull;
  return z ^ (z >> 31);
}

static inline u32 embedded_word(int arch, int kind, int block, int i) {
  if (kind == 0) return arch == 2 /* a64: udf #0 */ ? 0u : 0x0B0F0B0Fu /* ud2 ; ud2 */;
  return (u32)mix64((u64)block * 977 + (u64)i * 13 + 5);
}

static void const_data(int seed, u8 out[64]) {
  u64 s = mix64((u64)seed * 0x100000001B3ull + 77);
  for (int i = 0; i < 8; i++) { s = mix64(s + i); memcpy(out + i * 8, &s, 8); }
}

// ---------------------------------------------------------------------------------------------------------------
// Helper callees (C functions called from generated code). Every call is logged.
// ---------------------------------------------------------------------------------------------------------------

static const int MAXARGS = 26;   // up to 14 integer + 12 floating-point arguments
struct CallRec { u32 callee; u32 n; u64 a[MAXARGS]; };

enum : u8 { AK_U8 = 0, AK_U16, AK_U32, AK_U64, AK_F64 };
enum : u8 { RK_VOID = 0, RK_U32, RK_U64, RK_F64 };
struct CalleeSig { u8 n; u8 kind[MAXARGS]; u8 ret; };

static const int NCALLEE_OLD = 24;
static const int NCALLEE = 34;
static CalleeSig g_sigs[NCALLEE];

static CallRec* g_log = nullptr;
static volatile u32* g_logn = nullptr;
static u32 g_logcap = 0;
static bool g_trash_avx512 = false;
static bool g_trash_avx = false;

static void init_callee_sigs() {
  // fixed table (independent of the seed so that witnesses are stable)
  Rng r(0xC05C05);
  for (int i = 0; i < NCALLEE_OLD; i++) {
    CalleeSig& s = g_sigs[i];
    int n;
    if (i == 0) n = 0;
    else if (i < 6) n = i;                 // 1..5 (registers only)
    else if (i < 12) n = 6 + (i - 6);      // 6..11
    else n = (int)r.range(0, 12);
    if (i == 12) n = 12;
    s.n = (u8)n;
    int style = i % 4;  // 0: ints, 1: mixed, 2: doubles, 3: mixed narrow
    for (int k = 0; k < n; k++) {
      u8 kd;
      switch (style) {
        case 0: kd = r.chance(1, 2) ? AK_U64 : AK_U32; break;
        case 2: kd = r.chance(3, 4) ? AK_F64 : AK_U64; break;
        case 3: kd = (u8)r.below(5); break;
        default: kd = r.chance(1, 2) ? AK_F64 : (r.chance(1, 2) ? AK_U64 : AK_U32); break;
      }
      s.kind[k] = kd;
    }
    s.ret = (u8)(i % 5 == 4 ? RK_VOID : (i % 3 == 0 ? RK_F64 : (i % 3 == 1 ? RK_U64 : RK_U32)));
  }
  // callees with many arguments (0..14 integer, 0..12 floating point, interleaved): between 0 and 96 bytes of stack arguments on SysV x86-64
  static const u8 big[NCALLEE - NCALLEE_OLD][2] = { {14, 0}, {14, 12}, {7, 9}, {10, 2}, {0, 12}, {9, 0}, {3, 10}, {14, 4}, {8, 8}, {12, 11} };
  Rng q(0xB16CA11);
  for (int i = NCALLEE_OLD; i < NCALLEE; i++) {
    CalleeSig& s = g_sigs[i];
    int ni = big[i - NCALLEE_OLD][0], nd = big[i - NCALLEE_OLD][1];
    s.n = (u8)(ni + nd);
    int k = 0;
    while (ni + nd > 0) {
      bool pick_d = nd > 0 && (ni == 0 || q.below((u64)(ni + nd)) < (u64)nd);
      if (pick_d) { s.kind[k++] = AK_F64; nd--; }
      else { s.kind[k++] = (u8)(i % 3 == 2 ? q.below(4) : (q.chance(1, 2) ? AK_U64 : AK_U32)); ni--; }
    }
    s.ret = (u8)(i % 4 == 0 ? RK_VOID : (i % 4 == 1 ? RK_U64 : (i % 4 == 2 ? RK_F64 : RK_U32)));
  }
}

// bytes of stack arguments of a callee under the SysV x86-64 convention
static int callee_stack_bytes(int id) {
  const CalleeSig& s = g_sigs[id];
  int ni = 0, nd = 0;
  for (int k = 0; k < s.n; k++) { if (s.kind[k] == AK_F64) nd++; else ni++; }
  return 8 * ((ni > 6 ? ni - 6 : 0) + (nd > 8 ? nd - 8 : 0));
}

static inline u64 callee_result(u32 id, u32 n, const u64* a) {
  u64 h = mix64(0xABCDEF00ull + id);
  for (u32 i = 0; i < n; i++) h = mix64(h ^ a[i]) + i;
  return h;
}

static NOSAN void trash_caller_saved() {
  asm volatile(
    "movabs $0x5A5AA5A5C3C33C3C, %%rcx\n"
    "mov %%rcx, %%rdx\n mov %%rcx, %%rsi\n mov %%rcx, %%rdi\n"
    "mov %%rcx, %%r8\n mov %%rcx, %%r9\n mov %%rcx, %%r10\n mov %%rcx, %%r11\n"
    "movq %%rcx, %%xmm0\n punpcklqdq %%xmm0, %%xmm0\n"
    "movdqa %%xmm0, %%xmm1\n movdqa %%xmm0, %%xmm2\n movdqa %%xmm0, %%xmm3\n movdqa %%xmm0, %%xmm4\n"
    "movdqa %%xmm0, %%xmm5\n movdqa %%xmm0, %%xmm6\n movdqa %%xmm0, %%xmm7\n movdqa %%xmm0, %%xmm8\n"
    "movdqa %%xmm0, %%xmm9\n movdqa %%xmm0, %%xmm10\n movdqa %%xmm0, %%xmm11\n movdqa %%xmm0, %%xmm12\n"
    "movdqa %%xmm0, %%xmm13\n movdqa %%xmm0, %%xmm14\n movdqa %%xmm0, %%xmm15\n"
    ::: "rcx", "rdx", "rsi", "rdi", "r8", "r9", "r10", "r11", "xmm0", "xmm1", "xmm2", "xmm3", "xmm4", "xmm5", "xmm6",
        "xmm7", "xmm8", "xmm9", "xmm10", "xmm11", "xmm12", "xmm13", "xmm14", "xmm15", "cc", "memory");
  if (g_trash_avx512) {
    asm volatile(
      "vpternlogd $0xFF, %%zmm0, %%zmm0, %%zmm0\n"
      "vmovdqa64 %%zmm0, %%zmm1\n vmovdqa64 %%zmm0, %%zmm2\n vmovdqa64 %%zmm0, %%zmm3\n vmovdqa64 %%zmm0, %%zmm4\n"
      "vmovdqa64 %%zmm0, %%zmm5\n vmovdqa64 %%zmm0, %%zmm6\n vmovdqa64 %%zmm0, %%zmm7\n vmovdqa64 %%zmm0, %%zmm8\n"
      "vmovdqa64 %%zmm0, %%zmm9\n vmovdqa64 %%zmm0, %%zmm10\n vmovdqa64 %%zmm0, %%zmm11\n vmovdqa64 %%zmm0, %%zmm12\n"
      "vmovdqa64 %%zmm0, %%zmm13\n vmovdqa64 %%zmm0, %%zmm14\n vmovdqa64 %%zmm0, %%zmm15\n vmovdqa64 %%zmm0, %%zmm16\n"
      "vmovdqa64 %%zmm0, %%zmm17\n vmovdqa64 %%zmm0, %%zmm18\n vmovdqa64 %%zmm0, %%zmm19\n vmovdqa64 %%zmm0, %%zmm20\n"
      "vmovdqa64 %%zmm0, %%zmm21\n vmovdqa64 %%zmm0, %%zmm22\n vmovdqa64 %%zmm0, %%zmm23\n vmovdqa64 %%zmm0, %%zmm24\n"
      "vmovdqa64 %%zmm0, %%zmm25\n vmovdqa64 %%zmm0, %%zmm26\n vmovdqa64 %%zmm0, %%zmm27\n vmovdqa64 %%zmm0, %%zmm28\n"
      "vmovdqa64 %%zmm0, %%zmm29\n vmovdqa64 %%zmm0, %%zmm30\n vmovdqa64 %%zmm0, %%zmm31\n"
      "kxnorq %%k0, %%k0, %%k1\n kxnorq %%k0, %%k0, %%k2\n kxnorq %%k0, %%k0, %%k3\n kxnorq %%k0, %%k0, %%k4\n"
      "kxnorq %%k0, %%k0, %%k5\n kxnorq %%k0, %%k0, %%k6\n kxnorq %%k0, %%k0, %%k7\n kxnorq %%k0, %%k0, %%k0\n"
      ::: "xmm0", "xmm1", "xmm2", "xmm3", "xmm4", "xmm5", "xmm6", "xmm7", "xmm8", "xmm9", "xmm10", "xmm11", "xmm12",
          "xmm13", "xmm14", "xmm15", "memory");
  }
  else if (g_trash_avx) {
    asm volatile(
      "vpcmpeqd %%ymm0, %%ymm0, %%ymm0\n"
      "vmovdqa %%ymm0, %%ymm1\n vmovdqa %%ymm0, %%ymm2\n vmovdqa %%ymm0, %%ymm3\n vmovdqa %%ymm0, %%ymm4\n"
      "vmovdqa %%ymm0, %%ymm5\n vmovdqa %%ymm0, %%ymm6\n vmovdqa %%ymm0, %%ymm7\n vmovdqa %%ymm0, %%ymm8\n"
      "vmovdqa %%ymm0, %%ymm9\n vmovdqa %%ymm0, %%ymm10\n vmovdqa %%ymm0, %%ymm11\n vmovdqa %%ymm0, %%ymm12\n"
      "vmovdqa %%ymm0, %%ymm13\n vmovdqa %%ymm0, %%ymm14\n vmovdqa %%ymm0, %%ymm15\n"
      ::: "xmm0", "xmm1", "xmm2", "xmm3", "xmm4", "xmm5", "xmm6", "xmm7", "xmm8", "xmm9", "xmm10", "xmm11", "xmm12",
          "xmm13", "xmm14", "xmm15", "memory");
  }
}

static inline u64 dbits(double d) { u64 x; memcpy(&x, &d, 8); return x; }
static inline double bitsd(u64 x) { double d; memcpy(&d, &x, 8); return d; }

// SysV x86-64: integer and floating arguments are assigned independently, so one prototype with 6 integer
// registers, 8 vector registers and 12 stack slots receives every mixed signature of up to 12 arguments.
static NOSAN u64 callee_common(u32 id, const u64* ir, const double* dr, const u64* st) {
  const CalleeSig& sg = g_sigs[id];
  u64 a[MAXARGS];
  int ni = 0, nd = 0, ns = 0;
  for (int k = 0; k < sg.n; k++) {
    u64 v;
    if (sg.kind[k] == AK_F64) {
      if (nd < 8) v = dbits(dr[nd++]); else v = st[ns++];
    }
    else {
      if (ni < 6) v = ir[ni++]; else v = st[ns++];
      switch (sg.kind[k]) {
        case AK_U8: v &= 0xFF; break;
        case AK_U16: v &= 0xFFFF; break;
        case AK_U32: v &= 0xFFFFFFFFull; break;
        default: break;
      }
    }
    a[k] = v;
  }
  u32 n = *g_logn;
  if (n < g_logcap) {
    CallRec& r = g_log[n];
    r.callee = id;
    r.n = sg.n;
    for (int k = 0; k < MAXARGS; k++) r.a[k] = k < sg.n ? a[k] : 0;
  }
  *g_logn = n + 1;
  return callee_result(id, sg.n, a);
}

#define RECV_PARAMS u64 i0, u64 i1, u64 i2, u64 i3, u64 i4, u64 i5, double d0, double d1, double d2, double d3, \
  double d4, double d5, double d6, double d7, u64 s0, u64 s1, u64 s2, u64 s3, u64 s4, u64 s5, u64 s6, u64 s7, u64 s8, \
  u64 s9, u64 s10, u64 s11
#define RECV_GATHER \
  u64 ir[6] = { i0, i1, i2, i3, i4, i5 }; \
  double dr[8] = { d0, d1, d2, d3, d4, d5, d6, d7 }; \
  u64 st[12] = { s0, s1, s2, s3, s4, s5, s6, s7, s8, s9, s10, s11 };

template<int ID> static NOSAN __attribute__((noinline)) u64 recvI(RECV_PARAMS) {
  RECV_GATHER
  volatile u64 r = callee_common(ID, ir, dr, st);
  trash_caller_saved();
  return r;
}
template<int ID> static NOSAN __attribute__((noinline)) double recvD(RECV_PARAMS) {
  RECV_GATHER
  volatile u64 r = callee_common(ID, ir, dr, st);
  trash_caller_saved();
  return bitsd(r);
}

static void* g_callee_ptr[NCALLEE];
template<int ID> struct CalleeInit {
  static void run() {
    g_callee_ptr[ID] = g_sigs[ID].ret == RK_F64 ? (void*)&recvD<ID> : (void*)&recvI<ID>;
    CalleeInit<ID - 1>::run();
  }
};
template<> struct CalleeInit<-1> { static void run() {} };

// ---------------------------------------------------------------------------------------------------------------
// Reference interpreter (unbounded virtual registers, byte-granular definedness tracking)
// ---------------------------------------------------------------------------------------------------------------

struct IVal { u8 b[64]; u64 def; };

struct RunInput {
  u8 data[DATA_SIZE];
  u64 iargs[20];    // integer arguments a1..a20 (always passed as full 64-bit values: the bits above a narrow parameter are junk)
  u64 dargs[17];    // double arguments (bit patterns)
};

struct RunResult {
  u64 ret = 0;
  std::vector<u8> buf;
  std::vector<CallRec> calls;
  u64 ncalls = 0;
};

// number/kind of function arguments after the buffer pointer per signature class
// (Globals::kMaxFuncArgs = 32 limits a signature to 31 parameters after the buffer pointer)
// isz: parameter size in bytes, +16 = signed (int8/int16/int32 instead of uint8/uint16/uint32)
struct SigClass { int ni; u8 isz[20]; int nd; };
static const int NSIGCLASS = 7;
static inline int psize(u8 t) { return t & 15; }
static inline bool psigned(u8 t) { return (t & 16) != 0; }
static const SigClass kSigClasses[NSIGCLASS] = {
  { 0, {0}, 0 },
  { 3, {8, 4, 8}, 0 },
  { 8, {8, 4, 8, 8, 4, 8, 4, 8}, 9 },
  { 14, {8, 4, 8, 8, 4, 8, 4, 8, 8, 4, 8, 8, 4, 8}, 17 },        // 9 integer and 9 double parameters on the stack (SysV x86-64)
  { 15, {8, 8, 4, 8, 4, 8, 8, 4, 8, 8, 4, 8, 4, 8, 8}, 10 },
  { 4, {8, 4, 8, 8}, 12 },
  // 20 narrow integer parameters (14 of them in 8-byte stack slots whose upper bytes are undefined)
  { 20, {4, 20, 1, 18, 2, 17, 4, 20, 20, 4, 2, 18, 4, 20, 1, 17, 4, 20, 4, 20}, 0 },
};

struct Interp {
  const Program& P;
  std::vector<IVal> v;
  std::vector<u8> buf;
  u8 stk[STK_SIZE];
  u8 stkdef[STK_SIZE];
  std::vector<CallRec> calls;
  u64 ncalls = 0;
  u64 steps = 0;
  int trace_val = -1;
  bool bad = false;          // program not well-defined on this input (generator/shrinker error)
  std::string badmsg;
  int ptrw;

  Interp(const Program& p) : P(p), v(p.vals.size()), buf(BUF_SIZE, 0) {
    ptrw = p.arch == ARCH_X86 ? 4 : 8;
    memset(stk, 0, sizeof stk);
    memset(stkdef, 0, sizeof stkdef);
    for (auto& x : v) { memset(x.b, 0, 64); x.def = 0; }
  }

  void fail(const std::string& m) { if (!bad) { bad = true; badmsg = m; } }

  static inline u64 bytes_mask(int off, int n) { return (n >= 64 ? ~0ull : ((1ull << n) - 1)) << off; }

  // ---- raw access ----
  u64 rd_raw(int vi, int off, int n) {
    IVal& x = v[vi];
    if ((x.def & bytes_mask(off, n)) != bytes_mask(off, n)) fail("read of undefined bytes of v" + std::to_string(vi));
    u64 r = 0;
    memcpy(&r, x.b + off, n > 8 ? 8 : n);
    return r;
  }
  void need(int vi, int off, int n) {
    if ((v[vi].def & bytes_mask(off, n)) != bytes_mask(off, n)) fail("read of undefined bytes of v" + std::to_string(vi));
  }

  // ---- GP ----
  u64 G(int vi, int w) {
    if (P.vals[vi].kind != KIND_G || P.vals[vi].size < w) fail("bad gp read");
    return rd_raw(vi, 0, w) & maskw(w);
  }
  void SG(int vi, int w, u64 x) {
    const ValDef& d = P.vals[vi];
    if (d.kind != KIND_G || d.size < w) { fail("bad gp write"); return; }
    IVal& iv = v[vi];
    x &= maskw(w);
    if (w == 4 && d.size == 8) { memcpy(iv.b, &x, 8); iv.def |= 0xFF; }
    else { memcpy(iv.b, &x, w); iv.def |= bytes_mask(0, w); }
  }

  // ---- memory ----
  u8* mem_ptr(const MemRef& m, int size, bool write) {
    i64 addr = m.off;
    if (m.space == M_CONST) { fail("const pool address taken"); return nullptr; }
    if (m.idx >= 0) {
      u64 iv = G(m.idx, P.vals[m.idx].size < ptrw ? P.vals[m.idx].size : ptrw);
      addr += (i64)(iv << m.shift);
    }
    if (m.space == M_BUF) {
      i64 lim = m.idx >= 0 ? DATA_SIZE : BUF_SIZE;
      if (addr < 0 || addr + size > lim) { fail("buffer access out of range"); return nullptr; }
      return buf.data() + addr;
    }
    if (addr < 0 || addr + size > STK_SIZE) { fail("stack access out of range"); return nullptr; }
    if (write) memset(stkdef + addr, 1, size);
    else for (int i = 0; i < size; i++) if (!stkdef[addr + i]) { fail("read of undefined stack bytes"); break; }
    return stk + addr;
  }
  void mem_rd(const MemRef& m, int size, u8* out) {
    if (m.space == M_CONST) {
      u8 c[64]; const_data(m.off, c); memcpy(out, c, size); return;
    }
    u8* p = mem_ptr(m, size, false);
    if (p) memcpy(out, p, size); else memset(out, 0, size);
  }
  void mem_wr(const MemRef& m, int size, const u8* in) {
    u8* p = mem_ptr(m, size, true);
    if (p) memcpy(p, in, size);
  }
  u64 mem_rd64(const MemRef& m, int w) { u64 x = 0; mem_rd(m, w, (u8*)&x); return x; }
  void mem_wr64(const MemRef& m, int w, u64 x) { mem_wr(m, w, (const u8*)&x); }

  u64 RS(const Src& s, int w) {
    switch (s.t) {
      case S_REG: return G(s.v, w);
      case S_IMM: return (u64)s.imm & maskw(w);
      case S_MEM: return mem_rd64(s.m, w) & maskw(w);
      default: fail("missing source"); return 0;
    }
  }

  // ---- vectors ----
  void VR(int vi, int n, u8* out) {  // read low n bytes
    const ValDef& d = P.vals[vi];
    if ((d.kind != KIND_V && d.kind != KIND_D) || d.size < n) { fail("bad vec read"); memset(out, 0, n); return; }
    need(vi, 0, n);
    memcpy(out, v[vi].b, n);
  }
  void VW(int vi, int n, const u8* in) {  // write n bytes, zero the rest of the value (VEX/EVEX semantics)
    const ValDef& d = P.vals[vi];
    if ((d.kind != KIND_V && d.kind != KIND_D) || d.size < n) { fail("bad vec write"); return; }
    memset(v[vi].b, 0, 64);
    memcpy(v[vi].b, in, n);
    v[vi].def |= bytes_mask(0, d.size);
  }
  void VWpartial(int vi, int n, const u8* in) {  // legacy SSE: upper part preserved (only used when n == size)
    VW(vi, n, in);
  }
  void VSRC(const Src& s, int n, u8* out) {
    if (s.t == S_REG) VR(s.v, n, out);
    else if (s.t == S_MEM) mem_rd(s.m, n, out);
    else { fail("bad vec source"); memset(out, 0, n); }
  }

  // ---- masks ----
  u64 K(int vi, int w) {
    if (P.vals[vi].kind != KIND_K || P.vals[vi].size < w) fail("bad k read");
    return rd_raw(vi, 0, w) & maskw(w);
  }
  u64 KM(int vi, int nbits) {  // mask operand controlling nbits elements
    const ValDef& d = P.vals[vi];
    if (d.kind != KIND_K || d.size * 8 < nbits) { fail("bad mask operand"); return 0; }
    u64 k = K(vi, d.size);
    return nbits >= 64 ? k : (k & ((1ull << nbits) - 1));
  }
  void SK(int vi, u64 x) {
    const ValDef& d = P.vals[vi];
    if (d.kind != KIND_K) { fail("bad k write"); return; }
    x &= maskw(d.size);
    memcpy(v[vi].b, &x, 8);
    v[vi].def |= bytes_mask(0, d.size);
  }

  // ---- D (scalar double bit pattern in the low 8 bytes of a vector register) ----
  u64 D(int vi) {
    const ValDef& d = P.vals[vi];
    if (d.kind != KIND_D && d.kind != KIND_V) fail("bad d read");
    return rd_raw(vi, 0, 8);
  }
  void SD(int vi, u64 x) {
    const ValDef& d = P.vals[vi];
    if (d.kind == KIND_D) { memcpy(v[vi].b, &x, 8); v[vi].def |= 0xFF; }
    else fail("bad d write");
  }

  static bool cond(int cc, u64 a, u64 b, int w, bool test) {
    u64 m = maskw(w);
    a &= m; b &= m;
    if (test) {
      u64 r = a & b;
      switch (cc) {
        case CC_E: return r == 0;
        case CC_NE: return r != 0;
        case CC_S: return (r >> (8 * w - 1)) & 1;
        case CC_NS: return !((r >> (8 * w - 1)) & 1);
        // CF = OF = 0 after test
        case CC_B: return false;
        case CC_AE: return true;
        case CC_BE: return r == 0;
        case CC_A: return r != 0;
        case CC_L: return (r >> (8 * w - 1)) & 1;
        case CC_GE: return !((r >> (8 * w - 1)) & 1);
        case CC_LE: return r == 0 || ((r >> (8 * w - 1)) & 1);
        case CC_G: return r != 0 && !((r >> (8 * w - 1)) & 1);
      }
      return false;
    }
    i64 sa = sextw(a, w), sb = sextw(b, w);
    u64 r = (a - b) & m;
    switch (cc) {
      case CC_E: return a == b;
      case CC_NE: return a != b;
      case CC_B: return a < b;
      case CC_AE: return a >= b;
      case CC_BE: return a <= b;
      case CC_A: return a > b;
      case CC_L: return sa < sb;
      case CC_GE: return sa >= sb;
      case CC_LE: return sa <= sb;
      case CC_G: return sa > sb;
      case CC_S: return (r >> (8 * w - 1)) & 1;
      case CC_NS: return !((r >> (8 * w - 1)) & 1);
    }
    return false;
  }

  static u64 alu(int sub, u64 a, u64 b) {
    switch (sub) {
      case A_ADD: return a + b;
      case A_SUB: return a - b;
      case A_AND: return a & b;
      case A_OR: return a | b;
      default: return a ^ b;
    }
  }

  static u64 shift(int sub, u64 x, unsigned cnt, int w) {
    int bits = w * 8;
    u64 m = maskw(w);
    cnt &= (w == 8 ? 63 : 31);
    x &= m;
    switch (sub) {
      case SH_SHL: return (int)cnt >= bits ? 0 : (x << cnt) & m;
      case SH_SHR: return (int)cnt >= bits ? 0 : (x >> cnt);
      case SH_SAR: return (u64)(sextw(x, w) >> cnt) & m;
      case SH_ROL: cnt %= bits; return cnt ? ((x << cnt) | (x >> (bits - cnt))) & m : x;
      default: cnt %= bits; return cnt ? ((x >> cnt) | (x << (bits - cnt))) & m : x;
    }
  }

  static u64 un(int sub, u64 x, int w) {
    switch (sub) {
      case U_NEG: return (0 - x);
      case U_NOT: return ~x;
      case U_INC: return x + 1;
      case U_DEC: return x - 1;
      default: return w == 8 ? __builtin_bswap64(x) : (u64)__builtin_bswap32((u32)x);
    }
  }

  // vector lane helpers
  static u64 lane(const u8* p, int i, int esz) { u64 x = 0; memcpy(&x, p + i * esz, esz); return x; }
  static void setlane(u8* p, int i, int esz, u64 x) { memcpy(p + i * esz, &x, esz); }

  static int valu_esz(int sub) {
    switch (sub) {
      case VA_PADDB: case VA_PSUBB: case VA_PMINUB: case VA_PCMPEQB: case VA_PSHUFB: case VA_PAVGB: case VA_PADDUSB: return 1;
      case VA_PADDW: case VA_PSUBW: case VA_PMULLW: case VA_PMAXSW: return 2;
      case VA_PADDQ: case VA_PSUBQ: case VA_PUNPCKHQDQ: return 8;
      default: return 4;
    }
  }

  static void valu(int sub, const u8* a, const u8* b, u8* out, int L) {
    int esz = valu_esz(sub);
    int n = L / esz;
    switch (sub) {
      case VA_PXOR: for (int i = 0; i < L; i++) out[i] = a[i] ^ b[i]; return;
      case VA_PAND: for (int i = 0; i < L; i++) out[i] = a[i] & b[i]; return;
      case VA_POR: for (int i = 0; i < L; i++) out[i] = a[i] | b[i]; return;
      case VA_PANDN: for (int i = 0; i < L; i++) out[i] = (u8)(~a[i] & b[i]); return;
      case VA_PUNPCKLDQ:
        for (int l = 0; l < L; l += 16) {
          u8 t[16];
          memcpy(t + 0, a + l + 0, 4); memcpy(t + 4, b + l + 0, 4); memcpy(t + 8, a + l + 4, 4); memcpy(t + 12, b + l + 4, 4);
          memcpy(out + l, t, 16);
        }
        return;
      case VA_PUNPCKHQDQ:
        for (int l = 0; l < L; l += 16) {
          u8 t[16];
          memcpy(t, a + l + 8, 8); memcpy(t + 8, b + l + 8, 8);
          memcpy(out + l, t, 16);
        }
        return;
      case VA_PSHUFB:
        for (int l = 0; l < L; l += 16) {
          u8 t[16];
          for (int i = 0; i < 16; i++) t[i] = (b[l + i] & 0x80) ? 0 : a[l + (b[l + i] & 15)];
          memcpy(out + l, t, 16);
        }
        return;
      default: break;
    }
    u8 t[64];
    for (int i = 0; i < n; i++) {
      u64 x = lane(a, i, esz), y = lane(b, i, esz), r = 0;
      u64 m = maskw(esz);
      switch (sub) {
        case VA_PADDB: case VA_PADDW: case VA_PADDD: case VA_PADDQ: r = x + y; break;
        case VA_PSUBB: case VA_PSUBW: case VA_PSUBD: case VA_PSUBQ: r = x - y; break;
        case VA_PMULLD: case VA_PMULLW: r = x * y; break;
        case VA_PMINUD: case VA_PMINUB: r = x < y ? x : y; break;
        case VA_PMAXSD: case VA_PMAXSW: r = sextw(x, esz) > sextw(y, esz) ? x : y; break;
        case VA_PCMPEQD: case VA_PCMPEQB: r = x == y ? m : 0; break;
        case VA_PCMPGTD: r = sextw(x, esz) > sextw(y, esz) ? m : 0; break;
        case VA_PAVGB: r = (x + y + 1) >> 1; break;
        case VA_PADDUSB: r = x + y > 255 ? 255 : x + y; break;
      }
      setlane(t, i, esz, r & m);
    }
    memcpy(out, t, L);
  }

  static void vshi(int sub, const u8* a, unsigned cnt, u8* out, int L) {
    int esz = (sub == VS_PSLLW || sub == VS_PSRLW || sub == VS_PSRAW) ? 2 : (sub == VS_PSLLQ || sub == VS_PSRLQ) ? 8 : 4;
    int bits = esz * 8;
    int n = L / esz;
    u8 t[64];
    for (int i = 0; i < n; i++) {
      u64 x = lane(a, i, esz), r;
      switch (sub) {
        case VS_PSLLW: case VS_PSLLD: case VS_PSLLQ: r = (int)cnt >= bits ? 0 : x << cnt; break;
        case VS_PSRLW: case VS_PSRLD: case VS_PSRLQ: r = (int)cnt >= bits ? 0 : x >> cnt; break;
        default: r = (u64)(sextw(x, esz) >> ((int)cnt >= bits ? bits - 1 : (int)cnt)); break;
      }
      setlane(t, i, esz, r & maskw(esz));
    }
    memcpy(out, t, L);
  }

  void exec_op(const Op& o) {
    steps++;
    int w = o.w;
    switch (o.opc) {
      case O_NOP: break;
      case O_MOV: SG(o.d, w, RS(o.s, w)); break;
      case O_STORE: mem_wr64(o.s2.m, w, RS(o.s, w)); break;
      case O_ALU: SG(o.d, w, alu(o.sub, G(o.d, w), RS(o.s, w))); break;
      case O_ALUM: { u64 x = mem_rd64(o.s2.m, w); mem_wr64(o.s2.m, w, alu(o.sub, x, RS(o.s, w)) & maskw(w)); break; }
      case O_ADC2: {
        // add/sub d, s ; adc/sbb d2, s2
        u64 m = maskw(w);
        u64 x = G(o.d, w), y = RS(o.s, w);
        u64 hx = G(o.d2, w), hy = RS(o.s2, w);
        if (o.sub == 0) {
          u64 lo = (x + y) & m; u64 carry = lo < x ? 1 : 0;
          SG(o.d, w, lo); SG(o.d2, w, hx + hy + carry);
        }
        else {
          u64 lo = (x - y) & m; u64 borrow = x < y ? 1 : 0;
          SG(o.d, w, lo); SG(o.d2, w, hx - hy - borrow);
        }
        break;
      }
      case O_UN: SG(o.d, w, un(o.sub, G(o.d, w), w)); break;
      case O_UNM: { u64 x = mem_rd64(o.s2.m, w); mem_wr64(o.s2.m, w, un(o.sub, x, w) & maskw(w)); break; }
      case O_SHI: SG(o.d, w, shift(o.sub, G(o.d, w), (unsigned)o.imm, w)); break;
      case O_SHC: { unsigned c = (unsigned)G(o.c, 1); SG(o.d, w, shift(o.sub, G(o.d, w), c, w)); break; }
      case O_IMUL2: SG(o.d, w, G(o.d, w) * RS(o.s, w)); break;
      case O_IMUL3: SG(o.d, w, RS(o.s, w) * (u64)o.imm); break;
      case O_MUL1: {
        // (d2:d) = d * s ; flag: signed
        u64 x = G(o.d, w), y = RS(o.s, w);
        u64 lo, hi;
        if (o.flag) { i128 p = (i128)sextw(x, w) * (i128)sextw(y, w); lo = (u64)p; hi = w == 8 ? (u64)(p >> 64) : (u64)((i64)p >> (8 * w)); }
        else { u128 p = (u128)x * (u128)y; lo = (u64)p; hi = w == 8 ? (u64)(p >> 64) : (u64)((u64)p >> (8 * w)); }
        SG(o.d, w, lo);
        SG(o.d2, w, hi);
        break;
      }
      case O_DIV: {
        // guarded: divisor t = s|1 (unsigned) or ((s>>1)|1) (signed, positive); d2:d / t -> d = quotient, d2 = remainder
        u64 sv = RS(o.s, w);
        u64 x = G(o.d, w);
        if (!o.flag) {
          u64 t = (sv | 1) & maskw(w);
          SG(o.d2, w, 0);
          SG(o.d, w, x / t);
          SG(o.d2, w, x % t);
        }
        else {
          i64 t = (i64)(((sv & maskw(w)) >> 1) | 1);
          i64 sx = sextw(x, w);
          SG(o.d2, w, sx < 0 ? ~0ull : 0);
          SG(o.d, w, (u64)(sx / t));
          SG(o.d2, w, (u64)(sx % t));
        }
        break;
      }
      case O_CMPXCHG: {
        // cmpxchg D, s, acc(c): D = register d or memory s2 ; flag: setz into d2
        u64 acc = G(o.c, w), sv = G(o.a, w);
        bool eq;
        if (o.s2.t == S_MEM) {
          u64 dv = mem_rd64(o.s2.m, w) & maskw(w);
          eq = dv == acc;
          if (eq) mem_wr64(o.s2.m, w, sv); else { mem_wr64(o.s2.m, w, dv); SG(o.c, w, dv); }
        }
        else {
          u64 dv = G(o.d, w);
          eq = dv == acc;
          if (eq) SG(o.d, w, sv); else SG(o.c, w, dv);
        }
        if (o.d2 >= 0) SG(o.d2, 1, eq ? 1 : 0);
        break;
      }
      case O_XCHG: { u64 x = G(o.d, w), y = G(o.a, w); SG(o.d, w, y); SG(o.a, w, x); break; }
      case O_XCHGM: { u64 x = mem_rd64(o.s2.m, w), y = G(o.a, w); mem_wr64(o.s2.m, w, y); SG(o.a, w, x); break; }
      case O_XADD: { u64 x = G(o.d, w), y = G(o.a, w); SG(o.a, w, x); SG(o.d, w, x + y); break; }
      case O_LEA: {
        u64 r = (u64)o.imm;
        if (o.a >= 0) r += G(o.a, w);
        if (o.b >= 0) r += G(o.b, w) << o.sub;
        SG(o.d, w, r);
        break;
      }
      case O_SETCC: { bool c = cond(o.cc, G(o.a, o.w2), RS(o.s, o.w2), o.w2, o.flag); SG(o.d, 1, c); break; }
      case O_CMOV: {
        bool c = cond(o.cc, G(o.a, o.w2), RS(o.s, o.w2), o.w2, o.flag);
        u64 sv = RS(o.s2, w);
        u64 dv = G(o.d, w);
        SG(o.d, w, c ? sv : dv);
        break;
      }
      case O_MOVX: { u64 x = RS(o.s, o.w2); SG(o.d, w, o.flag ? (u64)sextw(x, o.w2) : x); break; }
      case O_BITCNT: {
        u64 x = RS(o.s, w); int bits = 8 * w; u64 r;
        if (o.sub == BC_POPCNT) r = __builtin_popcountll(x);
        else if (o.sub == BC_LZCNT) r = x ? (u64)(__builtin_clzll(x) - (64 - bits)) : (u64)bits;
        else r = x ? (u64)__builtin_ctzll(x) : (u64)bits;
        SG(o.d, w, r);
        break;
      }
      case O_HI8: {
        // operations on bits 8..15
        auto hi = [&](int vi) { return (rd_raw(vi, 1, 1)) & 0xFF; };
        auto sethi = [&](int vi, u64 x) { v[vi].b[1] = (u8)x; v[vi].def |= 2; };
        if (P.vals[o.d].kind != KIND_G || P.vals[o.d].size < 2) fail("bad hi8 dst");
        switch (o.sub) {
          case 0: sethi(o.d, (u64)o.imm); break;
          case 1: sethi(o.d, G(o.a, 1)); break;
          case 2: { if (P.vals[o.a].size < 2) fail("bad hi8 src"); SG(o.d, 1, hi(o.a)); break; }
          case 3: { if (P.vals[o.a].size < 2) fail("bad hi8 src"); sethi(o.d, hi(o.d) + hi(o.a)); break; }
          case 4: { u64 l = G(o.d, 1), h = hi(o.d); SG(o.d, 1, h); sethi(o.d, l); break; }
          case 5: { if (P.vals[o.a].size < 2) fail("bad hi8 src"); SG(o.d, 1, G(o.d, 1) ^ hi(o.a)); break; }
          default: sethi(o.d, hi(o.d) ^ G(o.a, 1)); break;
        }
        break;
      }

      case O_BT: {
        // bt/bts/btr/btc d, (c | imm) ; register form: the bit index wraps modulo the operand width ; d2: setc
        int bits = 8 * w;
        u64 x = G(o.d, w);
        unsigned idx = (unsigned)((o.c >= 0 ? G(o.c, w) : (u64)o.imm) % (u64)bits);
        u64 bit = (x >> idx) & 1;
        if (o.sub == 1) x |= 1ull << idx; else if (o.sub == 2) x &= ~(1ull << idx); else if (o.sub == 3) x ^= 1ull << idx;
        if (o.sub) SG(o.d, w, x);
        if (o.d2 >= 0) SG(o.d2, 1, bit);
        break;
      }

      // ---- vectors (w = bytes the instruction operates on) ----
      case O_VMOV: { u8 t[64]; VSRC(o.s, w, t); VW(o.d, w, t); break; }
      case O_VSTORE: { u8 t[64]; VR(o.a, w, t); mem_wr(o.s2.m, w, t); break; }
      case O_VALU: { u8 a[64], b[64], r[64]; VR(o.a, w, a); VSRC(o.s, w, b); valu(o.sub, a, b, r, w); VW(o.d, w, r); break; }
      case O_VSHI: { u8 a[64], r[64]; VR(o.a, w, a); vshi(o.sub, a, (unsigned)o.imm, r, w); VW(o.d, w, r); break; }
      case O_VSHUFD: {
        u8 a[64], r[64]; VSRC(o.s, w, a);
        for (int l = 0; l < w; l += 16)
          for (int i = 0; i < 4; i++) memcpy(r + l + 4 * i, a + l + 4 * ((o.imm >> (2 * i)) & 3), 4);
        VW(o.d, w, r);
        break;
      }
      case O_VBCAST: {
        // broadcast element (w2 = 4/8) from the low lane of a vector / memory / gp register
        u8 e[8] = {0}, r[64];
        if (o.s.t == S_REG && P.vals[o.s.v].kind == KIND_G) { u64 x = G(o.s.v, o.w2); memcpy(e, &x, 8); }
        else VSRC(o.s, o.w2, e);
        for (int i = 0; i < w; i += o.w2) memcpy(r + i, e, o.w2);
        VW(o.d, w, r);
        break;
      }
      case O_VEXTR: {
        // d (w bytes) = a[(imm)*w ...], w2 = source bytes
        u8 a[64]; VR(o.a, o.w2, a);
        VW(o.d, w, a + (int)o.imm * w);
        break;
      }
      case O_VINS: {
        // d = a (w bytes) with chunk imm (w2 bytes) replaced by s
        u8 a[64], b[64]; VR(o.a, w, a); VSRC(o.s, o.w2, b);
        memcpy(a + (int)o.imm * o.w2, b, o.w2);
        VW(o.d, w, a);
        break;
      }
      case O_VFROMG: { u8 r[16] = {0}; u64 x = RS(o.s, o.w2); memcpy(r, &x, o.w2); VW(o.d, 16, r); break; }
      case O_VTOG: { u8 a[16]; VR(o.a, o.w2, a); u64 x = 0; memcpy(&x, a, o.w2); SG(o.d, o.w2, x); break; }
      case O_VPINS: {
        // d = a (xmm) with element imm (w2 bytes) replaced by s (gp or memory)
        u8 a[16]; VR(o.a, 16, a);
        u64 x = RS(o.s, o.w2);
        memcpy(a + (int)o.imm * o.w2, &x, o.w2);
        VW(o.d, 16, a);
        break;
      }
      case O_VPEXT: {
        u8 a[16]; VR(o.a, 16, a);
        u64 x = 0; memcpy(&x, a + (int)o.imm * o.w2, o.w2);
        SG(o.d, o.w2 == 8 ? 8 : 4, x);
        break;
      }
      case O_VMSKB: {
        u8 a[64]; VR(o.a, w, a);
        u64 x = 0;
        for (int i = 0; i < w; i++) x |= (u64)(a[i] >> 7) << i;
        SG(o.d, 4, x);
        break;
      }
      case O_VTERN: {
        // vpternlogd d{k}{z}, a, s, imm ; mask: virtual c or physical register cc loaded from gp value b ; flag: zeroing
        u8 d[64], a[64], b[64], r[64]; VR(o.d, w, d); VR(o.a, w, a); VSRC(o.s, w, b);
        for (int i = 0; i < w; i++) {
          u8 x = 0;
          for (int bit = 0; bit < 8; bit++) {
            int idx = (((d[i] >> bit) & 1) << 2) | (((a[i] >> bit) & 1) << 1) | ((b[i] >> bit) & 1);
            x |= (u8)(((o.imm >> idx) & 1) << bit);
          }
          r[i] = x;
        }
        if (o.c >= 0 || o.cc) {
          int n = w / 4;
          u64 k = o.cc ? (G(o.b, 2) & ((1ull << n) - 1)) : KM(o.c, n);
          for (int i = 0; i < n; i++) if (!((k >> i) & 1)) { if (o.flag) memset(r + 4 * i, 0, 4); else memcpy(r + 4 * i, d + 4 * i, 4); }
        }
        VW(o.d, w, r);
        break;
      }
      case O_VALUK: {
        // d{k}{z} = a op s ; element size from the sub operation (4 or 8) ; flag: zeroing
        u8 a[64], b[64], r[64], d[64];
        VR(o.a, w, a); VSRC(o.s, w, b); valu(o.sub, a, b, r, w);
        int esz = valu_esz(o.sub);
        int n = w / esz;
        u64 k = o.cc ? (G(o.b, 2) & ((1ull << n) - 1)) : KM(o.c, n);
        if (!o.flag) VR(o.d, w, d); else memset(d, 0, 64);
        for (int i = 0; i < n; i++) if ((k >> i) & 1) memcpy(d + i * esz, r + i * esz, esz);
        VW(o.d, w, d);
        break;
      }
      case O_VGATHER: {
        // vpgatherdd d{k}, [buf + a*4 + imm] ; the mask register c is cleared by the instruction
        u8 d[64], ix[64]; VR(o.d, w, d); VR(o.a, w, ix);
        int n = w / 4;
        u64 k = KM(o.c, n);
        for (int i = 0; i < n; i++) if ((k >> i) & 1) {
          MemRef m; m.off = (int)o.imm + 4 * (int)(i32)lane(ix, i, 4);
          if (m.off < 0 || m.off + 4 > DATA_SIZE) { fail("gather index out of range"); break; }
          mem_rd(m, 4, d + 4 * i);
        }
        VW(o.d, w, d);
        SK(o.c, 0);
        break;
      }
      case O_VCMPK: {
        // kd = vpcmp[u]d(a, s, pred) ; flag: unsigned ; c: optional write mask
        u8 a[64], b[64]; VR(o.a, w, a); VSRC(o.s, w, b);
        int n = w / 4;
        u64 r = 0;
        for (int i = 0; i < n; i++) {
          u64 x = lane(a, i, 4), y = lane(b, i, 4);
          bool lt = o.flag ? x < y : sextw(x, 4) < sextw(y, 4);
          bool eq = x == y, c;
          switch (o.imm & 7) {
            case 0: c = eq; break;
            case 1: c = lt; break;
            case 2: c = lt || eq; break;
            case 3: c = false; break;
            case 4: c = !eq; break;
            case 5: c = !lt; break;
            case 6: c = !(lt || eq); break;
            default: c = true; break;
          }
          if (c) r |= 1ull << i;
        }
        if (o.c >= 0) r &= KM(o.c, n);
        if (P.vals[o.d].size * 8 < n) fail("k destination narrower than the compare result");
        SK(o.d, r);
        break;
      }
      case O_VM2V: {
        // vpmovm2d d, k
        int n = w / 4;
        u64 k = KM(o.a, n);
        u8 r[64];
        for (int i = 0; i < n; i++) { u32 x = ((k >> i) & 1) ? 0xFFFFFFFFu : 0; memcpy(r + 4 * i, &x, 4); }
        VW(o.d, w, r);
        break;
      }
      case O_V2M: {
        u8 a[64]; VR(o.a, w, a);
        int n = w / 4; u64 r = 0;
        for (int i = 0; i < n; i++) if (a[4 * i + 3] & 0x80) r |= 1ull << i;
        if (P.vals[o.d].size * 8 < n) fail("k destination narrower than the result");
        SK(o.d, r);
        break;
      }

      // ---- masks ----
      case O_KFROMG: SK(o.d, G(o.a, w)); break;
      case O_KTOG: SG(o.d, w == 8 ? 8 : 4, K(o.a, w)); break;
      case O_KLOAD: SK(o.d, mem_rd64(o.s.m, w) & maskw(w)); break;
      case O_KSTORE: mem_wr64(o.s2.m, w, K(o.a, w)); break;
      case O_KMOV: SK(o.d, K(o.a, w)); break;
      case O_KALU: {
        u64 x = K(o.a, w), y = K(o.b, w), r;
        switch (o.sub) {
          case KA_AND: r = x & y; break;
          case KA_OR: r = x | y; break;
          case KA_XOR: r = x ^ y; break;
          case KA_ANDN: r = ~x & y; break;
          case KA_XNOR: r = ~(x ^ y); break;
          default: r = x + y; break;
        }
        SK(o.d, r & maskw(w));
        break;
      }
      case O_KNOT: SK(o.d, ~K(o.a, w) & maskw(w)); break;
      case O_KSHI: {
        u64 x = K(o.a, w); unsigned c = (unsigned)o.imm & 0xFF; int bits = 8 * w;
        u64 r = (int)c >= bits ? 0 : (o.sub ? x >> c : (x << c) & maskw(w));
        SK(o.d, r);
        break;
      }
      case O_KSET: {
        // kortest a, b ; setcc d  (cc: CC_E -> ZF, CC_NE -> !ZF, CC_B -> CF, CC_AE -> !CF)
        u64 x = K(o.a, w) | K(o.b, w);
        bool zf = x == 0, cf = x == maskw(w);
        bool c = o.cc == CC_E ? zf : o.cc == CC_NE ? !zf : o.cc == CC_B ? cf : !cf;
        SG(o.d, 1, c);
        break;
      }

      // ---- D ----
      case O_DFROMG: SD(o.d, G(o.a, 8)); break;
      case O_DTOG: SG(o.d, 8, D(o.a)); break;
      case O_DLOAD: SD(o.d, mem_rd64(o.s.m, 8)); break;
      case O_DSTORE: mem_wr64(o.s2.m, 8, D(o.a)); break;
      case O_DMOV: SD(o.d, D(o.a)); break;

      case O_CALL: {
        const CalleeSig& sg = g_sigs[o.imm];
        CallRec r; memset(&r, 0, sizeof r);
        r.callee = (u32)o.imm; r.n = sg.n;
        for (int k = 0; k < sg.n; k++) {
          const Src& s = o.args[k];
          u64 x;
          if (sg.kind[k] == AK_F64) x = s.t == S_IMM ? (u64)s.imm : D(s.v);
          else {
            int aw = sg.kind[k] == AK_U8 ? 1 : sg.kind[k] == AK_U16 ? 2 : sg.kind[k] == AK_U32 ? 4 : 8;
            x = s.t == S_IMM ? ((u64)s.imm & maskw(aw)) : G(s.v, aw);
          }
          r.a[k] = x;
        }
        if (calls.size() < 512) calls.push_back(r);
        ncalls++;
        u64 res = callee_result(r.callee, r.n, r.a);
        if (o.d >= 0) {
          if (sg.ret == RK_F64) SD(o.d, res);
          else if (sg.ret == RK_U64) SG(o.d, 8, res);
          else if (sg.ret == RK_U32) SG(o.d, 4, res);
        }
        break;
      }
      default: fail("unknown op"); break;
    }
  }

  RunResult run(const RunInput& in) {
    RunResult res;
    memcpy(buf.data(), in.data, DATA_SIZE);
    // bind arguments
    const SigClass& sc = kSigClasses[P.sigclass];
    for (size_t i = 0; i < P.argbind.size(); i++) {
      int vi = P.argbind[i];
      if (vi < 0) continue;
      if ((int)i < sc.ni) {
        // a narrow parameter bound to a wider virtual register is zero extended, or sign extended when parameter and register are signed
        int ps = psize(sc.isz[i]), vs = P.vals[vi].size;
        u64 x = in.iargs[i] & maskw(ps);
        if (vs > ps && psigned(sc.isz[i]) && P.vals[vi].sgn) x = (u64)sextw(x, ps);
        SG(vi, vs, x);
      }
      else if (P.vals[vi].kind == KIND_V) {
        // double parameter bound to a wider (128-bit) virtual register: only the low 8 bytes are defined
        memcpy(v[vi].b, &in.dargs[i - sc.ni], 8); v[vi].def |= 0xFF;
      }
      else SD(vi, in.dargs[i - sc.ni]);
    }
    int bi = 0;
    int nb = (int)P.blocks.size();
    u64 guard = 0;
    while (!bad) {
      if (++guard > 2000000) { fail("interpreter step limit"); break; }
      const Block& b = P.blocks[bi];
      if (b.fuel) {
        u64 f = G(P.fuel, 4);
        f = (f - 1) & 0xFFFFFFFFull;
        SG(P.fuel, 4, f);
        if (f & 0x80000000ull) { bi = nb - 1; continue; }
      }
      for (const Op& o : b.ops) { exec_op(o); if (bad) break; }
      if (bad) break;
      if (trace_val >= 0) {
        u64 x = 0; memcpy(&x, v[trace_val].b, 8);
        fprintf(stderr, "[interp] after B%d: v%d=%016llx def=%llx\n", bi, trace_val, (unsigned long long)x, (unsigned long long)v[trace_val].def);
      }
      const Term& t = b.term;
      if (t.kind == T_RET) {
        if (P.retval >= 0) {
          const ValDef& d = P.vals[P.retval];
          res.ret = d.kind == KIND_G ? G(P.retval, d.size) : D(P.retval);
        }
        break;
      }
      if (b.data_after && t.kind != T_JMP && t.kind != T_SWITCH) { fail("block falls through into embedded data"); break; }
      switch (t.kind) {
        case T_FALL: bi = bi + 1; break;
        case T_JMP: bi = t.target; break;
        case T_BR: bi = cond(t.cc, G(t.a, t.w), RS(t.s, t.w), t.w, t.test) ? t.target : bi + 1; break;
        case T_DEC: { u64 c = (G(t.a, t.w) - 1) & maskw(t.w); SG(t.a, t.w, c); bi = c != 0 ? t.target : bi + 1; break; }
        case T_SWITCH: { u64 i = G(t.a, t.w) & (t.targets.size() - 1); bi = t.targets[i]; break; }
      }
      if (bi >= nb) { fail("fell off the last block"); break; }
    }
    res.buf = buf;
    res.calls = calls;
    res.ncalls = ncalls;
    return res;
  }
};

// ---------------------------------------------------------------------------------------------------------------
// Static read/write sets of an op (liveness measurement, shrinking)
// ---------------------------------------------------------------------------------------------------------------

struct RW { std::vector<int> reads; std::vector<int> kills; std::vector<int> writes; };

static void src_reads(const Src& s, std::vector<int>& rd) {
  if (s.t == S_REG) rd.push_back(s.v);
  if (s.t == S_MEM && s.m.idx >= 0) rd.push_back(s.m.idx);
}

// kills = values completely overwritten without being read; writes = all values written
static void op_rw(const Program& P, const Op& o, RW& rw) {
  rw.reads.clear(); rw.kills.clear(); rw.writes.clear();
  auto R = [&](int v) { if (v >= 0) rw.reads.push_back(v); };
  auto full = [&](int v, int w) {  // write of w bytes to a G value
    if (v < 0) return;
    rw.writes.push_back(v);
    const ValDef& d = P.vals[v];
    if (d.kind != KIND_G || w >= d.size || (w == 4 && d.size == 8)) rw.kills.push_back(v); else rw.reads.push_back(v);
  };
  auto W = [&](int v) { if (v >= 0) { rw.writes.push_back(v); rw.kills.push_back(v); } };
  src_reads(o.s, rw.reads);
  src_reads(o.s2, rw.reads);
  switch (o.opc) {
    case O_MOV: case O_IMUL3: case O_MOVX: case O_BITCNT: full(o.d, o.w); break;
    case O_LEA: R(o.a); R(o.b); full(o.d, o.w); break;
    case O_STORE: break;
    case O_ALU: case O_UN: case O_SHI: case O_IMUL2: R(o.d); rw.writes.push_back(o.d); break;
    case O_SHC: R(o.d); R(o.c); rw.writes.push_back(o.d); break;
    case O_ALUM: case O_UNM: break;
    case O_ADC2: R(o.d); R(o.d2); rw.writes.push_back(o.d); rw.writes.push_back(o.d2); break;
    case O_MUL1: R(o.d); rw.writes.push_back(o.d); full(o.d2, o.w); break;
    case O_DIV: R(o.d); rw.writes.push_back(o.d); full(o.d2, o.w); break;
    case O_CMPXCHG: R(o.d); R(o.a); R(o.c); if (o.d >= 0) rw.writes.push_back(o.d); rw.writes.push_back(o.c); full(o.d2, 1); break;
    case O_XCHG: case O_XADD: R(o.d); R(o.a); rw.writes.push_back(o.d); rw.writes.push_back(o.a); break;
    case O_XCHGM: R(o.a); rw.writes.push_back(o.a); break;
    case O_SETCC: R(o.a); full(o.d, 1); break;
    case O_CMOV: R(o.a); R(o.d); rw.writes.push_back(o.d); break;
    case O_HI8: R(o.d); R(o.a); rw.writes.push_back(o.d); break;
    case O_BT: R(o.d); R(o.c); if (o.sub) rw.writes.push_back(o.d); full(o.d2, 1); break;
    case O_VGATHER: R(o.d); R(o.a); R(o.c); rw.writes.push_back(o.d); rw.writes.push_back(o.c); break;
    case O_VMOV: case O_VBCAST: case O_VFROMG: W(o.d); break;
    case O_VSTORE: R(o.a); break;
    case O_VALU: case O_VSHI: case O_VEXTR: case O_VINS: case O_VPINS: R(o.a); W(o.d); break;
    case O_VSHUFD: W(o.d); break;
    case O_VTOG: R(o.a); full(o.d, o.w2); break;
    case O_VPEXT: R(o.a); full(o.d, o.w2 == 8 ? 8 : 4); break;
    case O_VMSKB: R(o.a); full(o.d, 4); break;
    case O_VTERN: R(o.d); R(o.a); R(o.c); if (o.cc) R(o.b); rw.writes.push_back(o.d); break;
    case O_VALUK: R(o.a); R(o.c); if (o.cc) R(o.b); if (!o.flag) { R(o.d); rw.writes.push_back(o.d); } else W(o.d); break;
    case O_VCMPK: R(o.a); R(o.c); W(o.d); break;
    case O_VM2V: case O_V2M: R(o.a); W(o.d); break;
    case O_KFROMG: R(o.a); W(o.d); break;
    case O_KTOG: R(o.a); full(o.d, o.w == 8 ? 8 : 4); break;
    case O_KLOAD: W(o.d); break;
    case O_KSTORE: R(o.a); break;
    case O_KMOV: case O_KNOT: case O_KSHI: R(o.a); W(o.d); break;
    case O_KALU: R(o.a); R(o.b); W(o.d); break;
    case O_KSET: R(o.a); R(o.b); full(o.d, 1); break;
    case O_DFROMG: R(o.a); W(o.d); break;
    case O_DTOG: R(o.a); full(o.d, 8); break;
    case O_DLOAD: W(o.d); break;
    case O_DSTORE: R(o.a); break;
    case O_DMOV: R(o.a); W(o.d); break;
    case O_CALL:
      for (const Src& a : o.args) src_reads(a, rw.reads);
      if (o.d >= 0) W(o.d);
      break;
    default: break;
  }
}

static void term_reads(const Term& t, std::vector<int>& rd) {
  rd.clear();
  if (t.a >= 0) rd.push_back(t.a);
  src_reads(t.s, rd);
}

static void block_succ(const Program& P, int bi, std::vector<int>& out) {
  out.clear();
  const Block& b = P.blocks[bi];
  int nb = (int)P.blocks.size();
  if (b.fuel) out.push_back(nb - 1);
  switch (b.term.kind) {
    case T_FALL: out.push_back(bi + 1); break;
    case T_JMP: out.push_back(b.term.target); break;
    case T_BR: case T_DEC: out.push_back(b.term.target); out.push_back(bi + 1); break;
    case T_SWITCH: for (int t : b.term.targets) out.push_back(t); break;
    default: break;
  }
}

typedef std::bitset<1024> VSet;

// maximum number of simultaneously live values according to our own liveness analysis of the IR
static int measure_max_live(const Program& P) {
  int nb = (int)P.blocks.size();
  std::vector<VSet> livein(nb), liveout(nb), use(nb), def(nb);
  RW rw; std::vector<int> rd;
  for (int bi = 0; bi < nb; bi++) {
    const Block& b = P.blocks[bi];
    VSet u, d;
    if (b.fuel && P.fuel >= 0) u.set(P.fuel);
    for (const Op& o : b.ops) {
      op_rw(P, o, rw);
      for (int v : rw.reads) if (!d.test(v)) u.set(v);
      for (int v : rw.kills) d.set(v);
    }
    term_reads(b.term, rd);
    for (int v : rd) if (!d.test(v)) u.set(v);
    if (b.term.kind == T_RET && P.retval >= 0 && !d.test(P.retval)) u.set(P.retval);
    use[bi] = u; def[bi] = d;
  }
  bool changed = true;
  std::vector<int> succ;
  while (changed) {
    changed = false;
    for (int bi = nb - 1; bi >= 0; bi--) {
      VSet out;
      block_succ(P, bi, succ);
      for (int s : succ) if (s < nb) out |= livein[s];
      VSet in = use[bi] | (out & ~def[bi]);
      if (in != livein[bi] || out != liveout[bi]) { livein[bi] = in; liveout[bi] = out; changed = true; }
    }
  }
  size_t best = 0;
  for (int bi = 0; bi < nb; bi++) {
    const Block& b = P.blocks[bi];
    VSet live = liveout[bi];
    term_reads(b.term, rd);
    for (int v : rd) live.set(v);
    if (b.term.kind == T_RET && P.retval >= 0) live.set(P.retval);
    best = std::max(best, live.count());
    for (int i = (int)b.ops.size() - 1; i >= 0; i--) {
      op_rw(P, b.ops[i], rw);
      for (int v : rw.kills) live.reset(v);
      for (int v : rw.reads) live.set(v);
      best = std::max(best, live.count());
    }
  }
  return (int)best + 1;  // + buffer pointer
}

// ---------------------------------------------------------------------------------------------------------------
// Program generator
// ---------------------------------------------------------------------------------------------------------------

extern u32 g_avoid_fwd;
struct Profile {
  const char* name;
  u8 arch, mode;
  int ng_lo, ng_hi, nv_lo, nv_hi, nk_lo, nk_hi, nd_lo, nd_hi;
  int ops_lo, ops_hi;
  int w_basic, w_fixed, w_partial, w_mem, w_vec, w_mask, w_d, w_call;
  int blocks_lo, blocks_hi;
  int w_switch;   // weight of switch regions (jump tables)
  int stack_pct;
};

struct Gen {
  Rng& r;
  Program& P;
  const Profile& pf;
  bool a64;
  bool x32;
  int ptrw;
  std::vector<int> temps;  // defined temporaries of the current block
  Block* cur = nullptr;

  Gen(Rng& rr, Program& p, const Profile& f) : r(rr), P(p), pf(f) {
    a64 = f.arch == ARCH_A64;
    x32 = f.arch == ARCH_X86;
    ptrw = x32 ? 4 : 8;
  }

  int new_val(u8 kind, u8 size, bool local, bool dumped) {
    ValDef d; d.kind = kind; d.size = size; d.local = local; d.dumped = dumped;
    P.vals.push_back(d);
    return (int)P.vals.size() - 1;
  }
  int new_temp(u8 kind, u8 size) { int v = new_val(kind, size, true, false); return v; }
  void def_temp(int v) { temps.push_back(v); }

  // candidates: globals and defined temporaries of the current block
  int pick(u8 kind, int minsize, int maxsize = 64, int exact = 0) {
    int cand[MAX_VALS + 64]; int n = 0;
    for (int i = 0; i < (int)P.vals.size() && n < MAX_VALS; i++) {
      const ValDef& d = P.vals[i];
      if (d.kind != kind || d.local || d.half) continue;
      if (i == P.fuel) continue;
      if (exact ? d.size != exact : (d.size < minsize || d.size > maxsize)) continue;
      cand[n++] = i;
    }
    for (int t : temps) {
      const ValDef& d = P.vals[t];
      if (d.kind != kind) continue;
      if (exact ? d.size != exact : (d.size < minsize || d.size > maxsize)) continue;
      if (n < MAX_VALS + 64) cand[n++] = t;
    }
    if (!n) return -1;
    return cand[r.below(n)];
  }
  int pickG(int minsize) { return pick(KIND_G, minsize); }

  int pick_w(bool allow8 = true) {
    static const int ws[] = { 1, 2, 4, 4, 4, 8, 8, 8 };
    for (;;) {
      int w = ws[r.below(8)];
      if (w == 8 && (x32 || !allow8)) continue;
      if (a64 && w < 4) continue;
      return w;
    }
  }

  i64 gen_imm(int w) {
    u64 x;
    switch (r.below(8)) {
      case 0: x = 0; break;
      case 1: x = ~0ull; break;
      case 2: x = 1; break;
      case 3: x = 1ull << (8 * w - 1); break;
      case 4: x = (1ull << (8 * w - 1)) - 1; break;
      case 5: x = r.below(256); break;
      default: x = r.next(); break;
    }
    i64 v = sextw(x & maskw(w), w);
    if (w == 8) v = (i64)(int32_t)v;  // imm32 sign-extended
    return v;
  }

  MemRef gen_mem(int size, bool readonly, int align = 0) {
    MemRef m;
    int sp = (int)r.below(100);
    if (P.use_stack && sp < 15) m.space = M_STK;
    else if (readonly && sp < 25 && !a64) m.space = M_CONST;
    else m.space = M_BUF;
    if (m.space == M_CONST) { m.off = (int)r.below(1 << 20); return m; }
    int lim = m.space == M_STK ? STK_SIZE : DATA_SIZE;
    int al = align ? align : ((a64 || r.chance(3, 4)) ? size : 1);
    if (al > 64) al = 64;
    bool indexed = !a64 && m.space == M_BUF && r.chance(1, 5) && size <= 8 && P.vals.size() < 900;
    int span = 0;
    if (indexed) {
      int src = pickG(1);
      if (src >= 0) {
        int bits = (int)r.range(1, 4);
        m.shift = (u8)r.below(4);
        int t = new_temp(KIND_G, (u8)ptrw);
        Op o1; o1.opc = O_MOVX; o1.w = 4; o1.w2 = 1; o1.d = t; o1.s = SR(src); cur->ops.push_back(o1);
        Op o2; o2.opc = O_ALU; o2.sub = A_AND; o2.w = (u8)(((g_avoid_fwd & 4) && !x32) ? 8 : 4); o2.d = t; o2.s = SI((1 << bits) - 1); cur->ops.push_back(o2);
        def_temp(t);
        m.idx = t;
        span = ((1 << bits) - 1) << m.shift;
      }
    }
    int maxoff = lim - size - span;
    int off = (int)r.below(maxoff + 1);
    off -= off % al;
    m.off = off;
    return m;
  }

  Src gen_src(int w, int dself, bool allow_mem, bool allow_imm = true) {
    int k = (int)r.below(100);
    if (dself >= 0 && k < 8 && P.vals[dself].size >= w) return SR(dself);
    if (allow_imm && k < 35) return SI(gen_imm(w));
    if (allow_mem && !a64 && k < 35 + pf.w_mem * 3 + 10) return SM(gen_mem(w, true));
    int v = pickG(w);
    if (v < 0) return allow_imm ? SI(gen_imm(w)) : Src();
    return SR(v);
  }

  // destination of a w-byte write: prefer exact size / zero-extending, sometimes partial
  int pick_dst(int w, bool want_partial) {
    if (want_partial) {
      int v = pick(KIND_G, w + 1);
      if (v >= 0) return v;
    }
    if (r.chance(1, 6) && P.vals.size() < 900) {  // fresh temporary
      int t = new_temp(KIND_G, (u8)(w == 4 && !x32 && r.chance(1, 3) ? 8 : w));
      return t;
    }
    int v = pick(KIND_G, 0, 64, w);
    if (v < 0 && w == 4 && !x32) v = pick(KIND_G, 0, 64, 8);
    if (v < 0) v = pick(KIND_G, w);
    return v;
  }
  bool is_undefined_temp(int v) {
    if (!P.vals[v].local) return false;
    for (int t : temps) if (t == v) return false;
    return true;
  }
  // after emitting an op that fully defines v
  void defined(int v) { if (P.vals[v].local && is_undefined_temp(v)) def_temp(v); }
  // a destination that is read (RMW / partial) must be defined already
  int pick_rmw(int w, bool want_partial) {
    if (want_partial && !(w == 4 && (g_avoid_fwd & 4))) { int v = pick(KIND_G, w + 1); if (v >= 0) return v; }
    int v = pick(KIND_G, 0, 64, w);
    if (v < 0 && !(w == 4 && (g_avoid_fwd & 4))) v = pick(KIND_G, w);
    if (v >= 0 && w == 4 && (g_avoid_fwd & 4) && P.vals[v].size == 8) return -1;
    return v;
  }

  void push(const Op& o) { cur->ops.push_back(o); }

  bool full_write(int d, int w) { const ValDef& v = P.vals[d]; return w >= v.size || (w == 4 && v.size == 8); }

  // ---- GP classes ----
  bool gen_basic(bool partial) {
    int w = partial ? (r.chance(1, 2) ? 1 : 2) : pick_w();
    if (a64) partial = false;
    Op o; o.w = (u8)w;
    int kind = (int)r.below(a64 ? 12 : 16);
    switch (kind) {
      case 0: case 1: {  // mov
        o.opc = O_MOV;
        o.d = pick_dst(w, partial); if (o.d < 0) return false;
        if (!full_write(o.d, w) && is_undefined_temp(o.d)) return false;
        o.s = gen_src(w, o.d, true);
        if (o.s.t == S_NONE) return false;
        if (o.s.t == S_IMM && w == 8 && r.chance(1, 2)) o.s.imm = (i64)r.next();  // mov r64, imm64
        if (o.s.t == S_REG && o.s.v == o.d && is_undefined_temp(o.d)) return false;
        push(o); if (full_write(o.d, w)) defined(o.d);
        return true;
      }
      case 2: case 3: case 4: {  // alu
        o.opc = O_ALU; o.sub = (u8)r.below(A__N);
        o.d = pick_rmw(w, partial); if (o.d < 0) return false;
        o.s = gen_src(w, o.d, true);
        if (o.s.t == S_NONE) return false;
        if ((g_avoid_fwd & 128) && o.sub == A_AND && o.s.t == S_IMM && ((u64)o.s.imm & maskw(w)) == 0) return false;
        if ((g_avoid_fwd & 2) && o.s.t == S_REG && o.s.v == o.d && w < 4 && P.vals[o.d].size > w && (o.sub == A_SUB || o.sub == A_XOR)) return false;
        push(o); return true;
      }
      case 5: {  // unary
        o.opc = O_UN; o.sub = (u8)r.below(a64 ? 2 : U__N);
        if (o.sub == U_BSWAP) { if (w < 4) w = 4; o.w = (u8)w; partial = false; }
        o.d = pick_rmw(w, partial); if (o.d < 0) return false;
        if (o.sub == U_BSWAP && w == 4 && P.vals[o.d].size != 4 && P.vals[o.d].size != 8) return false;
        push(o); return true;
      }
      case 6: {  // shift by immediate
        o.opc = O_SHI; o.sub = (u8)r.below(a64 ? 3 : SH__N);
        o.d = pick_rmw(w, partial); if (o.d < 0) return false;
        o.imm = r.chance(1, 8) ? 0 : (i64)r.below(a64 ? 8 * w : (w == 8 ? 64 : 32));
        if (a64 && o.imm == 0) o.imm = 1;
        push(o); return true;
      }
      case 7: {  // lea
        if (w < 4) w = 4; o.w = (u8)w;
        o.opc = O_LEA;
        o.a = pickG(w);
        o.b = r.chance(2, 3) ? pickG(w) : -1;
        if (o.a < 0) return false;
        o.sub = (u8)(o.b >= 0 ? r.below(4) : 0);
        o.imm = r.chance(1, 3) ? 0 : (i64)(int32_t)(r.next() & (a64 ? 0xFFF : 0xFFFFFFFF));
        if (a64 && o.a < 0) return false;
        o.d = pick_dst(w, false); if (o.d < 0) return false;
        if (P.vals[o.d].size < w) return false;
        if (!full_write(o.d, w)) return false;
        push(o); defined(o.d); return true;
      }
      case 8: {  // setcc
        o.opc = O_SETCC; o.w2 = (u8)pick_w(); o.cc = (u8)r.below(CC__N); o.flag = (u8)(a64 ? 0 : r.chance(1, 4));
        o.a = pickG(o.w2); if (o.a < 0) return false;
        o.s = gen_src(o.w2, o.a, !o.flag);
        if (o.s.t == S_NONE) return false;
        if (o.flag && o.s.t == S_MEM) return false;
        if (a64) { o.d = pick_dst(4, false); o.w = 4; if (o.d < 0 || !full_write(o.d, 4)) return false; o.w = 1; }
        else {
          o.d = partial || r.chance(1, 2) ? pick(KIND_G, 1) : pick_dst(1, false);
          if (o.d < 0) return false;
          if (P.vals[o.d].size > 1 && is_undefined_temp(o.d)) return false;
        }
        o.w = 1;
        push(o); if (P.vals[o.d].size == 1 || a64) defined(o.d);
        return true;
      }
      case 9: {  // cmov
        if (w < 2) w = 2; o.w = (u8)w;
        o.opc = O_CMOV; o.w2 = (u8)pick_w(); o.cc = (u8)r.below(CC__N); o.flag = (u8)(a64 ? 0 : r.chance(1, 4));
        o.a = pickG(o.w2); if (o.a < 0) return false;
        o.s = gen_src(o.w2, o.a, false);
        if (o.s.t == S_NONE) return false;
        o.d = pick_rmw(w, partial && w == 2); if (o.d < 0) return false;
        o.s2 = gen_src(w, o.d, true, false);
        if (o.s2.t == S_NONE) return false;
        push(o); return true;
      }
      case 10: {  // movzx / movsx
        int wd = a64 ? (r.chance(1, 2) ? 4 : 8) : (x32 ? (r.chance(1, 3) ? 2 : 4) : (int)(r.chance(1, 6) ? 2 : (r.chance(1, 2) ? 4 : 8)));
        int ws = wd == 2 ? 1 : wd == 4 ? (r.chance(1, 2) ? 1 : 2) : (r.chance(1, 3) ? 1 : r.chance(1, 2) ? 2 : 4);
        o.opc = O_MOVX; o.w = (u8)wd; o.w2 = (u8)ws; o.flag = (u8)r.chance(1, 2);
        if (wd == 8 && ws == 4 && !o.flag) { o.w = 4; o.w2 = 4; o.opc = O_MOV; }  // mov r32, r32 zero-extends
        o.s = gen_src(ws, -1, true, false);
        if (o.s.t == S_NONE) return false;
        if (a64 && o.s.t != S_REG) return false;
        o.d = pick_dst(o.w, wd == 2 && partial); if (o.d < 0) return false;
        if (P.vals[o.d].size < o.w) return false;
        if (!full_write(o.d, o.w) && is_undefined_temp(o.d)) return false;
        push(o); if (full_write(o.d, o.w)) defined(o.d);
        return true;
      }
      case 11: {  // imul 2 / 3 operand
        if (w < 2) w = 2; o.w = (u8)w;
        if (r.chance(1, 2) || a64) {
          o.opc = O_IMUL2;
          o.d = pick_rmw(w, partial && w == 2); if (o.d < 0) return false;
          o.s = gen_src(w, o.d, true, false);
          if (o.s.t == S_NONE) return false;
          push(o); return true;
        }
        o.opc = O_IMUL3;
        o.s = gen_src(w, -1, true, false);
        if (o.s.t == S_NONE) return false;
        o.imm = gen_imm(w);
        o.d = pick_dst(w, false); if (o.d < 0) return false;
        if (!full_write(o.d, w)) { if (is_undefined_temp(o.d)) return false; }
        push(o); if (full_write(o.d, w)) defined(o.d);
        return true;
      }
      case 12: {  // add/adc, sub/sbb pair
        if (w < 4) w = 4; o.w = (u8)w;
        o.opc = O_ADC2; o.sub = (u8)r.below(2);
        o.d = pick(KIND_G, 0, 64, w); o.d2 = pick(KIND_G, 0, 64, w);
        if (o.d < 0 || o.d2 < 0 || o.d == o.d2) return false;
        o.s = gen_src(w, -1, false); o.s2 = gen_src(w, -1, false);
        if (o.s.t == S_NONE || o.s2.t == S_NONE) return false;
        // the high half must not depend on the freshly written low half in a way that differs between emit orders
        if (o.s2.t == S_REG && o.s2.v == o.d) return false;
        push(o); return true;
      }
      case 13: {  // xchg / xadd (registers)
        o.opc = r.chance(2, 3) ? O_XCHG : O_XADD;
        o.d = pick(KIND_G, 0, 64, w); o.a = pick(KIND_G, 0, 64, w);
        if (partial) { o.d = pick(KIND_G, w); o.a = pick(KIND_G, w); }
        if (o.d < 0 || o.a < 0) return false;
        if (w == 4 && (P.vals[o.d].size != P.vals[o.a].size)) return false;
        if (o.d == o.a && (o.opc == O_XADD || w == 4)) return false;
        push(o); return true;
      }
      case 14: {  // popcnt / lzcnt / tzcnt
        if (w < 2) w = 2; o.w = (u8)w;
        o.opc = O_BITCNT; o.sub = (u8)r.below(3);
        o.s = gen_src(w, -1, true, false);
        if (o.s.t == S_NONE) return false;
        o.d = pick_dst(w, false); if (o.d < 0) return false;
        if (!full_write(o.d, w) && is_undefined_temp(o.d)) return false;
        push(o); if (full_write(o.d, w)) defined(o.d);
        return true;
      }
      default: {  // high-byte register operations
        if (g_avoid_fwd & 8) return false;
        o.opc = O_HI8; o.sub = (u8)r.below(7); o.w = 1;
        o.d = pick(KIND_G, 2); if (o.d < 0) return false;
        if (o.sub == 1 || o.sub == 6) { o.a = r.chance(1, 3) ? o.d : pickG(1); if (o.a < 0) return false; }
        if (o.sub == 2 || o.sub == 3 || o.sub == 5) { o.a = r.chance(1, 3) ? o.d : pick(KIND_G, 2); if (o.a < 0) return false; }
        // one virtual register seen through two views (AL/AH) by a same-register idiom
        if ((g_avoid_fwd & 2048) && (o.sub == 4 || ((o.sub == 5 || o.sub == 6) && o.a == o.d))) return false;
        o.imm = (i64)r.below(256);
        push(o); return true;
      }
    }
  }

  bool gen_fixed() {
    Op o;
    int kind = (int)r.below(a64 ? 3 : 9);
    int w = pick_w();
    switch (kind) {
      case 0: case 1: {  // shift by CL
        o.opc = O_SHC; o.sub = (u8)r.below(a64 ? 3 : SH__N); o.w = (u8)w;
        o.d = pick_rmw(w, r.chance(1, 4)); if (o.d < 0) return false;
        o.c = pickG(a64 ? w : 1); if (o.c < 0) return false;
        push(o); return true;
      }
      case 2: {  // div / idiv (guarded)
        if (w < (a64 ? 4 : 2)) w = 4;
        o.opc = O_DIV; o.w = (u8)w; o.flag = (u8)r.chance(1, 2);
        o.d = pick(KIND_G, 0, 64, w); o.d2 = pick(KIND_G, 0, 64, w);
        if (o.d < 0 || o.d2 < 0 || o.d == o.d2) return false;
        o.s = gen_src(w, -1, !a64, false);
        if (o.s.t == S_NONE) return false;
        push(o); return true;
      }
      case 3: case 4: {  // mul / imul widening
        if (w < 2) w = 2;
        o.opc = O_MUL1; o.w = (u8)w; o.flag = (u8)r.chance(1, 2);
        o.d = pick(KIND_G, 0, 64, w); o.d2 = pick(KIND_G, 0, 64, w);
        if (o.d < 0 || o.d2 < 0 || o.d == o.d2) return false;
        o.s = gen_src(w, o.d, true, false);
        if (o.s.t == S_NONE) return false;
        if (o.s.t == S_REG && o.s.v == o.d2) return false;
        push(o); return true;
      }
      case 5: case 6: {  // cmpxchg
        if (g_avoid_fwd & 1) return false;
        o.opc = O_CMPXCHG; o.w = (u8)w;
        o.c = pick(KIND_G, 0, 64, w); o.a = pick(KIND_G, w);
        if (o.c < 0 || o.a < 0 || o.a == o.c) return false;
        if (r.chance(1, 2)) {
          o.s2 = SM(gen_mem(w, false));
          if (o.s2.m.idx == o.c) return false;
        }
        else {
          o.d = pick(KIND_G, 0, 64, w);
          if (o.d < 0 || o.d == o.c || o.d == o.a) return false;
        }
        if (r.chance(1, 2)) {
          o.d2 = pick(KIND_G, 1);
          if (o.d2 < 0 || o.d2 == o.c || o.d2 == o.d || o.d2 == o.a) o.d2 = -1;
        }
        push(o); return true;
      }
      case 8: {  // bt / bts / btr / btc (register or immediate bit index; the register form wraps modulo the width)
        if (w < 2) w = 2;
        o.opc = O_BT; o.w = (u8)w; o.sub = (u8)r.below(4);
        o.d = pick(KIND_G, 0, 64, w); if (o.d < 0) o.d = pick(KIND_G, w); if (o.d < 0) return false;
        if ((g_avoid_fwd & 4) && w == 4 && P.vals[o.d].size == 8) return false;
        if (r.chance(2, 3) && !(g_avoid_fwd & 4096)) { o.c = pickG(w); if (o.c < 0) return false; }
        else o.imm = (i64)r.below(256);
        if (r.chance(2, 3)) { o.d2 = pick(KIND_G, 1); if (o.d2 == o.d || o.d2 == o.c) o.d2 = -1; }
        push(o); return true;
      }
      default: {  // xchg with memory
        o.opc = O_XCHGM; o.w = (u8)w;
        o.a = pick(KIND_G, 0, 64, w); if (o.a < 0) return false;
        o.s2 = SM(gen_mem(w, false));
        if (o.s2.m.idx == o.a) return false;
        push(o); return true;
      }
    }
  }

  bool gen_memop() {
    Op o;
    int w = pick_w();
    o.w = (u8)w;
    switch (r.below(a64 ? 2 : 5)) {
      case 0: case 1: {
        o.opc = O_STORE;
        o.s = a64 || r.chance(3, 4) ? Src() : SI(gen_imm(w));
        if (o.s.t == S_NONE) { int v = pickG(w); if (v < 0) return false; o.s = SR(v); }
        o.s2 = SM(gen_mem(w, false));
        push(o); return true;
      }
      case 2: case 3: {
        o.opc = O_ALUM; o.sub = (u8)r.below(A__N);
        o.s = gen_src(w, -1, false);
        if (o.s.t == S_NONE) return false;
        if ((g_avoid_fwd & 64) && o.sub == A_OR && o.s.t == S_IMM && ((u64)o.s.imm & maskw(w)) == maskw(w)) return false;
        o.s2 = SM(gen_mem(w, false));
        push(o); return true;
      }
      default: {
        o.opc = O_UNM; o.sub = (u8)r.below(4);
        o.s2 = SM(gen_mem(w, false));
        push(o); return true;
      }
    }
  }

  // ---- vectors ----
  int maxvec() { return P.mode == MODE_SSE ? 16 : P.mode == MODE_AVX ? 32 : 64; }

  bool gen_vec() {
    Op o;
    int d = pick(KIND_V, 16);
    if (d < 0) return false;
    int dsz = P.vals[d].size;
    int w = dsz;
    if (P.mode != MODE_SSE && w > 16 && r.chance(1, 6)) w = w == 64 && r.chance(1, 2) ? 32 : 16;  // narrower view, upper part zeroed
    o.w = (u8)w; o.d = d;
    auto vsrc = [&](bool allow_mem) -> Src {
      if (allow_mem && !a64 && r.below(100) < 20 + pf.w_mem * 2) return SM(gen_mem(w, true, P.mode == MODE_SSE ? 16 : 0));
      if (r.chance(1, 10) ) return SR(d);
      int v = pick(KIND_V, w); if (v < 0) return Src();
      return SR(v);
    };
    int kind = (int)r.below(a64 ? 6 : 20);
    switch (kind) {
      case 0: case 1: {
        o.opc = O_VMOV; o.s = vsrc(true); if (o.s.t == S_NONE) return false;
        push(o); return true;
      }
      case 2: {
        o.opc = O_VSTORE; o.a = pick(KIND_V, 16); if (o.a < 0) return false;
        o.w = P.vals[o.a].size; o.d = -1;
        if (r.chance(1, 5) && o.w > 16 && P.mode != MODE_SSE) o.w = 16;
        o.s2 = SM(gen_mem(o.w, false, P.mode == MODE_SSE && r.chance(1, 2) ? 16 : 0));
        push(o); return true;
      }
      case 3: case 4: case 5: case 6: case 7: case 8: {
        o.opc = O_VALU;
        for (;;) {
          o.sub = (u8)r.below(a64 ? 12 : VA__N);
          if (w == 64 && (o.sub == VA_PCMPEQD || o.sub == VA_PCMPGTD || o.sub == VA_PCMPEQB)) continue;
          break;
        }
        o.a = (P.mode == MODE_SSE && !a64) ? d : pick(KIND_V, w);
        if (o.a < 0) return false;
        o.s = vsrc(true); if (o.s.t == S_NONE) return false;
        if ((g_avoid_fwd & 512) && w < dsz && o.a == d && o.s.t == S_REG && o.s.v == d) return false;
        push(o); return true;
      }
      case 9: case 10: {
        o.opc = O_VSHI; o.sub = (u8)r.below(VS__N);
        o.a = (P.mode == MODE_SSE && !a64) ? d : pick(KIND_V, w);
        if (o.a < 0) return false;
        o.imm = r.chance(1, 8) ? (i64)r.below(80) : (i64)r.below(16);
        if (a64) o.imm = 1 + (i64)r.below(7);
        push(o); return true;
      }
      case 11: case 12: {
        o.opc = O_VSHUFD; o.imm = (i64)r.below(256);
        o.s = vsrc(true); if (o.s.t == S_NONE) return false;
        push(o); return true;
      }
      case 13: {  // broadcast
        if (P.mode == MODE_SSE) return false;
        o.opc = O_VBCAST; o.w2 = (u8)(r.chance(1, 2) ? 4 : 8);
        int k = (int)r.below(3);
        if (k == 0) { int v = pick(KIND_V, 16); if (v < 0) return false; o.s = SR(v); }
        else if (k == 1) o.s = SM(gen_mem(o.w2, true));
        else {
          if (P.mode != MODE_AVX512 || (x32 && o.w2 == 8)) return false;
          int v = pickG(o.w2); if (v < 0) return false; o.s = SR(v);
        }
        push(o); return true;
      }
      case 14: {  // extract a 128/256-bit chunk
        if (P.mode == MODE_SSE) return false;
        o.opc = O_VEXTR;
        o.a = pick(KIND_V, 32); if (o.a < 0) return false;
        o.w2 = P.vals[o.a].size;
        o.w = (u8)(o.w2 == 64 && r.chance(1, 2) ? 32 : 16);
        if (dsz < o.w) return false;
        o.imm = (i64)r.below(o.w2 / o.w);
        push(o); return true;
      }
      case 15: {  // insert a chunk
        if (P.mode == MODE_SSE || dsz < 32) return false;
        o.opc = O_VINS; o.w = (u8)dsz;
        o.w2 = (u8)(dsz == 64 && r.chance(1, 2) ? 32 : 16);
        o.a = pick(KIND_V, dsz); if (o.a < 0) return false;
        if (r.chance(1, 4)) o.s = SM(gen_mem(o.w2, true));
        else { int v = pick(KIND_V, o.w2); if (v < 0) return false; o.s = SR(v); }
        o.imm = (i64)r.below(dsz / o.w2);
        push(o); return true;
      }
      case 16: {  // gp -> vector
        o.opc = O_VFROMG; o.w2 = (u8)((x32 || r.chance(1, 2)) ? 4 : 8); o.w = 16;
        o.s = r.chance(1, 4) ? SM(gen_mem(o.w2, true)) : Src();
        if (o.s.t == S_NONE) { int v = pickG(o.w2); if (v < 0) return false; o.s = SR(v); }
        push(o); return true;
      }
      case 17: {  // vector -> gp
        int k = (int)r.below(3);
        o.a = pick(KIND_V, 16); if (o.a < 0) return false;
        if (k == 0) {
          o.opc = O_VTOG; o.w2 = (u8)((x32 || r.chance(1, 2)) ? 4 : 8);
          o.d = pick_dst(o.w2, false); if (o.d < 0 || P.vals[o.d].size < o.w2) return false;
          if (!full_write(o.d, o.w2) && is_undefined_temp(o.d)) return false;
          push(o); if (full_write(o.d, o.w2)) defined(o.d);
          return true;
        }
        if (k == 1) {
          static const u8 es[] = { 1, 2, 4, 8 };
          o.opc = O_VPEXT; o.w2 = es[r.below(x32 ? 3 : 4)];
          o.imm = (i64)r.below(16 / o.w2);
          int dw = o.w2 == 8 ? 8 : 4;
          o.d = pick_dst(dw, false); if (o.d < 0 || P.vals[o.d].size < dw) return false;
          if (!full_write(o.d, dw) && is_undefined_temp(o.d)) return false;
          push(o); if (full_write(o.d, dw)) defined(o.d);
          return true;
        }
        o.opc = O_VMSKB;
        o.w = P.vals[o.a].size; if (o.w == 64) o.w = (u8)(r.chance(1, 2) ? 16 : 32);
        o.d = pick_dst(4, false); if (o.d < 0 || P.vals[o.d].size < 4) return false;
        if (!full_write(o.d, 4) && is_undefined_temp(o.d)) return false;
        push(o); if (full_write(o.d, 4)) defined(o.d);
        return true;
      }
      case 18: {  // pinsr
        static const u8 es[] = { 1, 2, 4, 8 };
        o.opc = O_VPINS; o.w = 16; o.w2 = es[r.below(x32 ? 3 : 4)];
        o.a = P.mode == MODE_SSE ? d : pick(KIND_V, 16);
        if (o.a < 0) return false;
        o.imm = (i64)r.below(16 / o.w2);
        if (r.chance(1, 4)) o.s = SM(gen_mem(o.w2, true));
        else { int v = pickG(o.w2); if (v < 0) return false; o.s = SR(v); }
        push(o); return true;
      }
      default: {  // vpternlog (AVX-512)
        if (P.mode != MODE_AVX512) return false;
        o.opc = O_VTERN; o.w = (u8)dsz; w = dsz;
        o.a = pick(KIND_V, dsz); if (o.a < 0) return false;
        o.s = vsrc(true); if (o.s.t == S_NONE) return false;
        if (r.chance(1, 4)) { o.a = d; o.s = SR(d); }
        o.imm = r.chance(1, 4) ? (r.chance(1, 2) ? 0xFF : 0x00) : (i64)r.below(256);
        if (o.s.t == S_REG && P.vals[o.s.v].size < dsz) return false;
        push(o); return true;
      }
    }
  }

  bool gen_mask() {
    if (P.mode != MODE_AVX512) return false;
    Op o;
    static const u8 ws[] = { 1, 2, 4, 8 };
    int kind = (int)r.below(17);
    switch (kind) {
      case 0: {
        o.opc = O_KFROMG; o.d = pick(KIND_K, 1); if (o.d < 0) return false;
        o.w = ws[r.below(4)]; if (o.w > P.vals[o.d].size) o.w = P.vals[o.d].size;
        if (x32 && o.w == 8) o.w = 4;
        o.a = pickG(o.w); if (o.a < 0) return false;
        push(o); return true;
      }
      case 1: {
        o.opc = O_KTOG; o.a = pick(KIND_K, 1); if (o.a < 0) return false;
        o.w = ws[r.below(4)]; if (o.w > P.vals[o.a].size) o.w = P.vals[o.a].size;
        if (x32 && o.w == 8) o.w = 4;
        if ((g_avoid_fwd & 16) && o.w == 2) o.w = 1;
        int dw = o.w == 8 ? 8 : 4;
        o.d = pick_dst(dw, false); if (o.d < 0 || P.vals[o.d].size < dw) return false;
        if (!full_write(o.d, dw) && is_undefined_temp(o.d)) return false;
        push(o); if (full_write(o.d, dw)) defined(o.d);
        return true;
      }
      case 2: {
        o.opc = O_KLOAD; o.d = pick(KIND_K, 1); if (o.d < 0) return false;
        o.w = P.vals[o.d].size; if (r.chance(1, 4)) o.w = ws[r.below(4)]; if (o.w > P.vals[o.d].size) o.w = P.vals[o.d].size;
        o.s = SM(gen_mem(o.w, true));
        if (o.s.m.idx >= 0) { o.s.m.idx = -1; o.s.m.shift = 0; }
        push(o); return true;
      }
      case 3: {
        o.opc = O_KSTORE; o.a = pick(KIND_K, 1); if (o.a < 0) return false;
        o.w = P.vals[o.a].size; if (r.chance(1, 4)) o.w = ws[r.below(4)]; if (o.w > P.vals[o.a].size) o.w = P.vals[o.a].size;
        o.s2 = SM(gen_mem(o.w, false));
        push(o); return true;
      }
      case 4: case 5: case 6: case 7: {
        o.d = pick(KIND_K, 1); if (o.d < 0) return false;
        int w = P.vals[o.d].size; if (r.chance(1, 4)) w = ws[r.below(4)]; if (w > P.vals[o.d].size) w = P.vals[o.d].size;
        o.w = (u8)w;
        o.a = r.chance(1, 6) ? o.d : pick(KIND_K, w); if (o.a < 0) return false;
        int k2 = (int)r.below(6);
        if (k2 < 3) { o.opc = O_KALU; o.sub = (u8)r.below(KA__N); o.b = r.chance(1, 6) ? o.a : pick(KIND_K, w); if (o.b < 0) return false; }
        else if (k2 == 3) o.opc = O_KNOT;
        else if (k2 == 4) { o.opc = O_KSHI; o.sub = (u8)r.below(2); o.imm = (i64)r.below(r.chance(1, 6) ? 200 : 8 * w); }
        else o.opc = O_KMOV;
        push(o); return true;
      }
      case 8: {
        o.opc = O_KSET; o.a = pick(KIND_K, 1); if (o.a < 0) return false;
        o.w = P.vals[o.a].size;
        o.b = pick(KIND_K, o.w); if (o.b < 0) return false;
        static const u8 ccs[] = { CC_E, CC_NE, CC_B, CC_AE };
        o.cc = ccs[r.below(4)];
        o.d = pick(KIND_G, 1); if (o.d < 0) return false;
        push(o); return true;
      }
      case 9: case 10: {  // masked vector op
        o.opc = O_VALUK;
        static const u8 subs[] = { VA_PADDD, VA_PADDQ, VA_PSUBD, VA_PSUBQ, VA_PXOR, VA_PAND, VA_POR, VA_PMULLD, VA_PMINUD, VA_PMAXSD };
        o.sub = subs[r.below(10)];
        o.d = pick(KIND_V, 16); if (o.d < 0) return false;
        o.w = P.vals[o.d].size;
        int n = o.w / (o.sub == VA_PADDQ || o.sub == VA_PSUBQ ? 8 : 4);
        if (P.phys_k && r.chance(1, 3)) { o.cc = (u8)P.phys_k; o.b = pickG(2); if (o.b < 0) return false; }
        else { o.c = pick(KIND_K, (n + 7) / 8); if (o.c < 0) return false; }
        o.a = pick(KIND_V, o.w); if (o.a < 0) return false;
        if (r.chance(1, 4)) o.s = SM(gen_mem(o.w, true));
        else { int v = pick(KIND_V, o.w); if (v < 0) return false; o.s = SR(v); }
        if (r.chance(1, 5)) { o.a = o.d; o.s = SR(o.d); }
        o.flag = (u8)r.chance(1, 3);
        push(o); return true;
      }
      case 16: {  // gather: dwords from the data area, indices derived from a vector value, the mask register is consumed
        if (g_avoid_fwd & 8192) return false;
        o.opc = O_VGATHER;
        o.d = pick(KIND_V, 16); if (o.d < 0) return false;
        o.w = P.vals[o.d].size;
        int n = o.w / 4;
        o.c = pick(KIND_K, (n + 7) / 8); if (o.c < 0) return false;
        int src = pick(KIND_V, o.w); if (src < 0 || P.vals.size() > 900) return false;
        int t = new_temp(KIND_V, (u8)o.w);
        Op sh; sh.opc = O_VSHI; sh.sub = VS_PSRLD; sh.w = (u8)o.w; sh.d = t; sh.a = src; sh.imm = 26;   // indices 0..63
        push(sh); def_temp(t);
        o.a = t;
        o.imm = (i64)r.below((DATA_SIZE - 4 - 63 * 4) / 4 + 1) * 4;
        push(o); return true;
      }
      case 14: case 15: {  // masked vpternlog (merge / zero masking, virtual or physical mask register)
        o.opc = O_VTERN;
        o.d = pick(KIND_V, 16); if (o.d < 0) return false;
        o.w = P.vals[o.d].size;
        int n = o.w / 4;
        if (P.phys_k && r.chance(1, 3)) { o.cc = (u8)P.phys_k; o.b = pickG(2); if (o.b < 0) return false; }
        else { o.c = pick(KIND_K, (n + 7) / 8); if (o.c < 0) return false; }
        if (r.chance(1, 2)) { o.a = o.d; o.s = SR(o.d); }
        else {
          o.a = pick(KIND_V, o.w); if (o.a < 0) return false;
          if (r.chance(1, 4)) o.s = SM(gen_mem(o.w, true));
          else { int v = pick(KIND_V, o.w); if (v < 0) return false; o.s = SR(v); }
        }
        o.imm = r.chance(1, 2) ? (r.chance(1, 2) ? 0xFF : 0x00) : (i64)r.below(256);
        if ((g_avoid_fwd & 1024) && (o.imm == 0xFF || o.imm == 0x00)) o.imm = 0x96;
        o.flag = (u8)r.chance(1, 3);
        push(o); return true;
      }
      case 11: {  // compare into mask
        o.opc = O_VCMPK;
        o.a = pick(KIND_V, 16); if (o.a < 0) return false;
        o.w = P.vals[o.a].size;
        int n = o.w / 4;
        o.d = pick(KIND_K, (n + 7) / 8); if (o.d < 0) return false;
        if (r.chance(1, 4)) o.s = SM(gen_mem(o.w, true));
        else { int v = pick(KIND_V, o.w); if (v < 0) return false; o.s = SR(v); }
        o.imm = (i64)r.below(8); o.flag = (u8)r.chance(1, 2);
        if (r.chance(1, 3)) { o.c = pick(KIND_K, (n + 7) / 8); }
        push(o); return true;
      }
      case 12: {
        o.opc = O_VM2V;
        o.d = pick(KIND_V, 16); if (o.d < 0) return false;
        o.w = P.vals[o.d].size;
        o.a = pick(KIND_K, (o.w / 4 + 7) / 8); if (o.a < 0) return false;
        push(o); return true;
      }
      default: {
        o.opc = O_V2M;
        o.a = pick(KIND_V, 16); if (o.a < 0) return false;
        o.w = P.vals[o.a].size;
        o.d = pick(KIND_K, (o.w / 4 + 7) / 8); if (o.d < 0) return false;
        push(o); return true;
      }
    }
  }

  bool gen_d() {
    Op o;
    switch (r.below(5)) {
      case 0: if (x32) return false; o.opc = O_DFROMG; o.d = pick(KIND_D, 8); o.a = pickG(8); if (o.d < 0 || o.a < 0) return false; push(o); return true;
      case 1: {
        if (x32) return false;
        o.opc = O_DTOG; o.a = pick(KIND_D, 8); if (o.a < 0) return false;
        o.d = pick_dst(8, false); if (o.d < 0 || P.vals[o.d].size < 8) return false;
        push(o); defined(o.d); return true;
      }
      case 2: o.opc = O_DLOAD; o.d = pick(KIND_D, 8); if (o.d < 0) return false; o.s = SM(gen_mem(8, true)); push(o); return true;
      case 3: o.opc = O_DSTORE; o.a = pick(KIND_D, 8); if (o.a < 0) return false; o.s2 = SM(gen_mem(8, false)); push(o); return true;
      default: o.opc = O_DMOV; o.d = pick(KIND_D, 8); o.a = pick(KIND_D, 8); if (o.d < 0 || o.a < 0) return false; push(o); return true;
    }
  }

  // immediates passed directly as invoke arguments (InvokeNode::set_arg(i, Imm)): boundary values of every width
  i64 gen_arg_imm() {
    static const u64 kB[] = { 0, 1, ~0ull, 0x7F, 0x80, 0xFF, 0x7FFF, 0x8000, 0xFFFF, 0x7FFFFFFFull, 0x80000000ull, 0xFFFFFFFFull, 0x100000000ull,
                              0x7FFFFFFFFFFFFFFFull, 0x8000000000000000ull, 0xFFFFFFFF80000000ull, 0xFFFFFFFF7FFFFFFFull, 0xFFFFFFFFull - 1, 0x80000001ull,
                              0xC0000000ull, 0xFFFF0000ull };
    const int n = (int)(sizeof(kB) / sizeof(kB[0]));
    int k = (int)r.below(n + 6);
    if (k < n) return (i64)kB[k];
    if (k < n + 2) return (i64)(r.next() & 0xFFFFFFFFull);          // 32-bit pattern, zero-extended
    if (k < n + 3) return (i64)(int32_t)r.next();                     // 32-bit pattern, sign-extended
    return (i64)r.next();
  }

  bool gen_call() {
    Op o; o.opc = O_CALL;
    bool haveD = pick(KIND_D, 8) >= 0;
    for (int tries = 0; tries < 8; tries++) {
      bool big_bias = !strncmp(pf.name, "calls", 5) || !strncmp(pf.name, "x86-calls", 9) || !strncmp(pf.name, "a64-calls", 9);
      int id = (big_bias && r.chance(1, 2)) ? NCALLEE_OLD + (int)r.below(NCALLEE - NCALLEE_OLD) : (int)r.below(NCALLEE);
      const CalleeSig& sg = g_sigs[id];
      bool ok = true;
      o.args.clear();
      int nd_seen = 0;
      for (int k = 0; k < sg.n && ok; k++) {
        if (sg.kind[k] == AK_F64) {
          // an immediate is accepted for a floating-point argument only in a stack position (bit pattern)
          bool on_stack = x32 || (!a64 && nd_seen >= 8);
          nd_seen++;
          if (on_stack && (!haveD || r.chance(1, 3))) { o.args.push_back(SI(gen_arg_imm())); continue; }
          if (!haveD) { ok = false; break; }
          o.args.push_back(SR(pick(KIND_D, 8)));
        }
        else {
          int aw = sg.kind[k] == AK_U8 ? 1 : sg.kind[k] == AK_U16 ? 2 : sg.kind[k] == AK_U32 ? 4 : 8;
          int v = (x32 && aw == 8) ? -1 : pickG(aw);
          if (v < 0 || r.chance(1, 3)) {
            o.args.push_back(SI(gen_arg_imm()));
          }
          else o.args.push_back(SR(v));
        }
      }
      if (!ok) continue;
      o.imm = id;
      o.d = -1;
      if (sg.ret != RK_VOID && r.chance(3, 4)) {
        if (sg.ret == RK_F64) o.d = pick(KIND_D, 8);
        else if (sg.ret == RK_U64) o.d = x32 ? -1 : pick(KIND_G, 0, 64, 8);
        else o.d = pick(KIND_G, 0, 64, 4);
        if (o.d >= 0 && is_undefined_temp(o.d)) { }
      }
      push(o);
      if (o.d >= 0) defined(o.d);
      return true;
    }
    return false;
  }

  void gen_ops(int n) {
    int wsum = pf.w_basic + pf.w_fixed + pf.w_partial + pf.w_mem + pf.w_vec + pf.w_mask + pf.w_d + pf.w_call;
    for (int i = 0; i < n; i++) {
      for (int tries = 0; tries < 6; tries++) {
        int k = (int)r.below(wsum);
        bool ok;
        if ((k -= pf.w_basic) < 0) ok = gen_basic(false);
        else if ((k -= pf.w_fixed) < 0) ok = gen_fixed();
        else if ((k -= pf.w_partial) < 0) ok = gen_basic(true);
        else if ((k -= pf.w_mem) < 0) ok = gen_memop();
        else if ((k -= pf.w_vec) < 0) ok = gen_vec();
        else if ((k -= pf.w_mask) < 0) ok = gen_mask();
        else if ((k -= pf.w_d) < 0) ok = gen_d();
        else ok = gen_call();
        if (ok) break;
      }
    }
  }

  int new_block() {
    P.blocks.emplace_back();
    cur = &P.blocks.back();
    temps.clear();
    return (int)P.blocks.size() - 1;
  }
  void fill_block(int bi) {
    cur = &P.blocks[bi];
    temps.clear();
    gen_ops((int)r.range(pf.ops_lo, pf.ops_hi));
  }

  void gen_cond(Term& t) {
    t.kind = T_BR;
    t.w = (u8)pick_w();
    t.cc = (u8)r.below(CC__N);
    t.test = (u8)(a64 ? 0 : r.chance(1, 4));
    t.a = pickG(t.w);
    if (t.a < 0) { t.w = 4; t.a = P.fuel; }
    t.s = gen_src(t.w, t.a, false);
    if (t.s.t == S_NONE) t.s = SI(0);
  }

  // structured regions; blocks are laid out in generation order
  int budget = 0;
  void gen_region(int depth) {
    int items = (int)r.range(1, 3);
    for (int it = 0; it < items; it++) {
      if (budget <= 0) break;
      int k = (int)r.below(9 + pf.w_switch);
      if (depth >= 3 || budget < 3) k = 0;
      if (k < 3) { int b = new_block(); budget--; fill_block(b); }
      else if (k < 5) {  // if-then
        int c = new_block(); budget--; fill_block(c);
        gen_cond(P.blocks[c].term);
        gen_region(depth + 1);
        int join = (int)P.blocks.size();
        P.blocks[c].term.target = join;
        int j = new_block(); budget--; fill_block(j);
      }
      else if (k < 7) {  // if-else
        int c = new_block(); budget--; fill_block(c);
        gen_cond(P.blocks[c].term);
        gen_region(depth + 1);
        int e = new_block(); budget--;  // end of the then-part: jump over the else-part
        P.blocks[e].term.kind = T_JMP;
        P.blocks[c].term.target = (int)P.blocks.size();
        gen_region(depth + 1);
        if ((int)P.blocks.size() == P.blocks[c].term.target) { int b = new_block(); budget--; fill_block(b); }
        P.blocks[e].term.target = (int)P.blocks.size();
        int j = new_block(); budget--; fill_block(j);
      }
      else if (k < 9) {  // counted loop
        int pre = new_block(); budget--; fill_block(pre);
        int cnt = new_val(KIND_G, 4, false, r.chance(1, 2));
        init_counter.push_back(cnt);
        Op o; o.opc = O_MOV; o.w = 4; o.d = cnt; o.s = SI((i64)r.range(1, 4));
        P.blocks[pre].ops.push_back(o);
        int head = (int)P.blocks.size();
        gen_region(depth + 1);
        if ((int)P.blocks.size() == head) { int b = new_block(); budget--; fill_block(b); }
        int latch = new_block(); budget--; fill_block(latch);
        Term& t = P.blocks[latch].term;
        t.kind = T_DEC; t.a = cnt; t.w = 4; t.target = head;
      }
      else {  // switch through an annotated jump table
        int s = new_block(); budget--; fill_block(s);
        int n = r.chance(1, 2) ? 2 : 4;
        std::vector<int> starts, ends;
        int ncase = (int)r.range(2, n);
        for (int c = 0; c < ncase; c++) {
          starts.push_back((int)P.blocks.size());
          int b = new_block(); budget--; fill_block(b);
          if (depth < 2 && r.chance(1, 3)) gen_region(depth + 2);
          int e = new_block(); budget--;
          P.blocks[e].term.kind = T_JMP;
          ends.push_back(e);
        }
        int join = (int)P.blocks.size();
        int j = new_block(); budget--; fill_block(j);
        for (int e : ends) P.blocks[e].term.target = join;
        Term& t = P.blocks[s].term;
        t.kind = T_SWITCH; t.w = 4;
        cur = &P.blocks[s]; temps.clear();
        t.a = pickG(4); if (t.a < 0) t.a = P.fuel;
        for (int i = 0; i < n; i++) t.targets.push_back(i < ncase ? starts[i] : (r.chance(1, 3) ? join : starts[r.below(ncase)]));
      }
    }
  }
  std::vector<int> init_counter;
};

static void compute_fuel_flags(Program& P) {
  int nb = (int)P.blocks.size();
  for (auto& b : P.blocks) b.fuel = false;
  for (int bi = 0; bi < nb; bi++) {
    const Term& t = P.blocks[bi].term;
    auto mark = [&](int tgt) { if (tgt <= bi && tgt >= 1 && tgt < nb - 1) P.blocks[tgt].fuel = true; };
    if (t.kind == T_JMP || t.kind == T_BR || t.kind == T_DEC) mark(t.target);
    if (t.kind == T_SWITCH) for (int x : t.targets) mark(x);
  }
}

// removes blocks that cannot be reached from the entry (renumbers targets)
static int prune_unreachable(Program& P) {
  int nb = (int)P.blocks.size();
  std::vector<char> reach(nb, 0);
  std::vector<int> work(1, 0), succ;
  reach[0] = 1;
  while (!work.empty()) {
    int b = work.back(); work.pop_back();
    block_succ(P, b, succ);
    for (int s : succ) if (s >= 0 && s < nb && !reach[s]) { reach[s] = 1; work.push_back(s); }
  }
  reach[nb - 1] = 1;
  std::vector<int> remap(nb, -1);
  std::vector<Block> nbk;
  int removed = 0;
  for (int i = 0; i < nb; i++) {
    if (reach[i]) { remap[i] = (int)nbk.size(); nbk.push_back(P.blocks[i]); } else removed++;
  }
  if (!removed) return 0;
  for (Block& b : nbk) {
    if (b.term.target >= 0) b.term.target = remap[b.term.target];
    for (int& t : b.term.targets) t = remap[t];
  }
  P.blocks.swap(nbk);
  return removed;
}

// shape: body block terminators given as a list of (kind, target) for systematic CFG enumeration
struct ShapeSpec { int n; int kind[5]; int target[5]; };

static bool decode_shape(u64 idx, ShapeSpec& sp) {
  // enumerates n = 1..5 ; per block one of: FALL, JMP j (j in 1..n), BR j (j in 1..n)
  for (int n = 1; n <= 5; n++) {
    u64 per = 1 + 2 * (u64)n;
    u64 cnt = 1;
    for (int i = 0; i < n; i++) cnt *= per;
    if (idx < cnt) {
      sp.n = n;
      for (int i = 0; i < n; i++) {
        u64 c = idx % per; idx /= per;
        if (c == 0) { sp.kind[i] = T_FALL; sp.target[i] = 0; }
        else if (c <= (u64)n) { sp.kind[i] = T_JMP; sp.target[i] = (int)c; }
        else { sp.kind[i] = T_BR; sp.target[i] = (int)(c - n); }
      }
      return true;
    }
    idx -= cnt;
  }
  return false;
}
static u64 shape_count() {
  u64 tot = 0;
  for (int n = 1; n <= 5; n++) { u64 c = 1; for (int i = 0; i < n; i++) c *= 1 + 2 * (u64)n; tot += c; }
  return tot;
}

static bool g_keep_unreachable = true;
// constructs the generator avoids (set by the Python side when the corresponding probe shows a defect)
enum : u32 { AV_CMPXCHG = 1, AV_SAMEREG_NARROW = 2, AV_RMW32_ON64 = 4, AV_HI8 = 8, AV_KMOVW_TOG = 16, AV_VECARG_AVX512 = 32, AV_OR_MEM_M1 = 64, AV_AND_ZERO = 128, AV_A64_TBL_MULTI = 256, AV_SAMEREG_NARROW_VEC = 512, AV_TERN_MASKED = 1024, AV_HINT_VIEWS = 2048, AV_BT_REGIDX = 4096, AV_GATHER = 8192, AV_NARROW_PARAM_WIDE_VREG = 16384 };
u32 g_avoid_fwd = 0;
#define g_avoid g_avoid_fwd

static Program gen_program(Rng& r, const Profile& pf, i64 shape_idx) {
  Program P;
  P.arch = pf.arch; P.mode = pf.mode; P.profile = pf.name;
  Gen g(r, P, pf);
  bool x32 = pf.arch == ARCH_X86, a64 = pf.arch == ARCH_A64;

  // ---- values ----
  P.fuel = g.new_val(KIND_G, 4, false, r.chance(1, 2));
  int ng = (int)r.range(pf.ng_lo, pf.ng_hi), nv = (int)r.range(pf.nv_lo, pf.nv_hi);
  int nk = (int)r.range(pf.nk_lo, pf.nk_hi), nd = (int)r.range(pf.nd_lo, pf.nd_hi);
  for (int i = 0; i < ng; i++) {
    static const u8 szs[] = { 1, 2, 4, 4, 8, 8, 8, 4 };
    u8 sz = szs[r.below(8)];
    if (x32 && sz == 8) sz = 4;
    if (a64 && sz < 4) sz = 4;
    g.new_val(KIND_G, sz, false, r.chance(3, 4));
  }
  for (int i = 0; i < nv; i++) {
    u8 sz = 16;
    if (P.mode == MODE_AVX) sz = r.chance(1, 2) ? 32 : 16;
    if (P.mode == MODE_AVX512) sz = r.chance(1, 2) ? 64 : (r.chance(1, 2) ? 32 : 16);
    g.new_val(KIND_V, sz, false, r.chance(3, 4));
  }
  for (int i = 0; i < nk; i++) {
    static const u8 szs[] = { 8, 8, 8, 4, 2, 2, 1, 8 };
    g.new_val(KIND_K, szs[r.below(8)], false, r.chance(3, 4));
  }
  for (int i = 0; i < nd; i++) g.new_val(KIND_D, 8, false, r.chance(3, 4));
  P.use_stack = !a64 && (int)r.below(100) < pf.stack_pct;
  P.sigclass = (u8)r.below(3);
  if (a64 && P.sigclass == 2) P.sigclass = 1;
  if (!a64 && r.chance(1, 3)) P.sigclass = (u8)(3 + r.below(4));   // many parameters: most of them arrive on the stack
  P.preserved_fp = !a64 && r.chance(1, 4);
  P.cconv = (u8)r.below(4);
  P.fuel_init = (int)r.range(6, 40);
  if (P.mode == MODE_AVX512 && !x32 && r.chance(1, 2)) P.phys_k = (int)r.range(1, 7);

  // ---- entry block ----
  int entry = g.new_block();
  const SigClass& sc = kSigClasses[P.sigclass];
  P.argbind.assign(sc.ni + sc.nd, -1);
  // many narrow integer parameters, all live on entry (more than there are registers), bound to equal or wider virtual registers
  if (!a64 && sc.ni >= 14 && r.chance(1, 2)) {
    for (int a = 0; a < sc.ni && P.vals.size() < 240; a++) {
      int ps = psize(sc.isz[a]);
      if (x32 && ps == 8) continue;
      if ((g_avoid_fwd & 16384) && ps < 4) continue;
      int vs = ps;
      if (!(g_avoid_fwd & 16384) && r.chance(1, 2)) { vs = x32 ? 4 : (r.chance(2, 3) ? 8 : 4); if (vs < ps) vs = ps; }
      int vi = g.new_val(KIND_G, (u8)vs, false, true);
      P.vals[vi].sgn = psigned(sc.isz[a]);
      P.argbind[a] = vi;
    }
  }
  // double parameters bound to a 128-bit virtual register (wider than the parameter): a stack-passed one cannot use the caller's slot as its home
  if (!a64 && sc.nd > 0 && !((g_avoid_fwd & 32) && P.mode == MODE_AVX512)) {
    for (int a = sc.nd - 1; a >= 0 && P.vals.size() < 240; a--) {
      if (!r.chance(a >= 8 || x32 ? 1 : 0, 2) && !r.chance(1, 8)) continue;
      int vi = g.new_val(KIND_V, 16, false, true);
      P.vals[vi].half = 1;
      P.argbind[sc.ni + a] = vi;
    }
    // sometimes every double parameter is live on entry: more parameters than vector registers, so some stay on / move within the stack
    if (sc.nd >= 10 && r.chance(1, 2)) {
      for (int a = 0; a < sc.nd && P.vals.size() < 250; a++) {
        if (P.argbind[sc.ni + a] >= 0) continue;
        P.argbind[sc.ni + a] = g.new_val(KIND_D, 8, false, true);
      }
    }
  }
  {
    Block& b = P.blocks[entry];
    Op o; o.opc = O_MOV; o.w = 4; o.d = P.fuel; o.s = SI(P.fuel_init); b.ops.push_back(o);
    std::vector<int> order;
    for (int i = 1; i < (int)P.vals.size(); i++) order.push_back(i);
    for (int i = (int)order.size() - 1; i > 0; i--) std::swap(order[i], order[r.below(i + 1)]);
    for (int vi : order) {
      const ValDef& d = P.vals[vi];
      Op q;
      if (d.half) continue;   // bound to a parameter above
      if (std::find(P.argbind.begin(), P.argbind.end(), vi) != P.argbind.end()) continue;
      if (d.kind == KIND_G) {
        // function argument?
        bool bound = false;
        if (r.chance(1, 3)) {
          bool wider_ok = r.chance(1, 2) && !(g_avoid_fwd & 16384);
          for (int a = 0; a < sc.ni; a++) {
            int ps = psize(sc.isz[a]);
            if (P.argbind[a] >= 0 || !(ps == d.size || (wider_ok && ps < d.size))) continue;
            if (x32 && ps == 8) continue;
            if ((g_avoid_fwd & 16384) && ps < 4) continue;
            P.argbind[a] = vi; P.vals[vi].sgn = psigned(sc.isz[a]); bound = true; break;
          }
        }
        if (bound) continue;
        q.opc = O_MOV; q.w = d.size; q.d = vi;
        if (r.chance(1, 4)) { q.s = SI(g.gen_imm(d.size)); if (d.size == 8 && r.chance(1, 2)) q.s.imm = (i64)r.next(); }
        else { MemRef m; m.off = (int)r.below(DATA_SIZE / 8) * 8; q.s = SM(m); }
      }
      else if (d.kind == KIND_V) { q.opc = O_VMOV; q.w = d.size; q.d = vi; MemRef m; m.off = (int)r.below((DATA_SIZE - d.size) / 16 + 1) * 16; q.s = SM(m); }
      else if (d.kind == KIND_K) { q.opc = O_KLOAD; q.w = d.size; q.d = vi; MemRef m; m.off = (int)r.below(DATA_SIZE / 8) * 8; q.s = SM(m); }
      else {
        bool bound = false;
        if (r.chance(1, 2) && !((g_avoid_fwd & 32) && P.mode == MODE_AVX512)) for (int a = 0; a < sc.nd; a++) if (P.argbind[sc.ni + a] < 0 && r.chance(1, 2)) { P.argbind[sc.ni + a] = vi; bound = true; break; }
        if (bound) continue;
        q.opc = O_DLOAD; q.d = vi; MemRef m; m.off = (int)r.below(DATA_SIZE / 8) * 8; q.s = SM(m);
      }
      b.ops.push_back(q);
    }
    if (P.use_stack) {
      int cw = x32 ? 4 : 8;
      for (int off = 0; off < STK_SIZE; off += cw) {
        Op s; s.opc = O_STORE; s.w = (u8)cw; s.s = SI((i64)(int32_t)r.next()); MemRef m; m.space = M_STK; m.off = off; s.s2 = SM(m);
        b.ops.push_back(s);
      }
    }
  }

  // ---- body ----
  if (shape_idx >= 0) {
    ShapeSpec sp;
    decode_shape((u64)shape_idx, sp);
    char nm[64]; snprintf(nm, sizeof nm, "shape:%lld", (long long)shape_idx); P.shape = nm;
    int first = (int)P.blocks.size();
    for (int i = 0; i < sp.n; i++) { int b = g.new_block(); g.fill_block(b); }
    for (int i = 0; i < sp.n; i++) {
      Term& t = P.blocks[first + i].term;
      g.cur = &P.blocks[first + i]; g.temps.clear();
      if (sp.kind[i] == T_JMP) { t.kind = T_JMP; t.target = first + sp.target[i] - 1; }
      else if (sp.kind[i] == T_BR) { g.gen_cond(t); t.target = first + sp.target[i] - 1; }
    }
  }
  else {
    g.budget = (int)r.range(pf.blocks_lo, pf.blocks_hi);
    while (g.budget > 0) g.gen_region(0);
    // extra edges (possibly irreducible)
    int nb = (int)P.blocks.size();
    int extra = (int)r.below(3);
    for (int e = 0; e < extra && nb > 2; e++) {
      int b = 1 + (int)r.below(nb - 1);
      if (P.blocks[b].term.kind != T_FALL) continue;
      g.cur = &P.blocks[b]; g.temps.clear();
      g.gen_cond(P.blocks[b].term);
      P.blocks[b].term.target = 1 + (int)r.below(nb);  // may be the final block (index nb)
    }
    P.shape = "random";
    // early returns: some unconditional jumps become "ret" in the middle of the function
    for (size_t b = 1; b < P.blocks.size(); b++)
      if (P.blocks[b].term.kind == T_JMP && r.chance(1, 8)) { P.blocks[b].term = Term(); P.blocks[b].term.kind = T_RET; }
  }
  // data embedded inside the function: behind unconditional jumps, annotated jumps and non-final rets
  for (size_t b = 1; b < P.blocks.size(); b++) {
    u8 k = P.blocks[b].term.kind;
    if ((k == T_JMP || k == T_RET || k == T_SWITCH) && r.chance(1, 6)) { P.blocks[b].data_after = (u8)r.range(1, 6); P.blocks[b].data_kind = (u8)r.below(2); }
  }
  P.tables_inside = r.chance(1, 2);
  for (int c : g.init_counter) {
    Op o; o.opc = O_MOV; o.w = 4; o.d = c; o.s = SI(1);
    P.blocks[entry].ops.push_back(o);
  }

  // ---- final block: dump + ret ----
  int fin = g.new_block();
  {
    Block& b = P.blocks[fin];
    for (int vi = 0; vi < (int)P.vals.size(); vi++) {
      const ValDef& d = P.vals[vi];
      if (d.local || !d.dumped || vi >= MAX_VALS) continue;
      Op q; MemRef m; m.off = DUMP_OFF + vi * 64;
      if (d.kind == KIND_G) { q.opc = O_STORE; q.w = d.size; q.s = SR(vi); q.s2 = SM(m); }
      else if (d.kind == KIND_V && d.half) { q.opc = O_DSTORE; q.a = vi; q.s2 = SM(m); }
      else if (d.kind == KIND_V) { q.opc = O_VSTORE; q.w = d.size; q.a = vi; q.s2 = SM(m); }
      else if (d.kind == KIND_K) { q.opc = O_KSTORE; q.w = d.size; q.a = vi; q.s2 = SM(m); }
      else { q.opc = O_DSTORE; q.a = vi; q.s2 = SM(m); }
      b.ops.push_back(q);
    }
    b.term.kind = T_RET;
    if (r.chance(1, 4)) { b.data_after = (u8)r.range(1, 8); b.data_kind = (u8)r.below(2); }   // data between the final ret and end_func()
    // return value
    g.cur = &b; g.temps.clear();
    int rv = -1;
    if (r.chance(1, 5) && !a64) rv = g.pick(KIND_D, 8);
    if (rv < 0) rv = g.pick(KIND_G, x32 ? 1 : 1);
    if (rv < 0) rv = P.fuel;
    P.retval = rv;
  }
  // targets that point past the body go to the final block
  for (auto& b : P.blocks) {
    if (b.term.target >= fin) b.term.target = fin;
    for (int& t : b.term.targets) if (t >= fin) t = fin;
  }
  compute_fuel_flags(P);
  if (!g_keep_unreachable) {
    // pruning can only remove retreating edges, never add them; recompute the fuel checks afterwards
    while (prune_unreachable(P)) compute_fuel_flags(P);
  }
  return P;
}

// ---------------------------------------------------------------------------------------------------------------
// Serialisation (witnesses)
// ---------------------------------------------------------------------------------------------------------------

static std::string fmt_mem(const MemRef& m) {
  char b[96];
  const char* sp = m.space == M_BUF ? "buf" : m.space == M_STK ? "stk" : "const";
  if (m.idx >= 0) snprintf(b, sizeof b, "[%s+v%d<<%d+%d]", sp, m.idx, m.shift, m.off);
  else snprintf(b, sizeof b, "[%s+%d]", sp, m.off);
  return b;
}
static std::string fmt_src(const Src& s) {
  char b[64];
  switch (s.t) {
    case S_REG: snprintf(b, sizeof b, "v%d", s.v); return b;
    case S_IMM: snprintf(b, sizeof b, "#%lld", (long long)s.imm); return b;
    case S_MEM: return fmt_mem(s.m);
    default: return "-";
  }
}
static std::string fmt_op(const Op& o) {
  char b[256];
  snprintf(b, sizeof b, "%s.%d w=%d w2=%d cc=%d f=%d d=%d d2=%d a=%d b=%d c=%d imm=%lld s=%s s2=%s",
           kOpNames[o.opc], o.sub, o.w, o.w2, o.cc, o.flag, o.d, o.d2, o.a, o.b, o.c, (long long)o.imm,
           fmt_src(o.s).c_str(), fmt_src(o.s2).c_str());
  std::string r = b;
  if (o.opc == O_CALL) { r += " args="; for (const Src& a : o.args) r += fmt_src(a) + ","; }
  return r;
}
static std::string serialise(const Program& P) {
  std::string s;
  char b[256];
  static const char* archs[] = { "x64", "x86", "a64" };
  snprintf(b, sizeof b, "program arch=%s mode=%d profile=%s shape=%s sig=%d cconv=%d ret=v%d fuel=v%d stack=%d physk=%d fp=%d tabin=%d\n", archs[P.arch], P.mode,
           P.profile.c_str(), P.shape.c_str(), P.sigclass, P.cconv, P.retval, P.fuel, (int)P.use_stack, P.phys_k, (int)P.preserved_fp, (int)P.tables_inside);
  s += b;
  s += "vals:";
  for (size_t i = 0; i < P.vals.size(); i++) {
    const ValDef& d = P.vals[i];
    snprintf(b, sizeof b, " v%zu=%c%d%s%s", i, "gvdk"[d.kind], d.size * 8, d.half ? "h" : (d.local ? "t" : (d.sgn ? "s" : "")), d.dumped ? "*" : "");
    s += b;
  }
  s += "\nargs:";
  for (size_t i = 0; i < P.argbind.size(); i++) { snprintf(b, sizeof b, " a%zu=v%d", i, P.argbind[i]); s += b; }
  s += "\n";
  for (size_t bi = 0; bi < P.blocks.size(); bi++) {
    const Block& bl = P.blocks[bi];
    snprintf(b, sizeof b, "B%zu%s%s:\n", bi, bl.fuel ? " (fuel)" : "", bl.data_after ? (bl.data_kind ? " (+random data after)" : " (+trap data after)") : "");
    s += b;
    for (const Op& o : bl.ops) { s += "  "; s += fmt_op(o); s += "\n"; }
    const Term& t = bl.term;
    static const char* tk[] = { "fall", "jmp", "br", "dec", "switch", "ret" };
    snprintf(b, sizeof b, "  -> %s cc=%d w=%d test=%d a=v%d s=%s target=B%d", tk[t.kind], t.cc, t.w, t.test, t.a, fmt_src(t.s).c_str(), t.target);
    s += b;
    for (int x : t.targets) { snprintf(b, sizeof b, " B%d", x); s += b; }
    s += "\n";
  }
  return s;
}

static u64 program_hash(const Program& P) {
  std::string s = serialise(P);
  return fnv1a(s.data(), s.size());
}

// ---------------------------------------------------------------------------------------------------------------
// x86 / x86-64 emitter: builds the program through x86::Compiler exactly as a user would
// ---------------------------------------------------------------------------------------------------------------

class ErrH : public ErrorHandler {
public:
  Error err = Error::kOk;
  std::string msg;
  void handle_error(Error e, const char* m, BaseEmitter*) override {
    if (err == Error::kOk) { err = e; msg = m ? m : ""; }
  }
};

struct DataRange { Label lab; int size; bool inside; };

struct EmitStats {
  int loads = 0, saves = 0, moves = 0, swaps = 0, rm_subst = 0;
  int user_insts = 0;
  bool nontrivial() const { return loads + saves + moves + swaps + rm_subst > 0; }
};

struct NodeRec { BaseNode* node; u32 optypes; };

static inline u32 optypes_of(const InstNode* n) {
  u32 t = 0;
  size_t c = n->op_count();
  for (size_t i = 0; i < c && i < 6; i++) t |= (u32(n->op(i).op_type()) & 7u) << (4 * i);
  return t;
}

static void collect_ra_stats(BaseBuilder& cb, const std::vector<NodeRec>& recs, EmitStats& st) {
  for (BaseNode* n = cb.first_node(); n; n = n->next()) {
    if (!n->is_inst()) continue;
    const char* c = n->inline_comment();
    if (!c) continue;
    if (!strncmp(c, "<LOAD>", 6)) st.loads++;
    else if (!strncmp(c, "<SAVE>", 6)) st.saves++;
    else if (!strncmp(c, "<MOVE>", 6)) st.moves++;
    else if (!strncmp(c, "<SWAP>", 6)) st.swaps++;
  }
  for (const NodeRec& r : recs) {
    if (!r.node->is_inst()) continue;
    u32 now = optypes_of(r.node->as<InstNode>());
    for (int i = 0; i < 6; i++) {
      u32 a = (r.optypes >> (4 * i)) & 7, b = (now >> (4 * i)) & 7;
      if (a == u32(OperandType::kReg) && b == u32(OperandType::kMem)) st.rm_subst++;
    }
  }
}

static const InstId kJcc[CC__N] = { x86::Inst::kIdJe, x86::Inst::kIdJne, x86::Inst::kIdJb, x86::Inst::kIdJae, x86::Inst::kIdJbe,
  x86::Inst::kIdJa, x86::Inst::kIdJl, x86::Inst::kIdJge, x86::Inst::kIdJle, x86::Inst::kIdJg, x86::Inst::kIdJs, x86::Inst::kIdJns };
static const InstId kSetcc[CC__N] = { x86::Inst::kIdSete, x86::Inst::kIdSetne, x86::Inst::kIdSetb, x86::Inst::kIdSetae, x86::Inst::kIdSetbe,
  x86::Inst::kIdSeta, x86::Inst::kIdSetl, x86::Inst::kIdSetge, x86::Inst::kIdSetle, x86::Inst::kIdSetg, x86::Inst::kIdSets, x86::Inst::kIdSetns };
static const InstId kCmovcc[CC__N] = { x86::Inst::kIdCmove, x86::Inst::kIdCmovne, x86::Inst::kIdCmovb, x86::Inst::kIdCmovae, x86::Inst::kIdCmovbe,
  x86::Inst::kIdCmova, x86::Inst::kIdCmovl, x86::Inst::kIdCmovge, x86::Inst::kIdCmovle, x86::Inst::kIdCmovg, x86::Inst::kIdCmovs, x86::Inst::kIdCmovns };

struct VAluIds { InstId sse, avx, evex; };
static const VAluIds kVAlu[VA__N] = {
  { x86::Inst::kIdPaddb, x86::Inst::kIdVpaddb, x86::Inst::kIdVpaddb }, { x86::Inst::kIdPaddw, x86::Inst::kIdVpaddw, x86::Inst::kIdVpaddw },
  { x86::Inst::kIdPaddd, x86::Inst::kIdVpaddd, x86::Inst::kIdVpaddd }, { x86::Inst::kIdPaddq, x86::Inst::kIdVpaddq, x86::Inst::kIdVpaddq },
  { x86::Inst::kIdPsubb, x86::Inst::kIdVpsubb, x86::Inst::kIdVpsubb }, { x86::Inst::kIdPsubw, x86::Inst::kIdVpsubw, x86::Inst::kIdVpsubw },
  { x86::Inst::kIdPsubd, x86::Inst::kIdVpsubd, x86::Inst::kIdVpsubd }, { x86::Inst::kIdPsubq, x86::Inst::kIdVpsubq, x86::Inst::kIdVpsubq },
  { x86::Inst::kIdPxor, x86::Inst::kIdVpxor, x86::Inst::kIdVpxord }, { x86::Inst::kIdPand, x86::Inst::kIdVpand, x86::Inst::kIdVpandd },
  { x86::Inst::kIdPor, x86::Inst::kIdVpor, x86::Inst::kIdVpord }, { x86::Inst::kIdPandn, x86::Inst::kIdVpandn, x86::Inst::kIdVpandnd },
  { x86::Inst::kIdPmulld, x86::Inst::kIdVpmulld, x86::Inst::kIdVpmulld }, { x86::Inst::kIdPmullw, x86::Inst::kIdVpmullw, x86::Inst::kIdVpmullw },
  { x86::Inst::kIdPminud, x86::Inst::kIdVpminud, x86::Inst::kIdVpminud }, { x86::Inst::kIdPmaxsd, x86::Inst::kIdVpmaxsd, x86::Inst::kIdVpmaxsd },
  { x86::Inst::kIdPminub, x86::Inst::kIdVpminub, x86::Inst::kIdVpminub }, { x86::Inst::kIdPmaxsw, x86::Inst::kIdVpmaxsw, x86::Inst::kIdVpmaxsw },
  { x86::Inst::kIdPcmpeqd, x86::Inst::kIdVpcmpeqd, 0 }, { x86::Inst::kIdPcmpgtd, x86::Inst::kIdVpcmpgtd, 0 },
  { x86::Inst::kIdPcmpeqb, x86::Inst::kIdVpcmpeqb, 0 }, { x86::Inst::kIdPunpckldq, x86::Inst::kIdVpunpckldq, x86::Inst::kIdVpunpckldq },
  { x86::Inst::kIdPunpckhqdq, x86::Inst::kIdVpunpckhqdq, x86::Inst::kIdVpunpckhqdq }, { x86::Inst::kIdPshufb, x86::Inst::kIdVpshufb, x86::Inst::kIdVpshufb },
  { x86::Inst::kIdPavgb, x86::Inst::kIdVpavgb, x86::Inst::kIdVpavgb }, { x86::Inst::kIdPaddusb, x86::Inst::kIdVpaddusb, x86::Inst::kIdVpaddusb },
};
static const InstId kVShiSse[VS__N] = { x86::Inst::kIdPsllw, x86::Inst::kIdPslld, x86::Inst::kIdPsllq, x86::Inst::kIdPsrlw, x86::Inst::kIdPsrld,
  x86::Inst::kIdPsrlq, x86::Inst::kIdPsraw, x86::Inst::kIdPsrad };
static const InstId kVShiAvx[VS__N] = { x86::Inst::kIdVpsllw, x86::Inst::kIdVpslld, x86::Inst::kIdVpsllq, x86::Inst::kIdVpsrlw, x86::Inst::kIdVpsrld,
  x86::Inst::kIdVpsrlq, x86::Inst::kIdVpsraw, x86::Inst::kIdVpsrad };

static inline int widx(int w) { return w == 1 ? 0 : w == 2 ? 1 : w == 4 ? 2 : 3; }
static const InstId kKmov[4] = { x86::Inst::kIdKmovb, x86::Inst::kIdKmovw, x86::Inst::kIdKmovd, x86::Inst::kIdKmovq };
static const InstId kKalu[KA__N][4] = {
  { x86::Inst::kIdKandb, x86::Inst::kIdKandw, x86::Inst::kIdKandd, x86::Inst::kIdKandq },
  { x86::Inst::kIdKorb, x86::Inst::kIdKorw, x86::Inst::kIdKord, x86::Inst::kIdKorq },
  { x86::Inst::kIdKxorb, x86::Inst::kIdKxorw, x86::Inst::kIdKxord, x86::Inst::kIdKxorq },
  { x86::Inst::kIdKandnb, x86::Inst::kIdKandnw, x86::Inst::kIdKandnd, x86::Inst::kIdKandnq },
  { x86::Inst::kIdKxnorb, x86::Inst::kIdKxnorw, x86::Inst::kIdKxnord, x86::Inst::kIdKxnorq },
  { x86::Inst::kIdKaddb, x86::Inst::kIdKaddw, x86::Inst::kIdKaddd, x86::Inst::kIdKaddq },
};
static const InstId kKnot[4] = { x86::Inst::kIdKnotb, x86::Inst::kIdKnotw, x86::Inst::kIdKnotd, x86::Inst::kIdKnotq };
static const InstId kKshl[4] = { x86::Inst::kIdKshiftlb, x86::Inst::kIdKshiftlw, x86::Inst::kIdKshiftld, x86::Inst::kIdKshiftlq };
static const InstId kKshr[4] = { x86::Inst::kIdKshiftrb, x86::Inst::kIdKshiftrw, x86::Inst::kIdKshiftrd, x86::Inst::kIdKshiftrq };
static const InstId kKortest[4] = { x86::Inst::kIdKortestb, x86::Inst::kIdKortestw, x86::Inst::kIdKortestd, x86::Inst::kIdKortestq };

struct X86Emitter {
  x86::Compiler& cc;
  const Program& P;
  bool is64;
  std::vector<Reg> regs;
  x86::Gp bufp;
  x86::Mem stk;
  std::vector<Label> labels;
  struct Table { Label lab; std::vector<int> targets; };
  std::vector<Table> tables;
  std::vector<NodeRec> recs;
  std::vector<Label> data_labels;   // labels that start data (jump tables, constant pool)
  std::vector<DataRange> dranges;   // the same with sizes (-1: constant pool, extends to the next range / end of code)
  bool sse, avx512;

  X86Emitter(x86::Compiler& c, const Program& p) : cc(c), P(p) {
    is64 = p.arch == ARCH_X64;
    sse = p.mode == MODE_SSE;
    avx512 = p.mode == MODE_AVX512;
  }

  void rec() {
    BaseNode* n = cc.cursor();
    if (n && n->is_inst()) recs.push_back(NodeRec{ n, optypes_of(n->as<InstNode>()) });
  }
  void E(InstId id) { cc.emit(id); rec(); }
  void E(InstId id, const Operand_& a) { cc.emit(id, a); rec(); }
  void E(InstId id, const Operand_& a, const Operand_& b) { cc.emit(id, a, b); rec(); }
  void E(InstId id, const Operand_& a, const Operand_& b, const Operand_& c) { cc.emit(id, a, b, c); rec(); }
  void E(InstId id, const Operand_& a, const Operand_& b, const Operand_& c, const Operand_& d) { cc.emit(id, a, b, c, d); rec(); }

  x86::Gp g(int v, int w) const {
    const x86::Gp& r = regs[v].as<x86::Gp>();
    switch (w) {
      case 1: return r.r8();
      case 2: return r.r16();
      case 4: return r.r32();
      default: return r.r64();
    }
  }
  x86::Gp gptr(int v) const { return is64 ? regs[v].as<x86::Gp>().r64() : regs[v].as<x86::Gp>().r32(); }
  x86::Vec vv(int v, int w) const {
    const x86::Vec& r = regs[v].as<x86::Vec>();
    return w == 16 ? r.xmm() : w == 32 ? r.ymm() : r.zmm();
  }
  x86::KReg kk(int v) const { return regs[v].as<x86::KReg>(); }

  x86::Mem mem(const MemRef& m, int size) {
    x86::Mem r;
    if (m.space == M_CONST) {
      u8 c[64]; const_data(m.off, c);
      r = cc.new_const(ConstPoolScope::kLocal, c, (size_t)size);
      if (data_labels.empty() || true) {
        Label l; l.set_id(r.base_id());
        bool seen = false;
        for (const Label& x : data_labels) if (x.id() == l.id()) seen = true;
        if (!seen) { data_labels.push_back(l); dranges.push_back(DataRange{ l, -1, false }); }
      }
    }
    else if (m.space == M_STK) {
      r = stk.clone_adjusted(m.off);
      if (m.idx >= 0) r.set_index(gptr(m.idx), m.shift);
    }
    else {
      if (m.idx >= 0) r = x86::ptr(bufp, gptr(m.idx), m.shift, m.off);
      else r = x86::ptr(bufp, m.off);
    }
    r.set_size((u32)size);
    return r;
  }

  Operand src(const Src& s, int w) {
    switch (s.t) {
      case S_REG: return g(s.v, w);
      case S_IMM: return Imm(s.imm);
      case S_MEM: return mem(s.m, w);
      default: return Operand();
    }
  }
  Operand vsrc(const Src& s, int w) {
    if (s.t == S_REG) return vv(s.v, w);
    return mem(s.m, w);
  }

  InstId vmov_rr(int w) const { return sse ? x86::Inst::kIdMovdqa : (w == 64 ? x86::Inst::kIdVmovdqa32 : x86::Inst::kIdVmovdqa); }
  InstId vmov_m(int w) const { return sse ? x86::Inst::kIdMovdqu : (w == 64 ? x86::Inst::kIdVmovdqu32 : x86::Inst::kIdVmovdqu); }

  void emit_cmp(int a, const Src& s, int w, bool test) {
    E(test ? x86::Inst::kIdTest : x86::Inst::kIdCmp, g(a, w), src(s, w));
  }

  void emit_op(const Op& o) {
    using namespace x86;
    int w = o.w;
    switch (o.opc) {
      case O_NOP: break;
      case O_MOV: E(Inst::kIdMov, g(o.d, w), src(o.s, w)); break;
      case O_STORE: E(Inst::kIdMov, mem(o.s2.m, w), src(o.s, w)); break;
      case O_ALU: case O_ALUM: {
        static const InstId ids[] = { Inst::kIdAdd, Inst::kIdSub, Inst::kIdAnd, Inst::kIdOr, Inst::kIdXor };
        if (o.opc == O_ALU) E(ids[o.sub], g(o.d, w), src(o.s, w));
        else E(ids[o.sub], mem(o.s2.m, w), src(o.s, w));
        break;
      }
      case O_ADC2:
        E(o.sub ? Inst::kIdSub : Inst::kIdAdd, g(o.d, w), src(o.s, w));
        E(o.sub ? Inst::kIdSbb : Inst::kIdAdc, g(o.d2, w), src(o.s2, w));
        break;
      case O_UN: case O_UNM: {
        static const InstId ids[] = { Inst::kIdNeg, Inst::kIdNot, Inst::kIdInc, Inst::kIdDec, Inst::kIdBswap };
        if (o.opc == O_UN) E(ids[o.sub], g(o.d, w)); else E(ids[o.sub], mem(o.s2.m, w));
        break;
      }
      case O_SHI: case O_SHC: {
        static const InstId ids[] = { Inst::kIdShl, Inst::kIdShr, Inst::kIdSar, Inst::kIdRol, Inst::kIdRor };
        if (o.opc == O_SHI) E(ids[o.sub], g(o.d, w), Imm(o.imm)); else E(ids[o.sub], g(o.d, w), g(o.c, 1));
        break;
      }
      case O_IMUL2: E(Inst::kIdImul, g(o.d, w), src(o.s, w)); break;
      case O_IMUL3: E(Inst::kIdImul, g(o.d, w), src(o.s, w), Imm(o.imm)); break;
      case O_MUL1: E(o.flag ? Inst::kIdImul : Inst::kIdMul, g(o.d2, w), g(o.d, w), src(o.s, w)); break;
      case O_DIV: {
        Gp t = w == 2 ? cc.new_gp16("divt") : w == 4 ? cc.new_gp32("divt") : cc.new_gp64("divt");
        E(Inst::kIdMov, t, src(o.s, w));
        if (!o.flag) {
          E(Inst::kIdOr, t, Imm(1));
          E(Inst::kIdXor, g(o.d2, w), g(o.d2, w));
          E(Inst::kIdDiv, g(o.d2, w), g(o.d, w), t);
        }
        else {
          E(Inst::kIdShr, t, Imm(1));
          E(Inst::kIdOr, t, Imm(1));
          E(w == 2 ? Inst::kIdCwd : w == 4 ? Inst::kIdCdq : Inst::kIdCqo, g(o.d2, w), g(o.d, w));
          E(Inst::kIdIdiv, g(o.d2, w), g(o.d, w), t);
        }
        break;
      }
      case O_CMPXCHG:
        if (o.s2.t == S_MEM) E(Inst::kIdCmpxchg, mem(o.s2.m, w), g(o.a, w), g(o.c, w));
        else E(Inst::kIdCmpxchg, g(o.d, w), g(o.a, w), g(o.c, w));
        if (o.d2 >= 0) E(Inst::kIdSete, g(o.d2, 1));
        break;
      case O_XCHG: E(Inst::kIdXchg, g(o.d, w), g(o.a, w)); break;
      case O_XCHGM: E(Inst::kIdXchg, mem(o.s2.m, w), g(o.a, w)); break;
      case O_XADD: E(Inst::kIdXadd, g(o.d, w), g(o.a, w)); break;
      case O_LEA: {
        int aw = is64 ? w : 4;
        Mem m = o.b >= 0 ? ptr(g(o.a, aw), g(o.b, aw), o.sub, (int32_t)o.imm) : ptr(g(o.a, aw), (int32_t)o.imm);
        E(Inst::kIdLea, g(o.d, w), m);
        break;
      }
      case O_SETCC: emit_cmp(o.a, o.s, o.w2, o.flag); E(kSetcc[o.cc], g(o.d, 1)); break;
      case O_CMOV: emit_cmp(o.a, o.s, o.w2, o.flag); E(kCmovcc[o.cc], g(o.d, w), src(o.s2, w)); break;
      case O_MOVX:
        if (o.flag && w == 8 && o.w2 == 4) E(Inst::kIdMovsxd, g(o.d, 8), src(o.s, 4));
        else E(o.flag ? Inst::kIdMovsx : Inst::kIdMovzx, g(o.d, w), src(o.s, o.w2));
        break;
      case O_BITCNT: {
        static const InstId ids[] = { Inst::kIdPopcnt, Inst::kIdLzcnt, Inst::kIdTzcnt };
        E(ids[o.sub], g(o.d, w), src(o.s, w));
        break;
      }
      case O_BT: {
        static const InstId ids[] = { Inst::kIdBt, Inst::kIdBts, Inst::kIdBtr, Inst::kIdBtc };
        if (o.c >= 0) E(ids[o.sub], g(o.d, w), g(o.c, w)); else E(ids[o.sub], g(o.d, w), Imm(o.imm & 0xFF));
        if (o.d2 >= 0) E(Inst::kIdSetb, g(o.d2, 1));
        break;
      }
      case O_VGATHER:
        cc.k(kk(o.c));
        E(Inst::kIdVpgatherdd, vv(o.d, w), x86::ptr(bufp, vv(o.a, w), 2, (int32_t)o.imm));
        break;
      case O_HI8: {
        Gp dh = regs[o.d].as<Gp>().r8_hi();
        switch (o.sub) {
          case 0: E(Inst::kIdMov, dh, Imm(o.imm)); break;
          case 1: E(Inst::kIdMov, dh, g(o.a, 1)); break;
          case 2: E(Inst::kIdMov, g(o.d, 1), regs[o.a].as<Gp>().r8_hi()); break;
          case 3: E(Inst::kIdAdd, dh, regs[o.a].as<Gp>().r8_hi()); break;
          case 4: E(Inst::kIdXchg, g(o.d, 1), dh); break;
          case 5: E(Inst::kIdXor, g(o.d, 1), regs[o.a].as<Gp>().r8_hi()); break;
          default: E(Inst::kIdXor, dh, g(o.a, 1)); break;
        }
        break;
      }

      case O_VMOV:
        if (o.s.t == S_REG) E(vmov_rr(w), vv(o.d, w), vv(o.s.v, w));
        else E(vmov_m(w), vv(o.d, w), mem(o.s.m, w));
        break;
      case O_VSTORE: E(vmov_m(w), mem(o.s2.m, w), vv(o.a, w)); break;
      case O_VALU: {
        const VAluIds& id = kVAlu[o.sub];
        if (sse) E(id.sse, vv(o.d, w), vsrc(o.s, w));
        else E(w == 64 ? id.evex : id.avx, vv(o.d, w), vv(o.a, w), vsrc(o.s, w));
        break;
      }
      case O_VSHI:
        if (sse) E(kVShiSse[o.sub], vv(o.d, w), Imm(o.imm));
        else E(kVShiAvx[o.sub], vv(o.d, w), vv(o.a, w), Imm(o.imm));
        break;
      case O_VSHUFD: E(sse ? Inst::kIdPshufd : Inst::kIdVpshufd, vv(o.d, w), vsrc(o.s, w), Imm(o.imm)); break;
      case O_VBCAST: {
        InstId id = o.w2 == 4 ? Inst::kIdVpbroadcastd : Inst::kIdVpbroadcastq;
        if (o.s.t == S_MEM) E(id, vv(o.d, w), mem(o.s.m, o.w2));
        else if (P.vals[o.s.v].kind == KIND_G) E(id, vv(o.d, w), g(o.s.v, o.w2));
        else E(id, vv(o.d, w), vv(o.s.v, 16));
        break;
      }
      case O_VEXTR: {
        InstId id = o.w2 == 32 ? Inst::kIdVextracti128 : (w == 16 ? Inst::kIdVextracti32x4 : Inst::kIdVextracti64x4);
        E(id, vv(o.d, w), vv(o.a, o.w2), Imm(o.imm));
        break;
      }
      case O_VINS: {
        InstId id = w == 32 ? Inst::kIdVinserti128 : (o.w2 == 16 ? Inst::kIdVinserti32x4 : Inst::kIdVinserti64x4);
        E(id, vv(o.d, w), vv(o.a, w), vsrc(o.s, o.w2), Imm(o.imm));
        break;
      }
      case O_VFROMG: {
        InstId id = o.w2 == 4 ? (sse ? Inst::kIdMovd : Inst::kIdVmovd) : (sse ? Inst::kIdMovq : Inst::kIdVmovq);
        E(id, vv(o.d, 16), src(o.s, o.w2));
        break;
      }
      case O_VTOG: {
        InstId id = o.w2 == 4 ? (sse ? Inst::kIdMovd : Inst::kIdVmovd) : (sse ? Inst::kIdMovq : Inst::kIdVmovq);
        E(id, g(o.d, o.w2), vv(o.a, 16));
        break;
      }
      case O_VPINS: {
        static const InstId s_[] = { Inst::kIdPinsrb, Inst::kIdPinsrw, Inst::kIdPinsrd, Inst::kIdPinsrq };
        static const InstId a_[] = { Inst::kIdVpinsrb, Inst::kIdVpinsrw, Inst::kIdVpinsrd, Inst::kIdVpinsrq };
        Operand so = o.s.t == S_MEM ? Operand(mem(o.s.m, o.w2)) : Operand(g(o.s.v, o.w2 == 8 ? 8 : 4));
        if (sse) E(s_[widx(o.w2)], vv(o.d, 16), so, Imm(o.imm));
        else E(a_[widx(o.w2)], vv(o.d, 16), vv(o.a, 16), so, Imm(o.imm));
        break;
      }
      case O_VPEXT: {
        static const InstId s_[] = { Inst::kIdPextrb, Inst::kIdPextrw, Inst::kIdPextrd, Inst::kIdPextrq };
        static const InstId a_[] = { Inst::kIdVpextrb, Inst::kIdVpextrw, Inst::kIdVpextrd, Inst::kIdVpextrq };
        E((sse ? s_ : a_)[widx(o.w2)], g(o.d, o.w2 == 8 ? 8 : 4), vv(o.a, 16), Imm(o.imm));
        break;
      }
      case O_VMSKB: E(sse ? Inst::kIdPmovmskb : Inst::kIdVpmovmskb, g(o.d, 4), vv(o.a, w)); break;
      case O_VTERN:
        if (o.cc) { E(Inst::kIdKmovw, x86::k(o.cc), g(o.b, 4)); cc.k(x86::k(o.cc)); }
        else if (o.c >= 0) cc.k(kk(o.c));
        if ((o.cc || o.c >= 0) && o.flag) cc.z();
        E(Inst::kIdVpternlogd, vv(o.d, w), vv(o.a, w), vsrc(o.s, w), Imm(o.imm));
        break;
      case O_VALUK: {
        if (o.cc) { E(Inst::kIdKmovw, x86::k(o.cc), g(o.b, 4)); cc.k(x86::k(o.cc)); }
        else cc.k(kk(o.c));
        if (o.flag) cc.z();
        E(kVAlu[o.sub].evex, vv(o.d, w), vv(o.a, w), vsrc(o.s, w));
        break;
      }
      case O_VCMPK:
        if (o.c >= 0) cc.k(kk(o.c));
        E(o.flag ? Inst::kIdVpcmpud : Inst::kIdVpcmpd, kk(o.d), vv(o.a, w), vsrc(o.s, w), Imm(o.imm));
        break;
      case O_VM2V: E(Inst::kIdVpmovm2d, vv(o.d, w), kk(o.a)); break;
      case O_V2M: E(Inst::kIdVpmovd2m, kk(o.d), vv(o.a, w)); break;

      case O_KFROMG: E(kKmov[widx(w)], kk(o.d), g(o.a, w == 8 ? 8 : 4)); break;
      case O_KTOG: E(kKmov[widx(w)], g(o.d, w == 8 ? 8 : 4), kk(o.a)); break;
      case O_KLOAD: E(kKmov[widx(w)], kk(o.d), mem(o.s.m, w)); break;
      case O_KSTORE: E(kKmov[widx(w)], mem(o.s2.m, w), kk(o.a)); break;
      case O_KMOV: E(kKmov[widx(w)], kk(o.d), kk(o.a)); break;
      case O_KALU: E(kKalu[o.sub][widx(w)], kk(o.d), kk(o.a), kk(o.b)); break;
      case O_KNOT: E(kKnot[widx(w)], kk(o.d), kk(o.a)); break;
      case O_KSHI: E((o.sub ? kKshr : kKshl)[widx(w)], kk(o.d), kk(o.a), Imm(o.imm)); break;
      case O_KSET: E(kKortest[widx(w)], kk(o.a), kk(o.b)); E(kSetcc[o.cc], g(o.d, 1)); break;

      case O_DFROMG: E(sse ? Inst::kIdMovq : Inst::kIdVmovq, vv(o.d, 16), g(o.a, 8)); break;
      case O_DTOG: E(sse ? Inst::kIdMovq : Inst::kIdVmovq, g(o.d, 8), vv(o.a, 16)); break;
      case O_DLOAD: E(sse ? Inst::kIdMovsd : Inst::kIdVmovsd, vv(o.d, 16), mem(o.s.m, 8)); break;
      case O_DSTORE: E(sse ? Inst::kIdMovsd : Inst::kIdVmovsd, mem(o.s2.m, 8), vv(o.a, 16)); break;
      case O_DMOV: E(sse ? Inst::kIdMovaps : Inst::kIdVmovaps, vv(o.d, 16), vv(o.a, 16)); break;

      case O_CALL: {
        const CalleeSig& sg = g_sigs[o.imm];
        FuncSignature sig((!is64 && (o.imm & 1)) ? CallConvId::kStdCall : CallConvId::kCDecl);
        sig.set_ret(sg.ret == RK_VOID ? TypeId::kVoid : sg.ret == RK_U32 ? TypeId::kUInt32 : sg.ret == RK_U64 ? TypeId::kUInt64 : TypeId::kFloat64);
        static const TypeId tids[] = { TypeId::kUInt8, TypeId::kUInt16, TypeId::kUInt32, TypeId::kUInt64, TypeId::kFloat64 };
        for (int k = 0; k < sg.n; k++) sig.add_arg(tids[sg.kind[k]]);
        InvokeNode* inv = nullptr;
        u64 target = is64 ? (u64)(uintptr_t)g_callee_ptr[o.imm] : (u64)(0x08000000u + (u32)o.imm * 64);
        cc.invoke(Out(inv), imm(target), sig);
        if (!inv) break;
        for (int k = 0; k < sg.n; k++) {
          const Src& a = o.args[k];
          if (a.t == S_IMM) inv->set_arg(k, Imm(a.imm));
          else inv->set_arg(k, regs[a.v]);
        }
        if (o.d >= 0) inv->set_ret(0, regs[o.d]);
        break;
      }
      default: break;
    }
  }

  void emit_term(int bi) {
    using namespace x86;
    const Term& t = P.blocks[bi].term;
    switch (t.kind) {
      case T_FALL: break;
      case T_JMP: cc.jmp(labels[t.target]); break;
      case T_BR: emit_cmp(t.a, t.s, t.w, t.test); cc.emit(kJcc[t.cc], labels[t.target]); break;
      case T_DEC: E(Inst::kIdSub, g(t.a, t.w), Imm(1)); cc.jnz(labels[t.target]); break;
      case T_SWITCH: {
        Table tb; tb.lab = cc.new_label(); tb.targets = t.targets;
        Gp idx = cc.new_gp_ptr("sw_idx"), base = cc.new_gp_ptr("sw_base"), tgt = cc.new_gp_ptr("sw_tgt");
        E(Inst::kIdMov, idx.r32(), g(t.a, 4));
        E(Inst::kIdAnd, idx.r32(), Imm((i64)t.targets.size() - 1));
        E(Inst::kIdLea, base, x86::ptr(tb.lab));
        if (is64) E(Inst::kIdMovsxd, tgt, x86::dword_ptr(base, idx, 2));
        else E(Inst::kIdMov, tgt, x86::dword_ptr(base, idx, 2));
        E(Inst::kIdAdd, tgt, base);
        JumpAnnotation* ann = cc.new_jump_annotation();
        std::set<int> seen;
        for (int x : t.targets) if (seen.insert(x).second) ann->add_label(labels[x]);
        cc.jmp(tgt, ann);
        tables.push_back(tb);
        data_labels.push_back(tb.lab);
        break;
      }
      case T_RET:
        if (P.retval >= 0) cc.ret(regs[P.retval]); else cc.ret();
        break;
    }
  }

  void build() {
    using namespace x86;
    // signature
    static const CallConvId cconvs32[] = { CallConvId::kCDecl, CallConvId::kStdCall, CallConvId::kFastCall, CallConvId::kCDecl };
    FuncSignature sig(is64 ? CallConvId::kCDecl : cconvs32[P.cconv & 3]);
    if (P.retval < 0) sig.set_ret(TypeId::kVoid);
    else {
      const ValDef& d = P.vals[P.retval];
      sig.set_ret(d.kind == KIND_D ? TypeId::kFloat64 : d.size == 1 ? TypeId::kUInt8 : d.size == 2 ? TypeId::kUInt16 : d.size == 4 ? TypeId::kUInt32 : TypeId::kUInt64);
    }
    sig.add_arg(TypeId::kUIntPtr);
    const SigClass& sc = kSigClasses[P.sigclass];
    for (int i = 0; i < sc.ni; i++) {
      int ps = psize(sc.isz[i]); bool sg = psigned(sc.isz[i]);
      sig.add_arg(ps == 1 ? (sg ? TypeId::kInt8 : TypeId::kUInt8) : ps == 2 ? (sg ? TypeId::kInt16 : TypeId::kUInt16) :
                  (ps == 4 || !is64) ? (sg ? TypeId::kInt32 : TypeId::kUInt32) : TypeId::kUInt64);
    }
    for (int i = 0; i < sc.nd; i++) sig.add_arg(TypeId::kFloat64);

    FuncNode* fn = cc.add_func(sig);
    if (!fn) return;
    if (P.mode >= MODE_AVX) fn->frame().set_avx_enabled();
    if (P.mode >= MODE_AVX512) fn->frame().set_avx512_enabled();
    if (P.preserved_fp) fn->frame().set_preserved_fp();
    if (P.phys_k) {
      // the program writes a physical mask register itself: keep the allocator away from it when it also has virtual mask registers
      bool has_virt_k = false;
      for (const ValDef& d : P.vals) if (d.kind == KIND_K) has_virt_k = true;
      if (has_virt_k) fn->frame().add_unavailable_regs(RegGroup::kMask, Support::bit_mask<RegMask>(uint32_t(P.phys_k)));
    }

    bufp = cc.new_gp_ptr("buf");
    regs.resize(P.vals.size());
    for (size_t i = 0; i < P.vals.size(); i++) {
      const ValDef& d = P.vals[i];
      char nm[24]; snprintf(nm, sizeof nm, "v%zu", i);
      switch (d.kind) {
        case KIND_G:
          if (d.sgn) regs[i] = cc.new_gp(d.size == 1 ? TypeId::kInt8 : d.size == 2 ? TypeId::kInt16 : d.size == 4 ? TypeId::kInt32 : TypeId::kInt64, nm);
          else regs[i] = d.size == 1 ? cc.new_gp8(nm) : d.size == 2 ? cc.new_gp16(nm) : d.size == 4 ? cc.new_gp32(nm) : cc.new_gp64(nm);
          break;
        case KIND_V: regs[i] = d.size == 16 ? cc.new_xmm(nm) : d.size == 32 ? cc.new_ymm(nm) : cc.new_zmm(nm); break;
        case KIND_D: regs[i] = cc.new_xmm_sd(nm); break;
        default: regs[i] = d.size == 1 ? cc.new_kb(nm) : d.size == 2 ? cc.new_kw(nm) : d.size == 4 ? cc.new_kd(nm) : cc.new_kq(nm); break;
      }
    }
    fn->set_arg(0, bufp);
    for (size_t i = 0; i < P.argbind.size(); i++) if (P.argbind[i] >= 0) fn->set_arg(1 + i, regs[P.argbind[i]]);
    if (P.use_stack) stk = cc.new_stack(STK_SIZE, 16, "user_stack");

    int nb = (int)P.blocks.size();
    labels.resize(nb);
    for (int i = 0; i < nb; i++) labels[i] = cc.new_label();
    for (int bi = 0; bi < nb; bi++) {
      if (bi > 0) cc.bind(labels[bi]);
      const Block& b = P.blocks[bi];
      if (b.fuel) {
        E(Inst::kIdSub, g(P.fuel, 4), Imm(1));
        cc.js(labels[nb - 1]);
      }
      for (const Op& o : b.ops) emit_op(o);
      emit_term(bi);
      if (b.data_after) {
        Label dl = cc.new_label();
        cc.bind(dl);
        for (int i = 0; i < b.data_after; i++) cc.embed_uint32(embedded_word(P.arch, b.data_kind, bi, i));
        dranges.push_back(DataRange{ dl, 4 * b.data_after, true });
        data_labels.push_back(dl);
      }
    }
    if (P.tables_inside) emit_tables(true);
    cc.end_func();
    if (!P.tables_inside) emit_tables(false);
  }
  void emit_tables(bool inside) {
    for (const Table& tb : tables) {
      cc.bind(tb.lab);
      for (int x : tb.targets) cc.embed_label_delta(labels[x], tb.lab, 4);
      dranges.push_back(DataRange{ tb.lab, 4 * (int)tb.targets.size(), inside });
    }
  }
};

// ---------------------------------------------------------------------------------------------------------------
// Compile + native execution in a forked child
// ---------------------------------------------------------------------------------------------------------------

static const int NINPUTS_MAX = 16;
static const int BATCH_MAX = 32;
static const u32 CALLCAP = 160;

struct ShmSlot {
  volatile u32 done;
  u32 ncalls;
  u64 ret;
  CallRec calls[CALLCAP];
  u8 buf[BUF_SIZE];
};
struct Shm {
  volatile u32 progress;        // input index inside the program being executed
  volatile u32 progress_item;   // index of the program (batch item) being executed
  volatile u64 crash_rip, crash_addr, crash_sig, fn_base;
  ShmSlot slot[NINPUTS_MAX * BATCH_MAX];
};

static Shm* g_shm = nullptr;
static u8* g_jitbuf = nullptr;   // argument buffer with guard pages on both sides

static void init_exec_env() {
  g_shm = (Shm*)mmap(nullptr, sizeof(Shm), PROT_READ | PROT_WRITE, MAP_SHARED | MAP_ANONYMOUS, -1, 0);
  size_t pg = 4096;
  size_t sz = (BUF_SIZE + pg - 1) / pg * pg;
  u8* p = (u8*)mmap(nullptr, sz + 2 * pg, PROT_READ | PROT_WRITE, MAP_PRIVATE | MAP_ANONYMOUS, -1, 0);
  mprotect(p, pg, PROT_NONE);
  mprotect(p + pg + sz, pg, PROT_NONE);
  g_jitbuf = p + pg;
  if (g_shm == MAP_FAILED || p == MAP_FAILED) { fprintf(stderr, "mmap failed\n"); exit(3); }
}

typedef u64 (*FnI0)(u8*);
typedef u64 (*FnI1)(u8*, u64, u64, u64);
typedef u64 (*FnI2)(u8*, u64, u64, u64, u64, u64, u64, u64, u64, double, double, double, double, double, double, double, double, double);
typedef double (*FnD0)(u8*);
typedef double (*FnD1)(u8*, u64, u64, u64);
typedef double (*FnD2)(u8*, u64, u64, u64, u64, u64, u64, u64, u64, double, double, double, double, double, double, double, double, double);

#define D4 double, double, double, double
typedef u64 (*FnI3)(u8*, u64, u64, u64, u64, u64, u64, u64, u64, u64, u64, u64, u64, u64, u64, D4, D4, D4, D4, double);
typedef u64 (*FnI4)(u8*, u64, u64, u64, u64, u64, u64, u64, u64, u64, u64, u64, u64, u64, u64, u64, D4, D4, double, double);
typedef u64 (*FnI5)(u8*, u64, u64, u64, u64, D4, D4, D4);
typedef double (*FnD3)(u8*, u64, u64, u64, u64, u64, u64, u64, u64, u64, u64, u64, u64, u64, u64, D4, D4, D4, D4, double);
typedef double (*FnD4)(u8*, u64, u64, u64, u64, u64, u64, u64, u64, u64, u64, u64, u64, u64, u64, u64, D4, D4, double, double);
typedef double (*FnD5)(u8*, u64, u64, u64, u64, D4, D4, D4);
#undef D4
#define A14 a[0], a[1], a[2], a[3], a[4], a[5], a[6], a[7], a[8], a[9], a[10], a[11], a[12], a[13]
#define DD8 d[0], d[1], d[2], d[3], d[4], d[5], d[6], d[7]

static NOSAN u64 call_native(void* fn, int sigclass, bool retd, u8* buf, const RunInput& in) {
  const u64* a = in.iargs;
  double d[17];
  for (int i = 0; i < 17; i++) d[i] = bitsd(in.dargs[i]);
  // u32 parameters are passed as u64: the callee only looks at the low half (registers and 8-byte stack slots alike)
  if (sigclass == 3) return retd ? dbits(((FnD3)fn)(buf, A14, DD8, d[8], d[9], d[10], d[11], d[12], d[13], d[14], d[15], d[16]))
                                 : ((FnI3)fn)(buf, A14, DD8, d[8], d[9], d[10], d[11], d[12], d[13], d[14], d[15], d[16]);
  if (sigclass == 4) return retd ? dbits(((FnD4)fn)(buf, A14, a[14], DD8, d[8], d[9])) : ((FnI4)fn)(buf, A14, a[14], DD8, d[8], d[9]);
  if (sigclass == 6) {
    typedef u64 (*FnI6)(u8*, u64, u64, u64, u64, u64, u64, u64, u64, u64, u64, u64, u64, u64, u64, u64, u64, u64, u64, u64, u64);
    typedef double (*FnD6)(u8*, u64, u64, u64, u64, u64, u64, u64, u64, u64, u64, u64, u64, u64, u64, u64, u64, u64, u64, u64, u64);
    return retd ? dbits(((FnD6)fn)(buf, A14, a[14], a[15], a[16], a[17], a[18], a[19])) : ((FnI6)fn)(buf, A14, a[14], a[15], a[16], a[17], a[18], a[19]);
  }
  if (sigclass == 5) return retd ? dbits(((FnD5)fn)(buf, a[0], a[1], a[2], a[3], DD8, d[8], d[9], d[10], d[11]))
                                 : ((FnI5)fn)(buf, a[0], a[1], a[2], a[3], DD8, d[8], d[9], d[10], d[11]);
  if (!retd) {
    switch (sigclass) {
      case 0: return ((FnI0)fn)(buf);
      case 1: return ((FnI1)fn)(buf, a[0], a[1], a[2]);
      default: return ((FnI2)fn)(buf, a[0], a[1], a[2], a[3], a[4], a[5], a[6], a[7], d[0], d[1], d[2], d[3], d[4], d[5], d[6], d[7], d[8]);
    }
  }
  switch (sigclass) {
    case 0: return dbits(((FnD0)fn)(buf));
    case 1: return dbits(((FnD1)fn)(buf, a[0], a[1], a[2]));
    default: return dbits(((FnD2)fn)(buf, a[0], a[1], a[2], a[3], a[4], a[5], a[6], a[7], d[0], d[1], d[2], d[3], d[4], d[5], d[6], d[7], d[8]));
  }
}

enum { EX_OK = 0, EX_CRASH, EX_HANG, EX_WATCHDOG, EX_FORKFAIL };

struct ExecOutcome { int status = EX_OK; int sig = 0; int at_input = -1; u64 rip_off = 0, addr = 0; };

static NOSAN void child_crash_handler(int sig, siginfo_t* si, void* uc_) {
  ucontext_t* uc = (ucontext_t*)uc_;
  g_shm->crash_sig = (u64)sig;
  g_shm->crash_addr = (u64)(uintptr_t)si->si_addr;
  g_shm->crash_rip = (u64)uc->uc_mcontext.gregs[REG_RIP];
  _exit(100 + (sig & 31));
}

struct ExecItem {
  void* fn = nullptr;
  const Program* P = nullptr;
  const std::vector<RunInput>* inputs = nullptr;
  int slot_base = 0;
  ExecOutcome eo;
};

// Runs all items in ONE forked child (a fork of an ASan process is expensive); if the child dies while executing
// item p, that item gets the crash/hang outcome and a new child continues with item p+1.
static void exec_native_batch(std::vector<ExecItem>& items) {
  int base = 0;
  for (ExecItem& it : items) {
    it.slot_base = base;
    int n = (int)it.inputs->size();
    for (int k = 0; k < n; k++) { g_shm->slot[base + k].done = 0; g_shm->slot[base + k].ncalls = 0; }
    base += n;
  }
  size_t start = 0;
  while (start < items.size()) {
    g_shm->progress = 0;
    g_shm->progress_item = (u32)start;
    fflush(stdout); fflush(stderr);
    pid_t pid = fork();
    if (pid < 0) { for (size_t i = start; i < items.size(); i++) items[i].eo.status = EX_FORKFAIL; return; }
    if (pid == 0) {
      static u8 altstack[65536];
      stack_t ss; ss.ss_sp = altstack; ss.ss_size = sizeof altstack; ss.ss_flags = 0;
      sigaltstack(&ss, nullptr);
      struct sigaction sa; memset(&sa, 0, sizeof sa);
      sa.sa_sigaction = child_crash_handler; sa.sa_flags = SA_SIGINFO | SA_ONSTACK | SA_NODEFER;
      sigaction(SIGSEGV, &sa, nullptr); sigaction(SIGBUS, &sa, nullptr); sigaction(SIGILL, &sa, nullptr); sigaction(SIGFPE, &sa, nullptr);
      sigaction(SIGTRAP, &sa, nullptr);
      signal(SIGABRT, SIG_DFL); signal(SIGPROF, SIG_DFL); signal(SIGALRM, SIG_DFL);
      alarm(120);
      for (size_t p = start; p < items.size(); p++) {
        ExecItem& it = items[p];
        g_shm->progress_item = (u32)p;
        g_shm->fn_base = (u64)(uintptr_t)it.fn;
        // CPU-time limit per program
        struct itimerval tv; memset(&tv, 0, sizeof tv); tv.it_value.tv_sec = 2;
        setitimer(ITIMER_PROF, &tv, nullptr);
        const Program& P = *it.P;
        bool retd = P.retval >= 0 && P.vals[P.retval].kind == KIND_D;
        int n = (int)it.inputs->size();
        for (int k = 0; k < n; k++) {
          g_shm->progress = (u32)k;
          ShmSlot& s = g_shm->slot[it.slot_base + k];
          memset(g_jitbuf, 0, BUF_SIZE);
          memcpy(g_jitbuf, (*it.inputs)[k].data, DATA_SIZE);
          g_log = s.calls; g_logn = &s.ncalls; g_logcap = CALLCAP;
          s.ret = call_native(it.fn, P.sigclass, retd, g_jitbuf, (*it.inputs)[k]);
          memcpy(s.buf, g_jitbuf, BUF_SIZE);
          s.done = 1;
        }
      }
      _exit(0);
    }
    int st = 0;
    while (waitpid(pid, &st, 0) < 0 && errno == EINTR) {}
    if (WIFEXITED(st) && WEXITSTATUS(st) == 0) return;
    size_t p = g_shm->progress_item;
    if (p < start || p >= items.size()) p = start;
    ExecOutcome& out = items[p].eo;
    out.at_input = (int)g_shm->progress;
    if (WIFSIGNALED(st)) {
      out.sig = WTERMSIG(st);
      out.status = out.sig == SIGPROF ? EX_HANG : out.sig == SIGALRM ? EX_WATCHDOG : EX_CRASH;
    }
    else if (WIFEXITED(st) && WEXITSTATUS(st) >= 100) {
      out.status = EX_CRASH; out.sig = (int)g_shm->crash_sig;
      out.rip_off = g_shm->crash_rip - g_shm->fn_base; out.addr = g_shm->crash_addr;
    }
    else { out.status = EX_CRASH; out.sig = -1; }
    start = p + 1;
  }
}

struct Compiled {
  void* fn = nullptr;
  Error err = Error::kOk;
  std::string errmsg;
  std::string stage;
  EmitStats st;
  std::vector<u8> code;   // compile-only: .text bytes
  size_t code_end = 0;    // offset where data (tables / constant pool) starts
  std::string data_json = "[]";  // [[offset, size, inside-the-function], ...] of every data range in the code
  size_t code_size = 0;
};

static JitRuntime* g_rt = nullptr;

static std::string data_ranges_json(CodeHolder& code, const std::vector<DataRange>& dr) {
  std::string s = "[";
  for (const DataRange& d : dr) {
    if (!code.is_label_bound(d.lab)) continue;
    if (s.size() > 1) s += ",";
    s += "[" + std::to_string((size_t)code.label_offset(d.lab)) + "," + std::to_string(d.size) + "," + (d.inside ? "1" : "0") + "]";
  }
  return s + "]";
}


static bool g_trace = false;
static int g_trace_val = -1;

static bool compile_x86(const Program& P, Compiled& out, bool annotate) {
  if (g_trace) { fprintf(stderr, "--- compiling ---\n%s\n", serialise(P).c_str()); fflush(stderr); }
  CodeHolder code;
  ErrH eh;
  Error e;
  if (P.arch == ARCH_X64) e = code.init(g_rt->environment(), g_rt->cpu_features());
  else { Environment env(Arch::kX86); e = code.init(env, CpuInfo::host().features()); }
  if (e != Error::kOk) { out.err = e; out.stage = "init"; return false; }
  code.set_error_handler(&eh);
  FileLogger flog(stderr);
  if (g_trace) { flog.add_flags(FormatFlags::kMachineCode); code.set_logger(&flog); }
  x86::Compiler cc(&code);
  if (annotate) cc.add_diagnostic_options(DiagnosticOptions::kRAAnnotate);
  X86Emitter em(cc, P);
  em.build();
  if (eh.err != Error::kOk) { out.err = eh.err; out.errmsg = eh.msg; out.stage = "emit"; return false; }
  e = cc.finalize();
  if (e != Error::kOk || eh.err != Error::kOk) { out.err = e != Error::kOk ? e : eh.err; out.errmsg = eh.msg; out.stage = "finalize"; return false; }
  out.st.user_insts = (int)em.recs.size();
  collect_ra_stats(cc, em.recs, out.st);
  out.code_size = code.code_size();
  if (P.arch == ARCH_X64) {
    e = g_rt->add(&out.fn, &code);
    if (e != Error::kOk) { out.err = e; out.stage = "jit-add"; return false; }
  }
  else {
    code.flatten();
    code.resolve_cross_section_fixups();
    const CodeBuffer& tb = code.text_section()->buffer();
    out.code.assign(tb.data(), tb.data() + tb.size());
    size_t end = tb.size();
    for (const Label& l : em.data_labels) {
      if (code.is_label_bound(l)) end = std::min(end, (size_t)code.label_offset(l));
    }
    out.code_end = end;
    out.data_json = data_ranges_json(code, em.dranges);
  }
  return true;
}

// ---------------------------------------------------------------------------------------------------------------
// Inputs
// ---------------------------------------------------------------------------------------------------------------

static void make_inputs(Rng& r, int n, std::vector<RunInput>& out) {
  out.resize(n);
  for (int k = 0; k < n; k++) {
    RunInput& in = out[k];
    u64 fill;
    switch (k) {
      case 0: memset(in.data, 0, DATA_SIZE); fill = 0; break;
      case 1: memset(in.data, 0xFF, DATA_SIZE); fill = ~0ull; break;
      case 2: for (int i = 0; i < DATA_SIZE; i++) in.data[i] = (i & 7) == 7 ? 0x80 : 0; fill = 0x8000000000000000ull; break;
      case 3: for (int i = 0; i < DATA_SIZE; i++) in.data[i] = (i & 7) == 7 ? 0x7F : 0xFF; fill = 0x7FFFFFFFFFFFFFFFull; break;
      case 4: for (int i = 0; i < DATA_SIZE; i++) in.data[i] = (i & 7) == 0 ? (u8)(1 + (i >> 3) % 5) : 0; fill = 1; break;
      case 5: for (int i = 0; i < DATA_SIZE; i++) in.data[i] = (u8)((i & 3) == 3 ? 0x80 : 0x00); fill = 0x80000000ull; break;
      default: {
        int style = (int)r.below(3);
        for (int i = 0; i < DATA_SIZE; i += 8) {
          u64 x = r.next();
          if (style == 1) x &= r.next();
          if (style == 2 && r.chance(1, 2)) x = r.below(16);
          memcpy(in.data + i, &x, 8);
        }
        fill = 2;
        break;
      }
    }
    for (int i = 0; i < 20; i++) in.iargs[i] = fill == 2 ? (r.chance(1, 4) ? r.below(64) : r.next()) : fill + (fill == 1 ? i : 0);
    for (int i = 0; i < 17; i++) in.dargs[i] = fill == 2 ? r.next() : (fill ^ ((u64)i << 52));
  }
}

// ---------------------------------------------------------------------------------------------------------------
// Differential check of one program
// ---------------------------------------------------------------------------------------------------------------

struct Verdict {
  int kind = 0;  // 0 ok, 1 mismatch, 2 crash, 3 hang, 4 finalize error, 5 harness (bad program / watchdog / fork)
  int input = -1;
  std::string what;
};

static std::string describe_mem_diff(const Program& P, const u8* exp, const u8* got) {
  for (int i = 0; i < BUF_SIZE; i++) {
    if (exp[i] != got[i]) {
      char b[200];
      if (i < DATA_SIZE) snprintf(b, sizeof b, "memory differs at data offset %d: expected %02x got %02x", i, exp[i], got[i]);
      else {
        int vi = (i - DUMP_OFF) / 64;
        const ValDef& d = P.vals[vi < (int)P.vals.size() ? vi : 0];
        int sz = d.size;
        std::string e = hexstr(exp + DUMP_OFF + vi * 64, sz), g = hexstr(got + DUMP_OFF + vi * 64, sz);
        snprintf(b, sizeof b, "final value v%d (%c%d) differs at byte %d: expected %s got %s", vi, "gvdk"[d.kind], sz * 8, (i - DUMP_OFF) % 64,
                 e.substr(0, 64).c_str(), g.substr(0, 64).c_str());
      }
      return b;
    }
  }
  return "";
}

static u64 ret_mask(const Program& P) {
  if (P.retval < 0) return 0;
  const ValDef& d = P.vals[P.retval];
  return d.kind == KIND_D ? ~0ull : maskw(d.size);
}

struct Counters {
  u64 programs = 0, evaluations = 0, inputs_run = 0, nontrivial = 0, compile_errors = 0;
  u64 loads = 0, saves = 0, moves = 0, swaps = 0, rm_subst = 0, user_insts = 0, calls_logged = 0, dyn_ops = 0;
  int max_live = 0, max_vals = 0;
  std::map<std::string, u64> by_profile, by_shape_kind, ops_by_kind, term_by_kind;
  std::set<u64> distinct_nontrivial, distinct_all, shapes_seen;
  std::map<int, u64> live_hist;
  u64 fuel_exhausted = 0;
};

static bool reference_run(const Program& P, const std::vector<RunInput>& inputs, std::vector<RunResult>& ref, Counters* ctr, Verdict& v) {
  ref.resize(inputs.size());
  for (size_t k = 0; k < inputs.size(); k++) {
    Interp it(P);
    if (g_trace_val >= 0 && inputs.size() == 1) it.trace_val = g_trace_val;
    ref[k] = it.run(inputs[k]);
    if (it.bad) { v.kind = 5; v.input = (int)k; v.what = "generated program is not well-defined: " + it.badmsg; return false; }
    if (ctr) { ctr->dyn_ops += it.steps; ctr->calls_logged += it.ncalls; }
  }
  return true;
}

static Verdict compare_results(const Program& P, const std::vector<RunInput>& inputs, const std::vector<RunResult>& ref, const ExecItem& item) {
  Verdict v;
  const ExecOutcome& eo = item.eo;
  if (eo.status == EX_FORKFAIL || eo.status == EX_WATCHDOG) { v.kind = 5; v.what = eo.status == EX_FORKFAIL ? "fork failed" : "wall-clock watchdog in child"; return v; }
  u64 rm = ret_mask(P);
  for (size_t k = 0; k < inputs.size(); k++) {
    const ShmSlot& s = g_shm->slot[item.slot_base + k];
    if (!s.done) {
      v.input = (int)k;
      char b[200];
      if (eo.status == EX_HANG) { v.kind = 3; snprintf(b, sizeof b, "generated code did not terminate (CPU-time limit) on input %zu", k); }
      else if (eo.status == EX_OK) { v.kind = 5; snprintf(b, sizeof b, "no result recorded for input %zu although the child exited normally", k); }
      else { v.kind = 2; snprintf(b, sizeof b, "generated code crashed with signal %d at code offset 0x%llx (fault address 0x%llx) on input %zu", eo.sig,
                     (unsigned long long)eo.rip_off, (unsigned long long)eo.addr, k); }
      v.what = b;
      return v;
    }
    const RunResult& e = ref[k];
    char b[256];
    if ((s.ret & rm) != (e.ret & rm)) {
      snprintf(b, sizeof b, "return value differs on input %zu: expected %016llx got %016llx (mask %016llx)", k, (unsigned long long)(e.ret & rm),
               (unsigned long long)(s.ret & rm), (unsigned long long)rm);
      v.kind = 1; v.input = (int)k; v.what = b; return v;
    }
    if (s.ncalls != e.ncalls) {
      snprintf(b, sizeof b, "number of helper calls differs on input %zu: expected %llu got %u", k, (unsigned long long)e.ncalls, s.ncalls);
      v.kind = 1; v.input = (int)k; v.what = b; return v;
    }
    size_t nc = std::min<size_t>(e.calls.size(), CALLCAP);
    for (size_t c = 0; c < nc; c++) {
      const CallRec& x = e.calls[c]; const CallRec& y = s.calls[c];
      if (x.callee != y.callee || memcmp(x.a, y.a, sizeof x.a) != 0) {
        int ai = 0; for (int i = 0; i < MAXARGS; i++) if (x.a[i] != y.a[i]) { ai = i; break; }
        snprintf(b, sizeof b, "helper call #%zu differs on input %zu: expected callee %u arg%d=%016llx, got callee %u arg%d=%016llx", c, k, x.callee, ai,
                 (unsigned long long)x.a[ai], y.callee, ai, (unsigned long long)y.a[ai]);
        v.kind = 1; v.input = (int)k; v.what = b; return v;
      }
    }
    if (memcmp(e.buf.data(), s.buf, BUF_SIZE) != 0) {
      v.kind = 1; v.input = (int)k;
      v.what = describe_mem_diff(P, e.buf.data(), s.buf) + " on input " + std::to_string(k);
      return v;
    }
  }
  return v;
}

// runs one program on the inputs (own child process); used by the shrinker and the probes
static Verdict check_program(const Program& P, const std::vector<RunInput>& inputs, Compiled& comp, Counters* ctr, bool annotate) {
  Verdict v;
  std::vector<RunResult> ref;
  // reference results first: a program that is not well-defined is a harness error, never a violation
  if (!reference_run(P, inputs, ref, ctr, v)) return v;
  if (!compile_x86(P, comp, annotate)) {
    v.kind = 4;
    v.what = "Compiler " + comp.stage + " failed: " + std::string(DebugUtils::error_as_string(comp.err)) + " (" + comp.errmsg + ")";
    return v;
  }
  std::vector<ExecItem> items(1);
  items[0].fn = comp.fn; items[0].P = &P; items[0].inputs = &inputs;
  exec_native_batch(items);
  g_rt->release(comp.fn);
  return compare_results(P, inputs, ref, items[0]);
}

// ---------------------------------------------------------------------------------------------------------------
// Shrinking: drop ops / simplify terminators while the same kind of failure persists on the failing input
// ---------------------------------------------------------------------------------------------------------------

static Program shrink_program(const Program& P0, const RunInput& input, int fail_kind, int budget, int& attempts) {
  Program best = P0;
  std::vector<RunInput> one(1, input);
  auto still_fails = [&](const Program& Q) -> bool {
    attempts++;
    Compiled c;
    Verdict v = check_program(Q, one, c, nullptr, false);
    return v.kind == fail_kind;
  };
  auto op_refs = [&](const Program& Q, const Op& o, int v) -> bool {
    RW rw; op_rw(Q, o, rw);
    for (int x : rw.reads) if (x == v) return true;
    for (int x : rw.writes) if (x == v) return true;
    return false;
  };
  auto delete_value = [&](const Program& Q0, int v, Program& Q) -> bool {
    Q = Q0;
    bool any = false;
    for (Block& b : Q.blocks) {
      std::vector<Op> keep;
      for (const Op& o : b.ops) { if (op_refs(Q0, o, v)) any = true; else keep.push_back(o); }
      b.ops.swap(keep);
      std::vector<int> rd; term_reads(b.term, rd);
      for (int x : rd) if (x == v) { b.term = Term(); b.data_after = 0; any = true; break; }
    }
    for (int& a : Q.argbind) if (a == v) { a = -1; any = true; }
    if (any) { compute_fuel_flags(Q); if (!g_keep_unreachable) { while (prune_unreachable(Q)) compute_fuel_flags(Q); } }
    return any;
  };
  for (int round = 0; round < 3 && attempts < budget; round++) {
    bool progress = false;
    for (int v = (int)best.vals.size() - 1; v >= 0 && attempts < budget; v--) {
      if (v == best.fuel || v == best.retval) continue;
      Program Q;
      if (!delete_value(best, v, Q)) continue;
      if (still_fails(Q)) { best = Q; progress = true; }
    }
    if (!progress) break;
  }
  // chunked removal of ops (ddmin-like), block by block from the end
  for (int pass = 0; pass < 3 && attempts < budget; pass++) {
    bool progress = false;
    for (int bi = (int)best.blocks.size() - 1; bi >= 0 && attempts < budget; bi--) {
      int n = (int)best.blocks[bi].ops.size();
      for (int chunk = std::max(1, n / 2); chunk >= 1 && attempts < budget; chunk /= 2) {
        for (int i = (int)best.blocks[bi].ops.size() - chunk; i >= 0 && attempts < budget; i -= chunk) {
          Program Q = best;
          auto& ops = Q.blocks[bi].ops;
          ops.erase(ops.begin() + i, ops.begin() + i + chunk);
          if (still_fails(Q)) { best = Q; progress = true; }
        }
        if (chunk == 1) break;
      }
    }
    // simplify terminators: conditional branch / dec / switch -> fall through
    for (int bi = 0; bi + 1 < (int)best.blocks.size() && attempts < budget; bi++) {
      Term& t = best.blocks[bi].term;
      if (t.kind == T_BR || t.kind == T_DEC || t.kind == T_SWITCH || t.kind == T_JMP) {
        Program Q = best;
        Q.blocks[bi].term = Term();
        Q.blocks[bi].data_after = 0;
        compute_fuel_flags(Q);
        if (!g_keep_unreachable) { while (prune_unreachable(Q)) compute_fuel_flags(Q); }
        if (Q.blocks.size() != best.blocks.size()) { if (still_fails(Q)) { best = Q; progress = true; } break; }
        if (still_fails(Q)) { best = Q; progress = true; }
      }
    }
    if (!progress) break;
  }
  return best;
}

// ---------------------------------------------------------------------------------------------------------------
// Profiles
// ---------------------------------------------------------------------------------------------------------------

//                name           arch      mode         ng       nv      nk      nd     ops     basic fixed part mem vec mask d call  blocks  sw stk
static const Profile kProfilesX64[] = {
  { "gp-small",    ARCH_X64, MODE_SSE,    1, 6,    0, 0,   0, 0,   0, 0,   3, 10,  10, 3, 3, 3, 0, 0, 0, 1,   1, 6,   1, 20 },
  { "gp-pressure", ARCH_X64, MODE_SSE,    18, 60,  0, 0,   0, 0,   0, 0,   6, 20,  10, 2, 3, 4, 0, 0, 0, 1,   3, 12,  1, 20 },
  { "gp-fixed",    ARCH_X64, MODE_SSE,    10, 26,  0, 0,   0, 0,   0, 0,   5, 16,  4, 10, 2, 2, 0, 0, 0, 1,   2, 10,  1, 20 },
  { "partial",     ARCH_X64, MODE_SSE,    8, 30,   0, 0,   0, 0,   0, 0,   5, 16,  4, 2, 12, 2, 0, 0, 0, 1,   2, 10,  1, 20 },
  { "mem",         ARCH_X64, MODE_SSE,    16, 40,  0, 0,   0, 0,   0, 0,   5, 16,  5, 2, 2, 10, 0, 0, 0, 1,   2, 10,  1, 60 },
  { "vec-sse",     ARCH_X64, MODE_SSE,    4, 10,   8, 30,  0, 0,   0, 3,   5, 16,  3, 1, 1, 2, 12, 0, 1, 1,   2, 10,  1, 30 },
  { "vec-avx",     ARCH_X64, MODE_AVX,    4, 10,   8, 36,  0, 0,   0, 3,   5, 16,  3, 1, 1, 2, 12, 0, 1, 1,   2, 10,  1, 30 },
  { "avx512",      ARCH_X64, MODE_AVX512, 4, 12,   10, 60, 3, 16,  0, 3,   5, 16,  3, 1, 1, 2, 8, 8, 1, 1,    2, 10,  1, 30 },
  { "calls",       ARCH_X64, MODE_AVX,    8, 30,   2, 12,  0, 0,   2, 10,  4, 12,  5, 1, 1, 2, 3, 0, 3, 8,    2, 8,   1, 30 },
  { "calls512",    ARCH_X64, MODE_AVX512, 8, 24,   4, 40,  2, 10,  2, 10,  4, 12,  4, 1, 1, 1, 3, 3, 2, 8,    2, 8,   1, 30 },
  { "calls-stack", ARCH_X64, MODE_AVX,    20, 44,  0, 6,   0, 0,   6, 14,  3, 9,   4, 1, 1, 4, 1, 0, 2, 10,   2, 7,   1, 100 },
  { "jumptable",   ARCH_X64, MODE_SSE,    6, 30,   0, 0,   0, 0,   0, 0,   3, 10,  8, 2, 2, 2, 0, 0, 0, 1,    4, 14,  10, 20 },
  { "huge",        ARCH_X64, MODE_AVX512, 60, 110, 30, 60, 4, 12,  4, 16,  4, 10,  8, 2, 2, 3, 5, 3, 1, 1,    3, 8,   1, 30 },
  { "mixed",       ARCH_X64, MODE_AVX512, 10, 30,  6, 30,  2, 9,   1, 6,   5, 14,  6, 3, 3, 3, 5, 4, 1, 2,    3, 12,  2, 40 },
};
static const int kNProfilesX64 = sizeof(kProfilesX64) / sizeof(kProfilesX64[0]);
// tiny single-class profiles (selected with --profile; used for debugging the harness and for replays)
static const Profile kProfilesDbg[] = {
  { "dbg-basic",   ARCH_X64, MODE_SSE,    3, 6,  0, 0,  0, 0,  0, 0,  1, 4,  1, 0, 0, 0, 0, 0, 0, 0,  1, 1, 0, 0 },
  { "dbg-fixed",   ARCH_X64, MODE_SSE,    3, 6,  0, 0,  0, 0,  0, 0,  1, 4,  0, 1, 0, 0, 0, 0, 0, 0,  1, 1, 0, 0 },
  { "dbg-partial", ARCH_X64, MODE_SSE,    3, 6,  0, 0,  0, 0,  0, 0,  1, 4,  0, 0, 1, 0, 0, 0, 0, 0,  1, 1, 0, 0 },
  { "dbg-mem",     ARCH_X64, MODE_SSE,    3, 6,  0, 0,  0, 0,  0, 0,  1, 4,  0, 0, 0, 1, 0, 0, 0, 0,  1, 1, 0, 50 },
  { "dbg-sse",     ARCH_X64, MODE_SSE,    2, 4,  2, 5,  0, 0,  0, 0,  1, 4,  0, 0, 0, 0, 1, 0, 0, 0,  1, 1, 0, 0 },
  { "dbg-avx",     ARCH_X64, MODE_AVX,    2, 4,  2, 5,  0, 0,  0, 0,  1, 4,  0, 0, 0, 0, 1, 0, 0, 0,  1, 1, 0, 0 },
  { "dbg-avx512",  ARCH_X64, MODE_AVX512, 2, 4,  2, 5,  0, 0,  0, 0,  1, 4,  0, 0, 0, 0, 1, 0, 0, 0,  1, 1, 0, 0 },
  { "dbg-mask",    ARCH_X64, MODE_AVX512, 2, 4,  2, 5,  2, 5,  0, 0,  1, 4,  0, 0, 0, 0, 0, 1, 0, 0,  1, 1, 0, 0 },
  { "dbg-d",       ARCH_X64, MODE_SSE,    2, 4,  0, 0,  0, 0,  2, 4,  1, 4,  0, 0, 0, 0, 0, 0, 1, 0,  1, 1, 0, 0 },
  { "dbg-calls",   ARCH_X64, MODE_SSE,    3, 8,  0, 0,  0, 0,  2, 4,  1, 3,  0, 0, 0, 0, 0, 0, 0, 1,  1, 1, 0, 0 },
  { "dbg-cfg",     ARCH_X64, MODE_SSE,    3, 6,  0, 0,  0, 0,  0, 0,  0, 2,  1, 0, 0, 0, 0, 0, 0, 0,  3, 10, 3, 0 },
};
// relative frequency of the x64 profiles in a random batch
static const int kProfileFreqX64[] = { 2, 3, 3, 3, 3, 2, 2, 3, 3, 2, 3, 2, 1, 3 };

static const Profile kProfilesShape[] = {
  { "shape-tiny",     ARCH_X64, MODE_SSE, 2, 5,   0, 0, 0, 0, 0, 0,  1, 5,  10, 3, 3, 3, 0, 0, 0, 1,  0, 0, 0, 20 },
  { "shape-medium",   ARCH_X64, MODE_SSE, 8, 14,  0, 2, 0, 0, 0, 1,  2, 6,  8, 4, 3, 3, 2, 0, 0, 1,   0, 0, 0, 20 },
  { "shape-pressure", ARCH_X64, MODE_AVX, 18, 30, 0, 20, 0, 0, 0, 2, 2, 7,  8, 3, 3, 3, 4, 0, 1, 1,   0, 0, 0, 20 },
};

static const Profile kProfilesX86[] = {
  { "x86-gp",        ARCH_X86, MODE_SSE,    4, 24,  0, 0,   0, 0,  0, 0,  4, 14,  10, 4, 4, 4, 0, 0, 0, 1,  2, 10, 1, 30 },
  { "x86-partial",   ARCH_X86, MODE_SSE,    6, 16,  0, 0,   0, 0,  0, 0,  4, 14,  4, 4, 12, 3, 0, 0, 0, 1,  2, 8,  1, 30 },
  { "x86-vec-sse",   ARCH_X86, MODE_SSE,    3, 8,   6, 20,  0, 0,  0, 3,  4, 14,  3, 1, 1, 2, 12, 0, 1, 1,  2, 8,  1, 30 },
  { "x86-vec-avx",   ARCH_X86, MODE_AVX,    3, 8,   6, 20,  0, 0,  0, 3,  4, 14,  3, 1, 1, 2, 12, 0, 1, 1,  2, 8,  1, 30 },
  { "x86-avx512",    ARCH_X86, MODE_AVX512, 3, 8,   6, 20,  3, 12, 0, 2,  4, 14,  3, 1, 1, 2, 8, 8, 1, 1,   2, 8,  1, 30 },
  { "x86-calls",     ARCH_X86, MODE_SSE,    5, 16,  2, 8,   0, 0,  2, 8,  4, 10,  5, 1, 1, 2, 3, 0, 3, 8,   2, 8,  1, 30 },
  { "x86-jumptable", ARCH_X86, MODE_SSE,    4, 16,  0, 0,   0, 0,  0, 0,  3, 8,   8, 2, 2, 2, 0, 0, 0, 1,   4, 12, 10, 20 },
};
static const int kNProfilesX86 = sizeof(kProfilesX86) / sizeof(kProfilesX86[0]);

static const Profile& pick_profile_x64(u64 index) {
  int tot = 0;
  for (int i = 0; i < kNProfilesX64; i++) tot += kProfileFreqX64[i];
  int k = (int)(index % tot);
  for (int i = 0; i < kNProfilesX64; i++) { k -= kProfileFreqX64[i]; if (k < 0) return kProfilesX64[i]; }
  return kProfilesX64[0];
}

static void count_program(Counters& c, const Program& P) {
  c.programs++;
  c.by_profile[P.profile]++;
  c.max_vals = std::max(c.max_vals, (int)P.vals.size());
  for (const Block& b : P.blocks) {
    for (const Op& o : b.ops) c.ops_by_kind[kOpNames[o.opc]]++;
    static const char* tk[] = { "fall", "jmp", "br", "dec-loop", "switch", "ret" };
    c.term_by_kind[tk[b.term.kind]]++;
    if (b.fuel) c.term_by_kind["fuel-check"]++;
  }
}

// canonical CFG shape: terminator kinds + targets (ignores operations)
static u64 cfg_shape_hash(const Program& P) {
  std::string s;
  for (const Block& b : P.blocks) {
    s += (char)('a' + b.term.kind);
    s += std::to_string(b.term.target) + ",";
    for (int t : b.term.targets) s += std::to_string(t) + ";";
    s += b.fuel ? "F" : "-";
  }
  return fnv1a(s.data(), s.size());
}

static bool cfg_has_irreducible_hint(const Program& P) {
  // a retreating edge whose target does not dominate the source is the classical sign; cheap approximation:
  // count retreating edges that are not dec-loop latches
  int nb = (int)P.blocks.size();
  for (int bi = 0; bi < nb; bi++) {
    const Term& t = P.blocks[bi].term;
    if ((t.kind == T_BR || t.kind == T_JMP) && t.target <= bi) return true;
  }
  return false;
}

struct ViolationOut { std::string key, what, witness; u64 index; int input; };
static void add_violation(std::vector<ViolationOut>& viols, const std::string& key, const std::string& what, const std::string& witness, u64 index) {
  ViolationOut vo; vo.key = key; vo.what = what; vo.witness = witness; vo.index = index; vo.input = -1;
  viols.push_back(vo);
}

static std::string json_map(const std::map<std::string, u64>& m) {
  std::string s = "{";
  bool first = true;
  for (auto& kv : m) { if (!first) s += ","; first = false; s += jstr(kv.first) + ":" + std::to_string(kv.second); }
  return s + "}";
}

static std::string input_to_string(const RunInput& in) {
  std::string s = "data=" + hexstr(in.data, DATA_SIZE) + " iargs=";
  for (int i = 0; i < 20; i++) { char b[32]; snprintf(b, sizeof b, "%llx,", (unsigned long long)in.iargs[i]); s += b; }
  s += " dargs=";
  for (int i = 0; i < 17; i++) { char b[32]; snprintf(b, sizeof b, "%llx,", (unsigned long long)in.dargs[i]); s += b; }
  return s;
}

// @@A64-SECTION@@
// ---------------------------------------------------------------------------------------------------------------
// AArch64 emitter (compile only: there is no AArch64 CPU here, nothing is executed)
// ---------------------------------------------------------------------------------------------------------------

struct A64Emitter {
  a64::Compiler& cc;
  const Program& P;
  std::vector<Reg> regs;
  a64::Gp bufp;
  std::vector<Label> labels;
  struct Table { Label lab; std::vector<int> targets; };
  std::vector<Table> tables;
  std::vector<Label> data_labels;
  std::vector<DataRange> dranges;
  std::vector<NodeRec> recs;

  A64Emitter(a64::Compiler& c, const Program& p) : cc(c), P(p) {}

  a64::Gp g(int v, int w) const { const a64::Gp& r = regs[v].as<a64::Gp>(); return w == 8 ? r.x() : r.w(); }
  a64::Vec q(int v) const { return regs[v].as<a64::Vec>().q(); }
  a64::Vec dreg(int v) const { return regs[v].as<a64::Vec>().d(); }

  a64::Gp tmp(int w) { return w == 8 ? cc.new_gp64("t") : cc.new_gp32("t"); }

  static a64::CondCode cond(int cc_) {
    static const a64::CondCode m[CC__N] = { a64::CondCode::kEQ, a64::CondCode::kNE, a64::CondCode::kLO, a64::CondCode::kHS, a64::CondCode::kLS,
      a64::CondCode::kHI, a64::CondCode::kLT, a64::CondCode::kGE, a64::CondCode::kLE, a64::CondCode::kGT, a64::CondCode::kMI, a64::CondCode::kPL };
    return m[cc_];
  }

  a64::Mem mem(const MemRef& m, int size) {
    if (m.off % size == 0 && m.off / size < 4096) return a64::ptr(bufp, m.off);
    a64::Gp t = cc.new_gp64("addr");
    cc.mov(t, Imm(m.off));
    return a64::ptr(bufp, t);
  }

  a64::Gp srcreg(const Src& s, int w) {
    if (s.t == S_REG) return g(s.v, w);
    a64::Gp t = tmp(w);
    if (s.t == S_IMM) cc.mov(t, Imm(w == 4 ? (i64)(u32)s.imm : s.imm));
    else cc.ldr(t, mem(s.m, w));
    return t;
  }

  void emit_cmp(int a, const Src& s, int w) {
    if (s.t == S_IMM && (u64)s.imm < 4096) cc.cmp(g(a, w), Imm(s.imm));
    else cc.cmp(g(a, w), srcreg(s, w));
  }

  void emit_op(const Op& o) {
    int w = o.w < 4 ? 4 : o.w;
    switch (o.opc) {
      case O_MOV:
        if (o.s.t == S_REG) cc.mov(g(o.d, w), g(o.s.v, w));
        else if (o.s.t == S_IMM) cc.mov(g(o.d, w), Imm(w == 4 ? (i64)(u32)o.s.imm : o.s.imm));
        else cc.ldr(g(o.d, w), mem(o.s.m, w));
        break;
      case O_STORE: cc.str(srcreg(o.s, w), mem(o.s2.m, w)); break;
      case O_ALU: {
        a64::Gp d = g(o.d, w);
        if (o.s.t == S_IMM && (u64)o.s.imm < 4096 && o.sub <= A_SUB) { if (o.sub == A_ADD) cc.add(d, d, Imm(o.s.imm)); else cc.sub(d, d, Imm(o.s.imm)); break; }
        a64::Gp s = srcreg(o.s, w);
        switch (o.sub) {
          case A_ADD: cc.add(d, d, s); break;
          case A_SUB: cc.sub(d, d, s); break;
          case A_AND: cc.and_(d, d, s); break;
          case A_OR: cc.orr(d, d, s); break;
          default: cc.eor(d, d, s); break;
        }
        break;
      }
      case O_UN: if (o.sub == U_NEG) cc.neg(g(o.d, w), g(o.d, w)); else cc.mvn(g(o.d, w), g(o.d, w)); break;
      case O_SHI: {
        a64::Gp d = g(o.d, w);
        u32 n = (u32)o.imm % (8 * w); if (!n) n = 1;
        if (o.sub == SH_SHL) cc.lsl(d, d, Imm(n)); else if (o.sub == SH_SHR) cc.lsr(d, d, Imm(n)); else cc.asr(d, d, Imm(n));
        break;
      }
      case O_SHC: {
        a64::Gp d = g(o.d, w), c = g(o.c, w);
        if (o.sub == SH_SHL) cc.lsl(d, d, c); else if (o.sub == SH_SHR) cc.lsr(d, d, c); else cc.asr(d, d, c);
        break;
      }
      case O_IMUL2: cc.mul(g(o.d, w), g(o.d, w), srcreg(o.s, w)); break;
      case O_DIV: {
        a64::Gp t = tmp(w), s = srcreg(o.s, w);
        if (o.flag) cc.sdiv(t, g(o.d, w), s); else cc.udiv(t, g(o.d, w), s);
        cc.msub(g(o.d2, w), t, s, g(o.d, w));
        cc.mov(g(o.d, w), t);
        break;
      }
      case O_LEA: {
        a64::Gp d = g(o.d, w);
        if (o.b >= 0) cc.add(d, g(o.a, w), g(o.b, w), a64::lsl(o.sub)); else cc.mov(d, g(o.a, w));
        if (o.imm & 0xFFF) cc.add(d, d, Imm(o.imm & 0xFFF));
        break;
      }
      case O_SETCC: emit_cmp(o.a, o.s, o.w2 < 4 ? 4 : o.w2); cc.cset(g(o.d, 4), cond(o.cc)); break;
      case O_CMOV: emit_cmp(o.a, o.s, o.w2 < 4 ? 4 : o.w2); cc.csel(g(o.d, w), srcreg(o.s2, w), g(o.d, w), cond(o.cc)); break;
      case O_MOVX: {
        a64::Gp s = g(o.s.v, 4);
        if (!o.flag) { if (o.w2 == 1) cc.uxtb(g(o.d, 4), s); else if (o.w2 == 2) cc.uxth(g(o.d, 4), s); else cc.mov(g(o.d, 4), s); }
        else { if (o.w2 == 1) cc.sxtb(g(o.d, w), s); else if (o.w2 == 2) cc.sxth(g(o.d, w), s); else if (w == 8) cc.sxtw(g(o.d, 8), s); else cc.mov(g(o.d, 4), s); }
        break;
      }
      case O_VMOV:
        if (o.s.t == S_REG) cc.mov(q(o.d).b16(), q(o.s.v).b16()); else cc.ldr(q(o.d), mem(o.s.m, 16));
        break;
      case O_VSTORE: cc.str(q(o.a), mem(o.s2.m, 16)); break;
      case O_VALU: {
        a64::Vec d = q(o.d), a = q(o.a), b;
        if (o.s.t == S_REG) b = q(o.s.v); else { b = cc.new_vec_q("vt"); cc.ldr(b, mem(o.s.m, 16)); }
        switch (o.sub) {
          case VA_PADDB: cc.add(d.b16(), a.b16(), b.b16()); break;
          case VA_PADDW: cc.add(d.h8(), a.h8(), b.h8()); break;
          case VA_PADDD: cc.add(d.s4(), a.s4(), b.s4()); break;
          case VA_PADDQ: cc.add(d.d2(), a.d2(), b.d2()); break;
          case VA_PSUBB: cc.sub(d.b16(), a.b16(), b.b16()); break;
          case VA_PSUBW: cc.sub(d.h8(), a.h8(), b.h8()); break;
          case VA_PSUBD: cc.sub(d.s4(), a.s4(), b.s4()); break;
          case VA_PSUBQ: cc.sub(d.d2(), a.d2(), b.d2()); break;
          case VA_PXOR: cc.eor(d.b16(), a.b16(), b.b16()); break;
          case VA_PAND: cc.and_(d.b16(), a.b16(), b.b16()); break;
          case VA_POR: cc.orr(d.b16(), a.b16(), b.b16()); break;
          default: cc.bic(d.b16(), b.b16(), a.b16()); break;
        }
        break;
      }
      case O_VSHI: {
        a64::Vec d = q(o.d), a = q(o.a);
        u32 n = 1 + (u32)o.imm % 31;
        if (o.sub < 3) cc.shl(d.s4(), a.s4(), Imm(n)); else if (o.sub < 6) cc.ushr(d.s4(), a.s4(), Imm(n)); else cc.sshr(d.s4(), a.s4(), Imm(n));
        break;
      }
      case O_DFROMG: cc.fmov(dreg(o.d), g(o.a, 8)); break;
      case O_DTOG: cc.fmov(g(o.d, 8), dreg(o.a)); break;
      case O_DLOAD: cc.ldr(dreg(o.d), mem(o.s.m, 8)); break;
      case O_DSTORE: cc.str(dreg(o.a), mem(o.s2.m, 8)); break;
      case O_DMOV: cc.fmov(dreg(o.d), dreg(o.a)); break;
      case O_CALL: {
        const CalleeSig& sg = g_sigs[o.imm];
        FuncSignature sig(CallConvId::kCDecl);
        sig.set_ret(sg.ret == RK_VOID ? TypeId::kVoid : sg.ret == RK_U32 ? TypeId::kUInt32 : sg.ret == RK_U64 ? TypeId::kUInt64 : TypeId::kFloat64);
        static const TypeId tids[] = { TypeId::kUInt8, TypeId::kUInt16, TypeId::kUInt32, TypeId::kUInt64, TypeId::kFloat64 };
        for (int k = 0; k < sg.n; k++) sig.add_arg(tids[sg.kind[k]]);
        InvokeNode* inv = nullptr;
        a64::Gp target = cc.new_gp64("callee");
        cc.mov(target, Imm((u64)0x100000u + (u64)o.imm * 64));
        cc.invoke(Out(inv), target, sig);
        if (!inv) break;
        for (int k = 0; k < sg.n; k++) {
          const Src& a = o.args[k];
          if (a.t == S_IMM) inv->set_arg(k, Imm(a.imm)); else inv->set_arg(k, regs[a.v]);
        }
        if (o.d >= 0) inv->set_ret(0, regs[o.d]);
        break;
      }
      default: break;
    }
    BaseNode* n = cc.cursor();
    if (n && n->is_inst()) recs.push_back(NodeRec{ n, optypes_of(n->as<InstNode>()) });
  }

  void emit_term(int bi) {
    const Term& t = P.blocks[bi].term;
    int w = t.w < 4 ? 4 : t.w;
    switch (t.kind) {
      case T_FALL: break;
      case T_JMP: cc.b(labels[t.target]); break;
      case T_BR: emit_cmp(t.a, t.s, w); cc.b(cond(t.cc), labels[t.target]); break;
      case T_DEC: cc.subs(g(t.a, w), g(t.a, w), Imm(1)); cc.b_ne(labels[t.target]); break;
      case T_SWITCH: {
        Table tb; tb.lab = cc.new_label(); tb.targets = t.targets;
        a64::Gp idx = cc.new_gp64("sw_idx"), base = cc.new_gp64("sw_base"), tgt = cc.new_gp64("sw_tgt");
        cc.and_(idx.w(), g(t.a, 4), Imm((i64)t.targets.size() - 1));
        cc.adr(base, tb.lab);
        cc.ldrsw(tgt, a64::ptr(base, idx, a64::lsl(2)));
        cc.add(tgt, tgt, base);
        JumpAnnotation* ann = cc.new_jump_annotation();
        std::set<int> seen;
        for (int x : t.targets) if (seen.insert(x).second) ann->add_label(labels[x]);
        cc.br(tgt, ann);
        tables.push_back(tb);
        data_labels.push_back(tb.lab);
        break;
      }
      case T_RET:
        if (P.retval >= 0) cc.ret(regs[P.retval]); else cc.ret();
        break;
    }
  }

  void build() {
    FuncSignature sig(CallConvId::kCDecl);
    if (P.retval < 0) sig.set_ret(TypeId::kVoid);
    else { const ValDef& d = P.vals[P.retval]; sig.set_ret(d.kind == KIND_D ? TypeId::kFloat64 : d.size == 4 ? TypeId::kUInt32 : TypeId::kUInt64); }
    sig.add_arg(TypeId::kUIntPtr);
    const SigClass& sc = kSigClasses[P.sigclass];
    for (int i = 0; i < sc.ni; i++) sig.add_arg(psize(sc.isz[i]) == 8 ? TypeId::kUInt64 : TypeId::kUInt32);
    for (int i = 0; i < sc.nd; i++) sig.add_arg(TypeId::kFloat64);
    FuncNode* fn = cc.add_func(sig);
    if (!fn) return;
    bufp = cc.new_gp_ptr("buf");
    regs.resize(P.vals.size());
    for (size_t i = 0; i < P.vals.size(); i++) {
      const ValDef& d = P.vals[i];
      char nm[24]; snprintf(nm, sizeof nm, "v%zu", i);
      if (d.kind == KIND_G) regs[i] = d.size == 8 ? cc.new_gp64(nm) : cc.new_gp32(nm);
      else if (d.kind == KIND_V) regs[i] = cc.new_vec_q(nm);
      else regs[i] = cc.new_vec_d(nm);
    }
    fn->set_arg(0, bufp);
    for (size_t i = 0; i < P.argbind.size(); i++) if (P.argbind[i] >= 0) fn->set_arg(1 + i, regs[P.argbind[i]]);
    int nb = (int)P.blocks.size();
    labels.resize(nb);
    for (int i = 0; i < nb; i++) labels[i] = cc.new_label();
    for (int bi = 0; bi < nb; bi++) {
      if (bi > 0) cc.bind(labels[bi]);
      const Block& b = P.blocks[bi];
      if (b.fuel) { cc.subs(g(P.fuel, 4), g(P.fuel, 4), Imm(1)); cc.b_mi(labels[nb - 1]); }
      for (const Op& o : b.ops) emit_op(o);
      emit_term(bi);
      if (b.data_after) {
        Label dl = cc.new_label();
        cc.bind(dl);
        for (int i = 0; i < b.data_after; i++) cc.embed_uint32(embedded_word(P.arch, b.data_kind, bi, i));
        dranges.push_back(DataRange{ dl, 4 * b.data_after, true });
        data_labels.push_back(dl);
      }
    }
    if (P.tables_inside) emit_tables(true);
    cc.end_func();
    if (!P.tables_inside) emit_tables(false);
  }
  void emit_tables(bool inside) {
    for (const Table& tb : tables) {
      cc.bind(tb.lab);
      for (int x : tb.targets) cc.embed_label_delta(labels[x], tb.lab, 4);
      dranges.push_back(DataRange{ tb.lab, 4 * (int)tb.targets.size(), inside });
    }
  }
};

static void finish_compile_only(CodeHolder& code, const std::vector<Label>& data_labels, Compiled& out) {
  code.flatten();
  code.resolve_cross_section_fixups();
  const CodeBuffer& tb = code.text_section()->buffer();
  out.code.assign(tb.data(), tb.data() + tb.size());
  size_t end = tb.size();
  for (const Label& l : data_labels) if (code.is_label_bound(l)) end = std::min(end, (size_t)code.label_offset(l));
  out.code_end = end;
  out.code_size = tb.size();
}

static bool compile_a64(const Program& P, Compiled& out, bool annotate) {
  if (g_trace) { fprintf(stderr, "--- compiling (a64) ---\n%s\n", serialise(P).c_str()); fflush(stderr); }
  CodeHolder code;
  ErrH eh;
  Environment env(Arch::kAArch64);
  Error e = code.init(env);
  if (e != Error::kOk) { out.err = e; out.stage = "init"; return false; }
  code.set_error_handler(&eh);
  FileLogger flog(stderr);
  if (g_trace) { flog.add_flags(FormatFlags::kMachineCode); code.set_logger(&flog); }
  a64::Compiler cc(&code);
  if (annotate) cc.add_diagnostic_options(DiagnosticOptions::kRAAnnotate);
  A64Emitter em(cc, P);
  em.build();
  if (eh.err != Error::kOk) { out.err = eh.err; out.errmsg = eh.msg; out.stage = "emit"; return false; }
  e = cc.finalize();
  if (e != Error::kOk || eh.err != Error::kOk) { out.err = e != Error::kOk ? e : eh.err; out.errmsg = eh.msg; out.stage = "finalize"; return false; }
  out.st.user_insts = (int)em.recs.size();
  collect_ra_stats(cc, em.recs, out.st);
  finish_compile_only(code, em.data_labels, out);
  out.data_json = data_ranges_json(code, em.dranges);
  return true;
}

static const Profile kProfilesA64[] = {
  { "a64-gp",        ARCH_A64, MODE_SSE, 4, 20,  0, 0,   0, 0, 0, 0,  4, 14,  10, 4, 0, 4, 0, 0, 0, 1,  2, 10, 1, 0 },
  { "a64-pressure",  ARCH_A64, MODE_SSE, 30, 70, 0, 0,   0, 0, 0, 0,  5, 16,  10, 3, 0, 4, 0, 0, 0, 1,  3, 10, 1, 0 },
  { "a64-vec",       ARCH_A64, MODE_SSE, 4, 12,  10, 60, 0, 0, 0, 4,  5, 16,  3, 1, 0, 2, 12, 0, 1, 1,  2, 10, 1, 0 },
  { "a64-calls",     ARCH_A64, MODE_SSE, 8, 40,  4, 40,  0, 0, 2, 12, 4, 10,  5, 1, 0, 2, 3, 0, 3, 8,   2, 8,  1, 0 },
  { "a64-jumptable", ARCH_A64, MODE_SSE, 6, 40,  0, 8,   0, 0, 0, 0,  3, 8,   8, 2, 0, 2, 1, 0, 0, 1,   4, 12, 10, 0 },
};
static const int kNProfilesA64 = sizeof(kProfilesA64) / sizeof(kProfilesA64[0]);

// ---------------------------------------------------------------------------------------------------------------
// Straight-line register-list programs (AArch64 ld1-ld4/st1-st4/tbl/tbx, x86 vp2intersect k-pairs, 4FMAPS blocks).
// They cannot be executed here; the Python side symbolically executes the disassembly and compares the tokens
// reaching every store with the expectation computed from the IR below.
// ---------------------------------------------------------------------------------------------------------------

enum : u8 { L_LD = 0, L_ST, L_TBL, L_TBX, L_MOV, L_ADD, L_P2I, L_F4 };
struct LOp { u8 kind = 0; u8 n = 0; int v[4] = { -1, -1, -1, -1 }; int d = -1; int a = -1; int b = -1; int slot = 0; };
struct ListProgram { int kind; int nvals; int nz; std::vector<LOp> ops; };  // kind 0: a64, 1: x86 k-pairs, 2: x86 4fmaps

static std::string list_tokens_expected(const ListProgram& L, std::vector<std::string>& errors) {
  std::vector<std::string> tok(L.nvals, "?");
  std::string out = "[";
  bool first = true;
  int ord = 0;
  for (const LOp& o : L.ops) {
    switch (o.kind) {
      case L_LD: { for (int j = 0; j < o.n; j++) tok[o.v[j]] = "L" + std::to_string(ord) + "." + std::to_string(j); ord++; break; }
      case L_ST: {
        if (!first) out += ",";
        first = false;
        out += "[";
        for (int j = 0; j < o.n; j++) { if (j) out += ","; if (tok[o.v[j]] == "?") errors.push_back("store of undefined value"); out += jstr(tok[o.v[j]]); }
        out += "]";
        break;
      }
      case L_TBL: case L_TBX: {
        std::string t = std::string(o.kind == L_TBL ? "T" : "X") + std::to_string(ord) + "(";
        if (o.kind == L_TBX) t += tok[o.d] + "|";
        for (int j = 0; j < o.n; j++) t += tok[o.v[j]] + ",";
        t += "|" + tok[o.a] + ")";
        tok[o.d] = t; ord++;
        break;
      }
      case L_MOV: tok[o.d] = tok[o.a]; break;
      case L_ADD: tok[o.d] = "A(" + tok[o.a] + "," + tok[o.b] + ")"; break;
      case L_P2I: tok[o.v[0]] = "P" + std::to_string(ord) + ".0"; tok[o.v[1]] = "P" + std::to_string(ord) + ".1"; ord++; break;
      case L_F4: {
        std::string t = "F" + std::to_string(ord) + "(" + tok[o.d] + "|";
        for (int j = 0; j < 4; j++) t += tok[o.v[j]] + ",";
        tok[o.d] = t + ")"; ord++;
        break;
      }
    }
  }
  return out + "]";
}

static ListProgram gen_list_program(Rng& r, int kind) {
  ListProgram L; L.kind = kind;
  int maxn = kind == 1 ? 2 : 4;
  static const int nv_choices[] = { 3, 4, 6, 8, 12, 20, 34, 40 };
  L.nvals = kind == 1 ? (int)r.range(2, 14) : nv_choices[r.below(8)];
  L.nz = 3;
  std::vector<char> defd(L.nvals, 0);
  auto distinct = [&](int n, int* out, bool need_defined) -> bool {
    for (int tries = 0; tries < 50; tries++) {
      bool ok = true;
      for (int j = 0; j < n && ok; j++) {
        out[j] = (int)r.below(L.nvals);
        if (need_defined && !defd[out[j]]) ok = false;
        for (int k = 0; k < j; k++) if (out[k] == out[j]) ok = false;
      }
      if (ok) return true;
    }
    return false;
  };
  // define everything first (in lists of random length so that lead/follower roles differ later)
  {
    std::vector<int> order(L.nvals);
    for (int i = 0; i < L.nvals; i++) order[i] = i;
    for (int i = L.nvals - 1; i > 0; i--) std::swap(order[i], order[r.below(i + 1)]);
    int i = 0;
    while (i < L.nvals) {
      LOp o;
      int n = (int)r.range(1, maxn); if (i + n > L.nvals) n = L.nvals - i;
      if (kind == 1) {
        if (n == 2 && r.chance(1, 2)) { o.kind = L_P2I; o.n = 2; o.a = (int)r.below(L.nz); o.b = (int)r.below(L.nz); }
        else { o.kind = L_LD; n = 1; o.n = 1; }
      }
      else if (kind == 2) { o.kind = L_LD; n = 1; o.n = 1; }
      else { o.kind = L_LD; o.n = (u8)n; }
      for (int j = 0; j < n; j++) { o.v[j] = order[i + j]; defd[order[i + j]] = 1; }
      o.slot = (int)r.below(8);
      L.ops.push_back(o);
      i += n;
    }
  }
  int nops = (int)r.range(4, 24);
  for (int k = 0; k < nops; k++) {
    LOp o;
    int c = (int)r.below(10);
    if (kind == 0) {
      if (c < 3) { o.kind = L_ST; o.n = (u8)r.range(2, 4); if (o.n > L.nvals) o.n = (u8)L.nvals; if (!distinct(o.n, o.v, true)) continue; }
      else if (c < 5) { o.kind = L_LD; o.n = (u8)r.range(2, 4); if (o.n > L.nvals) o.n = (u8)L.nvals; if (!distinct(o.n, o.v, false)) continue; for (int j = 0; j < o.n; j++) defd[o.v[j]] = 1; }
      else if (c < 8) {
        o.kind = r.chance(1, 3) ? L_TBX : L_TBL; o.n = (u8)r.range(1, 4); if (o.n + 1 > L.nvals) o.n = 1;
        if (g_avoid_fwd & 256) o.n = 1;
        if (!distinct(o.n, o.v, true)) continue;
        o.d = (int)r.below(L.nvals); o.a = (int)r.below(L.nvals);
        if (!defd[o.a] || (o.kind == L_TBX && !defd[o.d])) continue;
        defd[o.d] = 1;
      }
      else if (c < 9) { o.kind = L_MOV; o.d = (int)r.below(L.nvals); o.a = (int)r.below(L.nvals); if (!defd[o.a]) continue; defd[o.d] = 1; }
      else { o.kind = L_ADD; o.d = (int)r.below(L.nvals); o.a = (int)r.below(L.nvals); o.b = (int)r.below(L.nvals); if (!defd[o.a] || !defd[o.b]) continue; defd[o.d] = 1; }
    }
    else if (kind == 1) {
      if (c < 4) { o.kind = L_P2I; o.n = 2; if (!distinct(2, o.v, false)) continue; o.a = (int)r.below(L.nz); o.b = (int)r.below(L.nz); defd[o.v[0]] = defd[o.v[1]] = 1; }
      else if (c < 6) { o.kind = L_ST; o.n = 1; o.v[0] = (int)r.below(L.nvals); if (!defd[o.v[0]]) continue; }
      else if (c < 8) { o.kind = L_ADD; o.d = (int)r.below(L.nvals); o.a = (int)r.below(L.nvals); o.b = (int)r.below(L.nvals); if (!defd[o.a] || !defd[o.b]) continue; defd[o.d] = 1; }
      else { o.kind = L_MOV; o.d = (int)r.below(L.nvals); o.a = (int)r.below(L.nvals); if (!defd[o.a]) continue; defd[o.d] = 1; }
    }
    else {
      if (c < 4) { o.kind = L_F4; o.n = 4; if (L.nvals < 5 || !distinct(4, o.v, true)) continue; o.d = (int)r.below(L.nvals); if (!defd[o.d]) continue; bool clash = false; for (int j = 0; j < 4; j++) if (o.v[j] == o.d) clash = true; if (clash) continue; }
      else if (c < 6) { o.kind = L_ST; o.n = 1; o.v[0] = (int)r.below(L.nvals); if (!defd[o.v[0]]) continue; }
      else if (c < 8) { o.kind = L_ADD; o.d = (int)r.below(L.nvals); o.a = (int)r.below(L.nvals); o.b = (int)r.below(L.nvals); if (!defd[o.a] || !defd[o.b]) continue; defd[o.d] = 1; }
      else { o.kind = L_MOV; o.d = (int)r.below(L.nvals); o.a = (int)r.below(L.nvals); if (!defd[o.a]) continue; defd[o.d] = 1; }
    }
    o.slot = (int)r.below(8);
    L.ops.push_back(o);
  }
  // keep everything alive until the end: one store per value
  for (int i = 0; i < L.nvals; i++) { LOp o; o.kind = L_ST; o.n = 1; o.v[0] = i; o.slot = i % 8; L.ops.push_back(o); }
  return L;
}

static std::string serialise_list(const ListProgram& L) {
  static const char* kn[] = { "ld", "st", "tbl", "tbx", "mov", "add", "p2i", "f4" };
  std::string s = "listprogram kind=" + std::to_string(L.kind) + " nvals=" + std::to_string(L.nvals) + "\n";
  for (const LOp& o : L.ops) {
    char b[160];
    snprintf(b, sizeof b, "  %s n=%d v=[%d,%d,%d,%d] d=%d a=%d b=%d slot=%d\n", kn[o.kind], o.n, o.v[0], o.v[1], o.v[2], o.v[3], o.d, o.a, o.b, o.slot);
    s += b;
  }
  return s;
}

static bool compile_list_a64(const ListProgram& L, Compiled& out) {
  CodeHolder code; ErrH eh;
  Environment env(Arch::kAArch64);
  code.init(env);
  code.set_error_handler(&eh);
  FileLogger flog(stderr);
  if (g_trace) { flog.add_flags(FormatFlags::kMachineCode); code.set_logger(&flog); }
  a64::Compiler cc(&code);
  cc.add_diagnostic_options(DiagnosticOptions::kRAAnnotate);
  FuncNode* fn = cc.add_func(FuncSignature::build<void, void*>());
  a64::Gp buf = cc.new_gp_ptr("buf");
  fn->set_arg(0, buf);
  std::vector<a64::Vec> v(L.nvals);
  for (int i = 0; i < L.nvals; i++) v[i] = cc.new_vec_q("v%d", i);
  std::vector<NodeRec> recs;
  for (const LOp& o : L.ops) {
    a64::Gp p;
    if (o.kind == L_LD || o.kind == L_ST) { p = cc.new_gp_ptr("p"); cc.add(p, buf, Imm(o.slot * 64)); }
    a64::Mem m = a64::ptr(p);
    switch (o.kind) {
      case L_LD:
        switch (o.n) {
          case 1: cc.ld1(v[o.v[0]].b16(), m); break;
          case 2: cc.ld2(v[o.v[0]].s4(), v[o.v[1]].s4(), m); break;
          case 3: cc.ld3(v[o.v[0]].s4(), v[o.v[1]].s4(), v[o.v[2]].s4(), m); break;
          default: cc.ld4(v[o.v[0]].b16(), v[o.v[1]].b16(), v[o.v[2]].b16(), v[o.v[3]].b16(), m); break;
        }
        break;
      case L_ST:
        switch (o.n) {
          case 1: cc.st1(v[o.v[0]].b16(), m); break;
          case 2: if (o.slot & 1) cc.st1(v[o.v[0]].b16(), v[o.v[1]].b16(), m); else cc.st2(v[o.v[0]].s4(), v[o.v[1]].s4(), m); break;
          case 3: cc.st3(v[o.v[0]].s4(), v[o.v[1]].s4(), v[o.v[2]].s4(), m); break;
          default: if (o.slot & 1) cc.st1(v[o.v[0]].b16(), v[o.v[1]].b16(), v[o.v[2]].b16(), v[o.v[3]].b16(), m); else cc.st4(v[o.v[0]].b16(), v[o.v[1]].b16(), v[o.v[2]].b16(), v[o.v[3]].b16(), m); break;
        }
        break;
      case L_TBL: case L_TBX: {
        a64::Vec d = v[o.d].b16(), ix = v[o.a].b16();
        bool x = o.kind == L_TBX;
        switch (o.n) {
          case 1: x ? cc.tbx(d, v[o.v[0]].b16(), ix) : cc.tbl(d, v[o.v[0]].b16(), ix); break;
          case 2: x ? cc.tbx(d, v[o.v[0]].b16(), v[o.v[1]].b16(), ix) : cc.tbl(d, v[o.v[0]].b16(), v[o.v[1]].b16(), ix); break;
          case 3: x ? cc.tbx(d, v[o.v[0]].b16(), v[o.v[1]].b16(), v[o.v[2]].b16(), ix) : cc.tbl(d, v[o.v[0]].b16(), v[o.v[1]].b16(), v[o.v[2]].b16(), ix); break;
          default: x ? cc.tbx(d, v[o.v[0]].b16(), v[o.v[1]].b16(), v[o.v[2]].b16(), v[o.v[3]].b16(), ix) : cc.tbl(d, v[o.v[0]].b16(), v[o.v[1]].b16(), v[o.v[2]].b16(), v[o.v[3]].b16(), ix); break;
        }
        break;
      }
      case L_MOV: cc.mov(v[o.d].b16(), v[o.a].b16()); break;
      case L_ADD: cc.add(v[o.d].s4(), v[o.a].s4(), v[o.b].s4()); break;
      default: break;
    }
  }
  cc.end_func();
  if (eh.err != Error::kOk) { out.err = eh.err; out.errmsg = eh.msg; out.stage = "emit"; return false; }
  Error e = cc.finalize();
  if (e != Error::kOk || eh.err != Error::kOk) { out.err = e != Error::kOk ? e : eh.err; out.errmsg = eh.msg; out.stage = "finalize"; return false; }
  collect_ra_stats(cc, recs, out.st);
  finish_compile_only(code, std::vector<Label>(), out);
  return true;
}

static bool compile_list_x86(const ListProgram& L, Compiled& out) {
  using namespace x86;
  CodeHolder code; ErrH eh;
  Environment env(Arch::kX64);
  CpuFeatures feats = CpuInfo::host().features();
  feats.add(CpuFeatures::X86::kAVX512_F, CpuFeatures::X86::kAVX512_BW, CpuFeatures::X86::kAVX512_DQ, CpuFeatures::X86::kAVX512_VL,
            CpuFeatures::X86::kAVX512_VP2INTERSECT);
  code.init(env, feats);
  code.set_error_handler(&eh);
  FileLogger flog(stderr);
  if (g_trace) { flog.add_flags(FormatFlags::kMachineCode); code.set_logger(&flog); }
  x86::Compiler cc(&code);
  cc.add_diagnostic_options(DiagnosticOptions::kRAAnnotate);
  FuncNode* fn = cc.add_func(FuncSignature::build<void, void*>());
  fn->frame().set_avx_enabled();
  fn->frame().set_avx512_enabled();
  Gp buf = cc.new_gp_ptr("buf");
  fn->set_arg(0, buf);
  std::vector<NodeRec> recs;
  if (L.kind == 1) {
    std::vector<KReg> k(L.nvals);
    std::vector<Vec> z(L.nz);
    for (int i = 0; i < L.nvals; i++) k[i] = cc.new_kq("k%d", i);
    for (int i = 0; i < L.nz; i++) { z[i] = cc.new_zmm("z%d", i); cc.vmovdqu32(z[i], ptr(buf, 1024 + 64 * i)); }
    for (const LOp& o : L.ops) {
      switch (o.kind) {
        case L_LD: cc.kmovq(k[o.v[0]], qword_ptr(buf, o.slot * 8)); break;
        case L_ST: cc.kmovq(qword_ptr(buf, 512 + o.slot * 8), k[o.v[0]]); break;
        case L_P2I: cc.vp2intersectd(k[o.v[0]], k[o.v[1]], z[o.a], z[o.b]); break;
        case L_MOV: cc.kmovq(k[o.d], k[o.a]); break;
        case L_ADD: cc.kandq(k[o.d], k[o.a], k[o.b]); break;
        default: break;
      }
    }
  }
  else {
    std::vector<Vec> z(L.nvals);
    for (int i = 0; i < L.nvals; i++) z[i] = cc.new_zmm("z%d", i);
    for (const LOp& o : L.ops) {
      switch (o.kind) {
        case L_LD: cc.vmovdqu32(z[o.v[0]], zmmword_ptr(buf, o.slot * 64)); break;
        case L_ST: cc.vmovdqu32(zmmword_ptr(buf, 1024 + o.slot * 64), z[o.v[0]]); break;
        case L_F4: break;  // 4FMAPS is not part of this AsmJit version
        case L_MOV: cc.vmovdqa32(z[o.d], z[o.a]); break;
        case L_ADD: cc.vpaddd(z[o.d], z[o.a], z[o.b]); break;
        default: break;
      }
    }
  }
  cc.end_func();
  if (eh.err != Error::kOk) { out.err = eh.err; out.errmsg = eh.msg; out.stage = "emit"; return false; }
  Error e = cc.finalize();
  if (e != Error::kOk || eh.err != Error::kOk) { out.err = e != Error::kOk ? e : eh.err; out.errmsg = eh.msg; out.stage = "finalize"; return false; }
  collect_ra_stats(cc, recs, out.st);
  finish_compile_only(code, std::vector<Label>(), out);
  return true;
}

// ---------------------------------------------------------------------------------------------------------------
// Compile-only work is done in a forked child so that a crash inside the register allocator (ASan/UBSan abort)
// costs one program, not the batch. The sanitizer report still goes to stderr (the Python side turns it into a
// violation); the parent records which program died.
// ---------------------------------------------------------------------------------------------------------------

static char* g_task_shm = nullptr;
static const size_t TASK_SHM_SIZE = 16u << 20;

struct TaskResult { bool ok = false; int sig = 0; int exitcode = 0; std::string out; };

static TaskResult run_child_task(const std::function<void(std::string&)>& fn) {
  if (!g_task_shm) {
    g_task_shm = (char*)mmap(nullptr, TASK_SHM_SIZE, PROT_READ | PROT_WRITE, MAP_SHARED | MAP_ANONYMOUS, -1, 0);
    if (g_task_shm == MAP_FAILED) { fprintf(stderr, "mmap failed\n"); exit(3); }
  }
  TaskResult r;
  *(volatile u32*)g_task_shm = 0;
  fflush(stdout); fflush(stderr);
  pid_t pid = fork();
  if (pid < 0) return r;
  if (pid == 0) {
    signal(SIGPROF, SIG_DFL); signal(SIGALRM, SIG_DFL);
    struct itimerval tv; memset(&tv, 0, sizeof tv); tv.it_value.tv_sec = 10;   // CPU time: a compile normally takes milliseconds
    setitimer(ITIMER_PROF, &tv, nullptr);
    alarm(240);
    std::string out;
    fn(out);
    if (out.size() + 8 > TASK_SHM_SIZE) out.resize(TASK_SHM_SIZE - 8);
    memcpy(g_task_shm + 4, out.data(), out.size());
    *(volatile u32*)g_task_shm = (u32)out.size() + 1;
    _exit(0);
  }
  int st = 0;
  while (waitpid(pid, &st, 0) < 0 && errno == EINTR) {}
  if (WIFEXITED(st) && WEXITSTATUS(st) == 0 && *(volatile u32*)g_task_shm) {
    r.ok = true;
    r.out.assign(g_task_shm + 4, *(volatile u32*)g_task_shm - 1);
  }
  else { r.sig = WIFSIGNALED(st) ? WTERMSIG(st) : 0; r.exitcode = WIFEXITED(st) ? WEXITSTATUS(st) : -1; }
  return r;
}

// child -> parent record: "OK|ERR <loads> <saves> <moves> <swaps> <rm> <user_insts>\n<payload...>"
static std::string stats_line(const char* tag, const EmitStats& st) {
  char b[160];
  snprintf(b, sizeof b, "%s %d %d %d %d %d %d\n", tag, st.loads, st.saves, st.moves, st.swaps, st.rm_subst, st.user_insts);
  return b;
}
static bool parse_stats_line(const std::string& s, std::string& tag, EmitStats& st, std::string& payload) {
  size_t nl = s.find('\n');
  if (nl == std::string::npos) return false;
  char t[16] = {0};
  if (sscanf(s.c_str(), "%15s %d %d %d %d %d %d", t, &st.loads, &st.saves, &st.moves, &st.swaps, &st.rm_subst, &st.user_insts) != 7) return false;
  tag = t; payload = s.substr(nl + 1);
  return true;
}

struct ViolationOut;
static void add_violation(std::vector<ViolationOut>& viols, const std::string& key, const std::string& what, const std::string& witness, u64 index);

static bool run_other_mode(const std::string& mode, const Args& args, Counters& ctr, std::vector<ViolationOut>& viols,
                           std::vector<std::string>& harness_errors, std::string& extra_json) {
  u64 seed = args.u64("seed", 1), first = args.u64("first", 0), count = args.u64("count", 10);
  bool annotate = args.u64("annotate", 1) != 0;
  if (mode == "a64") {
    std::string progs = "[";
    bool firstp = true;
    for (u64 idx = first; idx < first + count; idx++) {
      Rng pr = Rng(seed * 0x9E3779B97F4A7C15ull + 0xA64).fork(idx + 0xA640000);
      Profile pfl = kProfilesA64[idx % kNProfilesA64];
      Program P = gen_program(pr, pfl, -1);
      if (args.has("dump")) printf("%s\n", serialise(P).c_str());
      count_program(ctr, P);
      u64 ph = program_hash(P);
      ctr.distinct_all.insert(ph);
      ctr.shapes_seen.insert(cfg_shape_hash(P));
      ctr.max_live = std::max(ctr.max_live, measure_max_live(P));
      ctr.evaluations++;
      TaskResult tr = run_child_task([&](std::string& out) {
        Compiled comp;
        bool ok = compile_a64(P, comp, annotate);
        if (!ok) { out = stats_line("ERR", comp.st) + std::string(DebugUtils::error_as_string(comp.err)) + "\n" + comp.stage + ": " + comp.errmsg; return; }
        out = stats_line("OK", comp.st) + "{\"index\":" + std::to_string(idx) + ",\"profile\":" + jstr(P.profile) + ",\"code_end\":" + std::to_string(comp.code_end) + ",\"data\":" + comp.data_json +
              ",\"user_insts\":" + std::to_string(comp.st.user_insts) + ",\"hex\":\"" + hexstr(comp.code.data(), comp.code.size()) + "\"}";
      });
      std::string tag, payload; EmitStats st;
      if (!tr.ok || !parse_stats_line(tr.out, tag, st, payload)) {
        ctr.compile_errors++;
        if (tr.sig == SIGALRM) { ctr.ops_by_kind["watchdog-inconclusive"]++; continue; }
        add_violation(viols, std::string(tr.sig == SIGPROF ? "a64:ra-hang:" : "a64:ra-crash:") + P.profile,
                      std::string(tr.sig == SIGPROF ? "the AArch64 Compiler did not terminate within 10 s of CPU time" : "the AArch64 Compiler crashed") + " (signal " +
                      std::to_string(tr.sig) + ", exit code " + std::to_string(tr.exitcode) +
                      ", see sanitizer report) while compiling program index=" + std::to_string(idx) + " profile=" + P.profile, serialise(P), idx);
        continue;
      }
      if (tag == "ERR") {
        ctr.compile_errors++;
        std::string ec = payload.substr(0, payload.find('\n'));
        add_violation(viols, std::string("a64:finalize-error:") + ec, "AArch64 Compiler failed: " + payload + " profile=" + P.profile + " index=" + std::to_string(idx),
                      serialise(P), idx);
        continue;
      }
      ctr.loads += st.loads; ctr.saves += st.saves; ctr.moves += st.moves; ctr.swaps += st.swaps; ctr.user_insts += st.user_insts;
      if (st.nontrivial()) { ctr.nontrivial++; ctr.distinct_nontrivial.insert(ph); }
      if (!firstp) progs += ",";
      firstp = false;
      progs += payload;
    }
    extra_json = ",\"compiled\":" + progs + "]";
    return true;
  }
  if (mode == "a64lists" || mode == "x86lists") {
    std::string progs = "[";
    bool firstp = true;
    for (u64 idx = first; idx < first + count; idx++) {
      Rng pr = Rng(seed * 0x9E3779B97F4A7C15ull + 0x115).fork(idx + (mode == "a64lists" ? 0x1150000 : 0x1160000));
      int kind = mode == "a64lists" ? 0 : 1;  // x86: only vp2intersect{d|q} needs consecutive registers in this AsmJit version
      ListProgram L = gen_list_program(pr, kind);
      std::vector<std::string> errs;
      std::string expect = list_tokens_expected(L, errs);
      if (!errs.empty()) { harness_errors.push_back("list program " + std::to_string(idx) + ": " + errs[0]); continue; }
      ctr.programs++; ctr.evaluations++;
      std::string ser = serialise_list(L);
      u64 ph = fnv1a(ser.data(), ser.size());
      ctr.distinct_all.insert(ph);
      ctr.max_live = std::max(ctr.max_live, L.nvals);
      for (const LOp& o : L.ops) { static const char* kn[] = { "list-load", "list-store", "tbl", "tbx", "mov", "add", "vp2intersect", "v4fmaddps" }; ctr.ops_by_kind[kn[o.kind]]++; }
      if (g_trace) { fprintf(stderr, "--- compiling list program %llu ---\n%s\n", (unsigned long long)idx, ser.c_str()); fflush(stderr); }
      std::string cls = kind == 0 ? "a64" : "x64";
      bool has_tbl = false; for (const LOp& o : L.ops) if ((o.kind == L_TBL || o.kind == L_TBX) && o.n > 1) has_tbl = true;
      std::string what = kind == 0 ? (has_tbl ? "lists-with-tbl" : "lists") : (kind == 1 ? "vp2intersect" : "v4fmaddps");
      TaskResult tr = run_child_task([&](std::string& out) {
        Compiled comp;
        bool ok = kind == 0 ? compile_list_a64(L, comp) : compile_list_x86(L, comp);
        if (!ok) { out = stats_line("ERR", comp.st) + std::string(DebugUtils::error_as_string(comp.err)) + "\n" + comp.stage + ": " + comp.errmsg; return; }
        out = stats_line("OK", comp.st) + "{\"index\":" + std::to_string(idx) + ",\"kind\":" + std::to_string(kind) + ",\"nvals\":" + std::to_string(L.nvals) +
              ",\"expect\":" + expect + ",\"ir\":" + jstr(ser) + ",\"hex\":\"" + hexstr(comp.code.data(), comp.code.size()) + "\"}";
      });
      std::string tag, payload; EmitStats st;
      if (!tr.ok || !parse_stats_line(tr.out, tag, st, payload)) {
        ctr.compile_errors++;
        if (tr.sig == SIGALRM) { ctr.ops_by_kind["watchdog-inconclusive"]++; continue; }
        add_violation(viols, cls + (tr.sig == SIGPROF ? ":ra-hang:" : ":ra-crash:") + what + (L.nvals > 32 ? ":pressure" : ""),
                      std::string(tr.sig == SIGPROF ? "the Compiler did not terminate within 10 s of CPU time" : "the Compiler crashed") + " (signal " + std::to_string(tr.sig) +
                      ", exit code " + std::to_string(tr.exitcode) + ", see sanitizer report) on a register-list program index=" + std::to_string(idx), ser, idx);
        continue;
      }
      if (tag == "ERR") {
        ctr.compile_errors++;
        std::string ec = payload.substr(0, payload.find('\n'));
        add_violation(viols, cls + ":finalize-error:" + what + ":" + ec, "Compiler failed on a register-list program: " + payload + " index=" + std::to_string(idx), ser, idx);
        continue;
      }
      ctr.loads += st.loads; ctr.saves += st.saves; ctr.moves += st.moves; ctr.swaps += st.swaps;
      if (st.nontrivial()) { ctr.nontrivial++; ctr.distinct_nontrivial.insert(ph); }
      if (!firstp) progs += ",";
      firstp = false;
      progs += payload;
    }
    extra_json = ",\"compiled\":" + progs + "]";
    return true;
  }
  return false;
}


// ---------------------------------------------------------------------------------------------------------------
// Probes: small hand-written programs for constructs that were found defective. A failing probe is reported under a
// stable key and tells the Python side which construct the random generator has to avoid (so that one known defect
// does not mask everything else); a passing probe re-enables the construct automatically.
// ---------------------------------------------------------------------------------------------------------------

struct ProbeBuilder {
  Program P;
  ProbeBuilder(u8 mode = MODE_SSE, u8 sigclass = 0) {
    P.arch = ARCH_X64; P.mode = mode; P.profile = "probe"; P.shape = "probe"; P.sigclass = sigclass;
    P.argbind.assign(kSigClasses[sigclass].ni + kSigClasses[sigclass].nd, -1);
    P.blocks.resize(2);
    P.fuel = val(KIND_G, 4, false);
    Op o; o.opc = O_MOV; o.w = 4; o.d = P.fuel; o.s = SI(30); P.blocks[0].ops.push_back(o);
    P.fuel_init = 30;
  }
  int val(u8 kind, u8 size, bool dumped = true) { ValDef d; d.kind = kind; d.size = size; d.dumped = dumped; P.vals.push_back(d); return (int)P.vals.size() - 1; }
  int nblock() { P.blocks.emplace_back(); return (int)P.blocks.size() - 1; }
  std::vector<Op>& ops(int b = 1) { return P.blocks[b].ops; }
  static MemRef M(int off) { MemRef m; m.off = off; return m; }
  void load(int v, int off, int b = 0) {
    const ValDef& d = P.vals[v];
    Op o; o.d = v; o.w = d.size; o.s = SM(M(off));
    o.opc = d.kind == KIND_G ? O_MOV : d.kind == KIND_V ? O_VMOV : d.kind == KIND_K ? O_KLOAD : O_DLOAD;
    P.blocks[b].ops.push_back(o);
  }
  void call0(int b = 1) { Op o; o.opc = O_CALL; o.imm = 0; ops(b).push_back(o); }
  void finish(int retval) {
    int fin = nblock();
    for (int vi = 0; vi < (int)P.vals.size(); vi++) {
      const ValDef& d = P.vals[vi];
      if (!d.dumped) continue;
      Op q; MemRef m; m.off = DUMP_OFF + vi * 64;
      if (d.kind == KIND_G) { q.opc = O_STORE; q.w = d.size; q.s = SR(vi); q.s2 = SM(m); }
      else if (d.kind == KIND_V && d.half) { q.opc = O_DSTORE; q.a = vi; q.s2 = SM(m); }
      else if (d.kind == KIND_V) { q.opc = O_VSTORE; q.w = d.size; q.a = vi; q.s2 = SM(m); }
      else if (d.kind == KIND_K) { q.opc = O_KSTORE; q.w = d.size; q.a = vi; q.s2 = SM(m); }
      else { q.opc = O_DSTORE; q.a = vi; q.s2 = SM(m); }
      P.blocks[fin].ops.push_back(q);
    }
    P.blocks[fin].term.kind = T_RET;
    P.retval = retval;
    compute_fuel_flags(P);
  }
};

struct ProbeDef { const char* name; u32 avoid_bit; bool needs512; const char* what; };
static const ProbeDef kProbes[] = {
  { "cmpxchg-accumulator", AV_CMPXCHG, false, "cmpxchg [mem], src, acc: the accumulator written on a failed compare is lost (treated as read-only)" },
  { "same-reg-idiom-narrow", AV_SAMEREG_NARROW, false, "sub/xor r8,r8 on a 64-bit virtual register is treated as a write of the whole register" },
  { "reg-to-mem-32bit-rmw", AV_RMW32_ON64, false, "32-bit read-modify-write on a spilled 64-bit virtual register is rewritten to a memory operand and loses the zero extension" },
  { "reg-to-mem-high-byte", AV_HI8, false, "AH/BH/CH/DH operand of a spilled virtual register is rewritten to the low byte of its home slot" },
  { "reg-to-mem-kmovw", AV_KMOVW_TOG, true, "kmovw r32, k with a spilled k register is rewritten to an invalid memory form" },
  { "vector-argument-avx512", AV_VECARG_AVX512, true, "vector function argument assigned to xmm16..31 makes finalize fail with InvalidPhysId" },
  { "or-mem-all-ones", AV_OR_MEM_M1, false, "or [mem], -1 marks the base register of the memory operand write-only" },
  { "and-reg-zero", AV_AND_ZERO, false, "and reg, 0 is treated as not changing the register" },
  { "same-reg-idiom-narrow-vector", AV_SAMEREG_NARROW_VEC, false, "vpminud/vpand/... xmm,xmm,xmm with one 256-bit virtual register is treated as read-only although it clears the upper half" },
  { "a64-tbl-register-list", AV_A64_TBL_MULTI, false, "AArch64 tbl/tbx with a table of 2..4 registers: the allocator does not know that the table registers must be consecutive" },
  { "vpternlog-merge-masked", AV_TERN_MASKED, true, "vpternlogd v{k},v,v,0xFF / 0x00 under merge-masking is treated as write-only although the masked-off lanes keep the old value" },
  { "same-reg-hint-different-views", AV_HINT_VIEWS, false, "xchg/xor between AL and AH views of one virtual register gets the same-register hint of xchg r,r / xor r,r" },
  { "call-stack-area-max-over-invokes", 0, false, "the frame's call-stack area must cover the largest stack-argument block of ALL invokes, not the one of the last invoke: a big call followed by a small one overwrites spill slots / new_stack() memory" },
  { "immediate-stack-argument", 0, false, "immediate invoke arguments (InvokeNode::set_arg(i, Imm)) must arrive unchanged in register and stack positions for every boundary value" },
  { "ret-before-embedded-data", 0, false, "a ret (final or early) that is followed inside the function only by labels and embedded data must still jump to the epilog" },
  { "relocated-stack-argument-with-call-area", 0, false, "a stack-passed parameter relocated into a local slot (wider virtual register / realigned frame) must be stored where the body reads it, also when the function has a call-argument area" },
  { "bt-register-base-spilled", AV_BT_REGIDX, false, "bt/bts/btr/btc reg,reg: the bit-base register is replaced by its spill slot, where a bit index >= width addresses memory outside the slot instead of wrapping" },
  { "gather-mask-written", AV_GATHER, true, "vpgatherdd zmm{k}: the mask register is cleared by the instruction but the allocator treats it as read-only" },
  { "narrow-stack-parameter-bound-to-wide-vreg", AV_NARROW_PARAM_WIDE_VREG, false, "a stack-passed narrow integer parameter that gets no register on entry is moved stack-to-stack with the wrong store width: bound to a 64-bit virtual register only 4 bytes of the home slot are written (no zero/sign extension), bound to an 8/16-bit register 4 bytes are written into the 1/2-byte slot" },
  { "unreachable-predecessor", 0x80000000u, false, "an unreachable block that flows into a reachable loop crashes the liveness analysis" },
};
static const int kNProbes = sizeof(kProbes) / sizeof(kProbes[0]);

static Program build_probe(const std::string& name) {
  if (name == "cmpxchg-accumulator") {
    ProbeBuilder b;
    int acc = b.val(KIND_G, 8), src = b.val(KIND_G, 8);
    b.load(acc, 0); b.load(src, 8);
    b.call0();
    Op o; o.opc = O_CMPXCHG; o.w = 8; o.a = src; o.c = acc; o.s2 = SM(ProbeBuilder::M(16)); b.ops().push_back(o);
    b.call0();
    b.finish(acc);
    return b.P;
  }
  if (name == "same-reg-idiom-narrow") {
    ProbeBuilder b;
    int v = b.val(KIND_G, 8), w = b.val(KIND_G, 8);
    b.load(v, 0); b.load(w, 8);
    b.call0();
    Op o; o.opc = O_ALU; o.sub = A_SUB; o.w = 1; o.d = v; o.s = SR(v); b.ops().push_back(o);
    Op q; q.opc = O_ALU; q.sub = A_XOR; q.w = 2; q.d = w; q.s = SR(w); b.ops().push_back(q);
    b.finish(v);
    return b.P;
  }
  if (name == "reg-to-mem-32bit-rmw") {
    ProbeBuilder b;
    std::vector<int> v;
    for (int i = 0; i < 24; i++) { v.push_back(b.val(KIND_G, 8)); b.load(v.back(), 8 * i); }
    for (int rnd = 0; rnd < 2; rnd++)
      for (int i = 0; i < 24; i++) {
        Op o; o.w = 4; o.d = v[i];
        if ((i + rnd) % 3 == 0) { o.opc = O_ALU; o.sub = A_ADD; o.s = SI(1); }
        else if ((i + rnd) % 3 == 1) { o.opc = O_SHI; o.sub = SH_SHR; o.imm = 1; }
        else { o.opc = O_UN; o.sub = U_NOT; }
        b.ops().push_back(o);
      }
    b.finish(v[0]);
    return b.P;
  }
  if (name == "reg-to-mem-high-byte") {
    ProbeBuilder b;
    std::vector<int> v;
    for (int i = 0; i < 24; i++) { v.push_back(b.val(KIND_G, 4)); b.load(v.back(), 4 * i); }
    for (int i = 0; i < 24; i++) {
      Op o; o.opc = O_HI8; o.w = 1; o.sub = (u8)(i % 3 == 0 ? 3 : i % 3 == 1 ? 2 : 0); o.d = v[i]; o.a = v[(i + 7) % 24]; o.imm = 0x5A;
      b.ops().push_back(o);
    }
    b.finish(v[0]);
    return b.P;
  }
  if (name == "reg-to-mem-kmovw") {
    ProbeBuilder b(MODE_AVX512);
    std::vector<int> k, g;
    for (int i = 0; i < 12; i++) { k.push_back(b.val(KIND_K, 2)); b.load(k.back(), 2 * i); }
    for (int i = 0; i < 12; i++) g.push_back(b.val(KIND_G, 4));
    for (int i = 0; i < 12; i++) { Op o; o.opc = O_KTOG; o.w = 2; o.d = g[i]; o.a = k[i]; b.ops().push_back(o); }
    b.finish(g[0]);
    return b.P;
  }
  if (name == "vector-argument-avx512") {
    ProbeBuilder b(MODE_AVX512, 2);
    const SigClass& sc = kSigClasses[2];
    std::vector<int> d;
    for (int i = 0; i < sc.nd; i++) { d.push_back(b.val(KIND_D, 8)); b.P.argbind[sc.ni + i] = d.back(); }
    std::vector<int> z;
    for (int i = 0; i < 22; i++) { z.push_back(b.val(KIND_V, 64)); b.load(z.back(), (i % 7) * 64); }
    for (int rnd = 0; rnd < 4; rnd++)
      for (int i = 0; i < 22; i++) { Op o; o.opc = O_VALU; o.sub = VA_PADDD; o.w = 64; o.d = z[i]; o.a = z[i]; o.s = SR(z[(i + 1 + rnd) % 22]); b.ops().push_back(o); }
    b.finish(-1);
    return b.P;
  }
  if (name == "or-mem-all-ones") {
    ProbeBuilder b;
    int x = b.val(KIND_G, 8);
    b.load(x, 0);
    b.call0();
    Op o; o.opc = O_ALUM; o.sub = A_OR; o.w = 4; o.s = SI(-1); o.s2 = SM(ProbeBuilder::M(8)); b.ops().push_back(o);
    b.call0();
    Op q; q.opc = O_ALUM; q.sub = A_OR; q.w = 8; q.s = SI(-1); q.s2 = SM(ProbeBuilder::M(24)); b.ops().push_back(q);
    b.finish(x);
    return b.P;
  }
  if (name == "and-reg-zero") {
    ProbeBuilder b;
    int v = b.val(KIND_G, 8), w = b.val(KIND_G, 2);
    b.load(v, 0); b.load(w, 8);
    b.call0();
    { Op st; st.opc = O_STORE; st.w = 8; st.s = SR(v); st.s2 = SM(ProbeBuilder::M(32)); b.ops().push_back(st); }
    { Op st; st.opc = O_STORE; st.w = 2; st.s = SR(w); st.s2 = SM(ProbeBuilder::M(40)); b.ops().push_back(st); }
    Op o; o.opc = O_ALU; o.sub = A_AND; o.w = 8; o.d = v; o.s = SI(0); b.ops().push_back(o);
    Op q; q.opc = O_ALU; q.sub = A_AND; q.w = 2; q.d = w; q.s = SI(0); b.ops().push_back(q);
    b.call0();
    b.finish(v);
    return b.P;
  }
  if (name == "same-reg-idiom-narrow-vector") {
    ProbeBuilder b(MODE_AVX);
    int y = b.val(KIND_V, 32), y2 = b.val(KIND_V, 32);
    b.load(y, 0); b.load(y2, 64);
    b.call0();
    { Op st; st.opc = O_VSTORE; st.w = 32; st.a = y; st.s2 = SM(ProbeBuilder::M(128)); b.ops().push_back(st); }
    { Op st; st.opc = O_VSTORE; st.w = 32; st.a = y2; st.s2 = SM(ProbeBuilder::M(160)); b.ops().push_back(st); }
    Op o; o.opc = O_VALU; o.sub = VA_PMINUD; o.w = 16; o.d = y; o.a = y; o.s = SR(y); b.ops().push_back(o);
    Op q; q.opc = O_VALU; q.sub = VA_PAND; q.w = 16; q.d = y2; q.a = y2; q.s = SR(y2); b.ops().push_back(q);
    b.call0();
    b.finish(-1);
    return b.P;
  }
  if (name == "narrow-stack-parameter-bound-to-wide-vreg") {
    ProbeBuilder b(MODE_SSE, 6);
    const SigClass& sc = kSigClasses[6];
    // parameters 11, 12, 15, 16 (u16, i16, u8, i8) keep their own width (their 1/2-byte home slots must not be written with a 32-bit store),
    // all others are bound to 64-bit virtual registers (the whole 8-byte home slot must hold the extended value)
    for (int a = 0; a < sc.ni; a++) {
      int ps = psize(sc.isz[a]);
      int vi = b.val(KIND_G, (u8)((ps < 4 && a >= 10) ? ps : 8));
      b.P.vals[vi].sgn = psigned(sc.isz[a]); b.P.argbind[a] = vi;
    }
    b.finish(b.P.argbind[19]);
    return b.P;
  }
  if (name == "ret-before-embedded-data") {
    ProbeBuilder b;
    int x = b.val(KIND_G, 8), y = b.val(KIND_G, 8);
    b.load(x, 0); b.load(y, 8);
    // B1: if (x < y) goto B3 ; B2: early ret + data ; B3: x += y ; final: dump, ret + data
    Term& t = b.P.blocks[1].term; t.kind = T_BR; t.cc = CC_B; t.w = 8; t.a = x; t.s = SR(y); t.target = 3;
    int e = b.nblock(); b.P.blocks[e].term.kind = T_RET; b.P.blocks[e].data_after = 3; b.P.blocks[e].data_kind = 0;
    int c = b.nblock();
    { Op o; o.opc = O_ALU; o.sub = A_ADD; o.w = 8; o.d = x; o.s = SR(y); b.P.blocks[c].ops.push_back(o); }
    b.finish(x);
    b.P.blocks.back().data_after = 4; b.P.blocks.back().data_kind = 0;
    return b.P;
  }
  if (name == "relocated-stack-argument-with-call-area") {
    ProbeBuilder b(MODE_AVX, 3);
    const SigClass& sc = kSigClasses[3];
    for (int a = 0; a < sc.nd; a++) {
      int vi;
      if (a >= 8 && (a & 1) == 0) { vi = b.val(KIND_V, 16); b.P.vals[vi].half = 1; }   // wider than the parameter
      else vi = b.val(KIND_D, 8);
      b.P.argbind[sc.ni + a] = vi;
    }
    for (int a = 6; a < sc.ni; a++) { int vi = b.val(KIND_G, (u8)psize(sc.isz[a])); b.P.argbind[a] = vi; }   // stack-passed integers
    std::vector<int> y;
    for (int i = 0; i < 10; i++) { y.push_back(b.val(KIND_V, 32)); b.load(y.back(), 32 * i); }    // 32-byte spill slots: realigned frame
    { Op o; o.opc = O_CALL; o.imm = NCALLEE_OLD; for (int k = 0; k < g_sigs[NCALLEE_OLD].n; k++) o.args.push_back(SI(1000 + k)); b.ops().push_back(o); }
    for (int i = 0; i < 10; i++) { Op o; o.opc = O_VALU; o.sub = VA_PADDD; o.w = 32; o.d = y[i]; o.a = y[i]; o.s = SR(y[(i + 1) % 10]); b.ops().push_back(o); }
    b.call0();
    b.finish(-1);
    return b.P;
  }
  if (name == "bt-register-base-spilled") {
    ProbeBuilder b;
    int v = b.val(KIND_G, 4), v2 = b.val(KIND_G, 8), i1 = b.val(KIND_G, 4, false), i2 = b.val(KIND_G, 8, false), c1 = b.val(KIND_G, 1), c2 = b.val(KIND_G, 1);
    b.load(v, 0); b.load(v2, 8); b.load(c1, 16); b.load(c2, 17);
    { Op o; o.opc = O_MOV; o.w = 4; o.d = i1; o.s = SI(100); b.P.blocks[0].ops.push_back(o); }
    { Op o; o.opc = O_MOV; o.w = 8; o.d = i2; o.s = SI(-3); b.P.blocks[0].ops.push_back(o); }
    b.call0();
    { Op o; o.opc = O_BT; o.sub = 1; o.w = 4; o.d = v; o.c = i1; o.d2 = c1; b.ops().push_back(o); }    // bts v32, 100  -> bit 4
    { Op o; o.opc = O_BT; o.sub = 3; o.w = 8; o.d = v2; o.c = i2; o.d2 = c2; b.ops().push_back(o); }   // btc v64, -3   -> bit 61
    b.call0();
    b.finish(v);
    return b.P;
  }
  if (name == "gather-mask-written") {
    ProbeBuilder b(MODE_AVX512);
    int k = b.val(KIND_K, 2), k2 = b.val(KIND_K, 2), src = b.val(KIND_V, 64), d = b.val(KIND_V, 64), t = b.val(KIND_V, 64, false), g = b.val(KIND_G, 4, false);
    b.load(src, 64); b.load(d, 128); b.load(k2, 8);
    { Op o; o.opc = O_MOV; o.w = 4; o.d = g; o.s = SI(0xFFFF); b.P.blocks[0].ops.push_back(o); }
    { Op o; o.opc = O_KFROMG; o.w = 2; o.d = k; o.a = g; b.P.blocks[0].ops.push_back(o); }
    b.call0();
    { Op o; o.opc = O_VSHI; o.sub = VS_PSRLD; o.w = 64; o.d = t; o.a = src; o.imm = 26; b.ops().push_back(o); }
    { Op o; o.opc = O_VGATHER; o.w = 64; o.d = d; o.a = t; o.c = k; o.imm = 16; b.ops().push_back(o); }
    b.call0();
    b.finish(-1);
    return b.P;
  }
  if (name == "immediate-stack-argument") {
    ProbeBuilder b;
    static const u64 kB[] = { 0, 1, ~0ull, 0x7F, 0x80, 0xFF, 0x7FFF, 0x8000, 0xFFFF, 0x7FFFFFFFull, 0x80000000ull, 0xFFFFFFFFull, 0x100000000ull,
                              0x7FFFFFFFFFFFFFFFull, 0x8000000000000000ull, 0xFFFFFFFF80000000ull, 0xFFFFFFFF7FFFFFFFull, 0xDEADBEEFull };
    const int nb = (int)(sizeof(kB) / sizeof(kB[0]));
    int v = b.val(KIND_G, 8);
    b.load(v, 0);
    // 14 integer arguments (6 in registers, 8 on the stack) and the 14-integer + 12-double callee (4 doubles on the stack); every boundary value visits every position
    static const int ids[] = { NCALLEE_OLD, NCALLEE_OLD + 1, NCALLEE_OLD + 7 };
    for (int id : ids) {
      int nd_seen = 0;
      std::vector<int> imm_ok(g_sigs[id].n, 1);
      for (int k = 0; k < g_sigs[id].n; k++) if (g_sigs[id].kind[k] == AK_F64) { imm_ok[k] = nd_seen >= 8; nd_seen++; }
      int dval = -1;
      for (int j = 0; j < nb; j++) {
        Op o; o.opc = O_CALL; o.imm = id;
        for (int k = 0; k < g_sigs[id].n; k++) {
          if (imm_ok[k]) o.args.push_back(SI((i64)kB[(k + j) % nb]));
          else { if (dval < 0) { dval = b.val(KIND_D, 8); b.load(dval, 16); } o.args.push_back(SR(dval)); }
        }
        b.ops().push_back(o);
      }
    }
    b.finish(v);
    return b.P;
  }
  if (name == "call-stack-area-max-over-invokes") {
    ProbeBuilder b;
    b.P.use_stack = true;
    for (int off = 0; off < STK_SIZE; off += 8) {
      Op st; st.opc = O_STORE; st.w = 8; st.s = SI(0x1111 * (off + 1)); MemRef m; m.space = M_STK; m.off = off; st.s2 = SM(m);
      b.P.blocks[0].ops.push_back(st);
    }
    std::vector<int> v;
    for (int i = 0; i < 24; i++) { v.push_back(b.val(KIND_G, 8)); b.load(v.back(), 8 * i); }
    int t = b.val(KIND_G, 8), t2 = b.val(KIND_G, 8);
    { Op st; st.opc = O_STORE; st.w = 8; st.s = SR(v[3]); MemRef m; m.space = M_STK; m.off = 8; st.s2 = SM(m); b.ops().push_back(st); }
    { Op st; st.opc = O_STORE; st.w = 8; st.s = SR(v[5]); MemRef m; m.space = M_STK; m.off = 72; st.s2 = SM(m); b.ops().push_back(st); }
    // big call first: 14 integer arguments = 64 bytes of stack arguments (SysV x86-64) ...
    { Op o; o.opc = O_CALL; o.imm = NCALLEE_OLD; for (int k = 0; k < g_sigs[NCALLEE_OLD].n; k++) o.args.push_back(SR(v[k])); b.ops().push_back(o); }
    // ... another big one with 12 doubles passed as integer bit patterns is not needed; the small call comes last
    b.call0();
    { Op o; o.opc = O_MOV; o.w = 8; o.d = t; MemRef m; m.space = M_STK; m.off = 8; o.s = SM(m); b.ops().push_back(o); }
    { Op o; o.opc = O_MOV; o.w = 8; o.d = t2; MemRef m; m.space = M_STK; m.off = 72; o.s = SM(m); b.ops().push_back(o); }
    for (int i = 0; i < 24; i++) { Op o; o.opc = O_ALU; o.sub = A_ADD; o.w = 8; o.d = v[i]; o.s = SI(i + 1); b.ops().push_back(o); }
    b.finish(t);
    return b.P;
  }
  if (name == "vpternlog-merge-masked") {
    ProbeBuilder b(MODE_AVX512);
    b.P.phys_k = 1;
    int v = b.val(KIND_V, 64), v2 = b.val(KIND_V, 64), t = b.val(KIND_G, 4, false);
    b.load(v, 0); b.load(v2, 64);
    b.call0();
    { Op o; o.opc = O_MOV; o.w = 4; o.d = t; o.s = SI(0xFF); b.ops().push_back(o); }
    { Op o; o.opc = O_VTERN; o.w = 64; o.d = v; o.a = v; o.s = SR(v); o.imm = 0xFF; o.cc = 1; o.b = t; b.ops().push_back(o); }
    { Op o; o.opc = O_VTERN; o.w = 64; o.d = v2; o.a = v2; o.s = SR(v2); o.imm = 0x00; o.cc = 1; o.b = t; b.ops().push_back(o); }
    { Op st; st.opc = O_VSTORE; st.w = 64; st.a = v; st.s2 = SM(ProbeBuilder::M(128)); b.ops().push_back(st); }
    b.finish(-1);
    return b.P;
  }
  if (name == "same-reg-hint-different-views") {
    ProbeBuilder b;
    int v1 = b.val(KIND_G, 4), v2 = b.val(KIND_G, 4), v3 = b.val(KIND_G, 4);
    b.load(v1, 0); b.load(v2, 8); b.load(v3, 16);
    b.call0();
    { Op st; st.opc = O_STORE; st.w = 4; st.s = SR(v1); st.s2 = SM(ProbeBuilder::M(32)); b.ops().push_back(st); }
    { Op o; o.opc = O_HI8; o.w = 1; o.sub = 4; o.d = v1; b.ops().push_back(o); }             // xchg v1.r8(), v1.r8_hi()
    { Op o; o.opc = O_HI8; o.w = 1; o.sub = 5; o.d = v2; o.a = v2; b.ops().push_back(o); }   // xor v2.r8(), v2.r8_hi()
    { Op o; o.opc = O_HI8; o.w = 1; o.sub = 6; o.d = v3; o.a = v3; b.ops().push_back(o); }   // xor v3.r8_hi(), v3.r8()
    b.call0();
    b.finish(v1);
    return b.P;
  }
  // unreachable-predecessor
  ProbeBuilder b;
  int a = b.val(KIND_G, 4), c = b.val(KIND_G, 4);
  b.load(a, 0);
  { Op o; o.opc = O_MOV; o.w = 4; o.d = c; o.s = SI(3); b.P.blocks[0].ops.push_back(o); }
  b.P.blocks[1].term.kind = T_JMP; b.P.blocks[1].term.target = 3;
  int u = b.nblock();   // block 2: unreachable, falls through into the loop
  { Op o; o.opc = O_ALU; o.sub = A_ADD; o.w = 4; o.d = a; o.s = SI(1); b.P.blocks[u].ops.push_back(o); }
  int l = b.nblock();   // block 3: loop
  { Op o; o.opc = O_ALU; o.sub = A_ADD; o.w = 4; o.d = a; o.s = SR(c); b.P.blocks[l].ops.push_back(o); }
  b.P.blocks[l].term.kind = T_DEC; b.P.blocks[l].term.a = c; b.P.blocks[l].term.w = 4; b.P.blocks[l].term.target = l;
  b.finish(a);
  return b.P;
}

static bool run_probe_mode(const Args& args, Counters& ctr, std::vector<ViolationOut>& viols, std::vector<std::string>& harness_errors, std::string& extra_json,
                           bool host512) {
  std::string only = args.str("name", "");
  int ninputs = (int)args.u64("inputs", 16);
  JitRuntime rt; g_rt = &rt;
  init_exec_env();
  std::string failed = "[";
  for (int i = 0; i < kNProbes; i++) {
    const ProbeDef& pd = kProbes[i];
    if (!only.empty() && only != pd.name) continue;
    if (pd.needs512 && !host512) continue;
    if (std::string(pd.name) == "a64-tbl-register-list") {
      ListProgram L; L.kind = 0; L.nvals = 6; L.nz = 0;
      { LOp o; o.kind = L_LD; o.n = 4; o.v[0] = 0; o.v[1] = 1; o.v[2] = 2; o.v[3] = 3; L.ops.push_back(o); }
      { LOp o; o.kind = L_LD; o.n = 2; o.v[0] = 4; o.v[1] = 5; L.ops.push_back(o); }
      { LOp o; o.kind = L_TBL; o.n = 2; o.v[0] = 3; o.v[1] = 1; o.d = 4; o.a = 5; L.ops.push_back(o); }
      { LOp o; o.kind = L_TBX; o.n = 3; o.v[0] = 2; o.v[1] = 0; o.v[2] = 5; o.d = 4; o.a = 1; L.ops.push_back(o); }
      for (int k = 0; k < 6; k++) { LOp o; o.kind = L_ST; o.n = 1; o.v[0] = k; o.slot = k; L.ops.push_back(o); }
      ctr.programs++; ctr.evaluations++;
      TaskResult tr = run_child_task([&](std::string& out) {
        Compiled comp;
        bool ok = compile_list_a64(L, comp);
        out = ok ? "0\n" : std::string("4\n") + "Compiler " + comp.stage + " failed: " + DebugUtils::error_as_string(comp.err) + " (" + comp.errmsg + ")";
      });
      if (tr.ok && atoi(tr.out.c_str()) == 0) continue;
      if (failed.size() > 1) failed += ",";
      failed += "{\"name\":" + jstr(pd.name) + ",\"avoid\":" + std::to_string(pd.avoid_bit) + "}";
      std::string w = tr.ok ? tr.out.substr(tr.out.find('\n') + 1) : std::string("the Compiler crashed (see sanitizer report)");
      add_violation(viols, std::string("a64:probe:") + pd.name, std::string(pd.what) + " -- observed: " + w, serialise_list(L), (u64)i);
      continue;
    }
    Program P = build_probe(pd.name);
    if (g_trace) fprintf(stderr, "%s\n", serialise(P).c_str());
    count_program(ctr, P);
    ctr.evaluations++;
    Rng ir(0xC05 + i);
    std::vector<RunInput> inputs;
    make_inputs(ir, ninputs, inputs);
    TaskResult tr = run_child_task([&](std::string& out) {
      Compiled comp;
      Verdict v = check_program(P, inputs, comp, nullptr, true);
      out = std::to_string(v.kind) + "\n" + v.what;
    });
    int kind = -1; std::string what;
    if (tr.ok) { kind = atoi(tr.out.c_str()); what = tr.out.substr(tr.out.find('\n') + 1); }
    if (tr.ok && kind == 5) { harness_errors.push_back(std::string("probe ") + pd.name + ": " + what); continue; }
    if (tr.ok && kind == 0) continue;
    if (failed.size() > 1) failed += ",";
    failed += "{\"name\":" + jstr(pd.name) + ",\"avoid\":" + std::to_string(pd.avoid_bit) + "}";
    std::string w = tr.ok ? what : ("the Compiler crashed (signal " + std::to_string(tr.sig) + ", exit code " + std::to_string(tr.exitcode) + ", see sanitizer report)");
    add_violation(viols, std::string("x64:probe:") + pd.name, std::string(pd.what) + " -- observed: " + w, serialise(P), (u64)i);
  }
  extra_json = ",\"probe_failed\":" + failed + "]";
  return true;
}

// ---------------------------------------------------------------------------------------------------------------
// main
// ---------------------------------------------------------------------------------------------------------------

int main(int argc, char** argv) {
  Args args(argc, argv);
  std::string mode = args.str("mode", "x64");
  u64 seed = args.u64("seed", 1);
  u64 first = args.u64("first", 0);
  u64 count = args.u64("count", 10);
  int ninputs = (int)args.u64("inputs", 16);
  int shrink_budget = (int)args.u64("shrink", 250);
  bool annotate = args.u64("annotate", 1) != 0;
  bool dump = args.has("dump");
  g_trace = args.has("trace");
  g_trace_val = (int)args.u64("trace-val", (u64)-1);
  g_keep_unreachable = args.u64("unreachable", 1) != 0;
  g_avoid = (u32)args.u64("avoid", 0);
  std::string only_profile = args.str("profile", "");
  if (ninputs > NINPUTS_MAX) ninputs = NINPUTS_MAX;

  init_callee_sigs();
  CalleeInit<NCALLEE - 1>::run();
  const CpuInfo& cpu = CpuInfo::host();
  bool host512 = cpu.features().x86().has_avx512_f() && cpu.features().x86().has_avx512_bw() && cpu.features().x86().has_avx512_dq() &&
                 cpu.features().x86().has_avx512_vl();
  bool host_avx2 = cpu.features().x86().has_avx2();
  g_trash_avx512 = host512;
  g_trash_avx = host_avx2;

  Counters ctr;
  std::vector<ViolationOut> viols;
  std::vector<std::string> harness_errors;
  std::string extra_json;

  if (mode == "x64" || mode == "shapes") {
    JitRuntime rt;
    g_rt = &rt;
    init_exec_env();
    u64 nshapes = shape_count();
    struct Pending { Program P; std::vector<RunInput> inputs; std::vector<RunResult> ref; Compiled comp; Verdict v; u64 idx; u64 ph; };
    std::vector<Pending*> pending;
    std::map<std::string, int> shrunk_per_key;
    int total_shrinks = 0;
    int batch = (int)args.u64("batch", 24);
    if (batch > BATCH_MAX) batch = BATCH_MAX;
    if (batch * ninputs > NINPUTS_MAX * BATCH_MAX) batch = NINPUTS_MAX * BATCH_MAX / ninputs;
    auto flush = [&]() {
      std::vector<ExecItem> items;
      std::vector<Pending*> owners;
      for (Pending* pd : pending) {
        if (pd->v.kind == 4) continue;
        ExecItem it; it.fn = pd->comp.fn; it.P = &pd->P; it.inputs = &pd->inputs;
        items.push_back(it); owners.push_back(pd);
      }
      if (!items.empty()) exec_native_batch(items);
      for (size_t i = 0; i < items.size(); i++) {
        owners[i]->v = compare_results(owners[i]->P, owners[i]->inputs, owners[i]->ref, items[i]);
        g_rt->release(owners[i]->comp.fn);
      }
      for (Pending* pd : pending) {
        const Program& P = pd->P;
        Verdict& v = pd->v;
        Compiled& comp = pd->comp;
        u64 idx = pd->idx;
        if (v.kind == 5) { harness_errors.push_back("program " + std::to_string(idx) + " (" + P.profile + "): " + v.what); delete pd; continue; }
        if (v.kind != 4) {
          ctr.inputs_run += pd->inputs.size();
          ctr.loads += comp.st.loads; ctr.saves += comp.st.saves; ctr.moves += comp.st.moves; ctr.swaps += comp.st.swaps;
          ctr.rm_subst += comp.st.rm_subst; ctr.user_insts += comp.st.user_insts;
          if (comp.st.nontrivial()) { ctr.nontrivial++; ctr.distinct_nontrivial.insert(pd->ph); }
        }
        else ctr.compile_errors++;
        if (v.kind != 0) {
          // shrink and report
          int attempts = 0;
          Program S = P;
          RunInput fin = pd->inputs[v.input >= 0 ? v.input : 0];
          static const char* kinds0[] = { "ok", "miscompile", "crash", "hang", "finalize-error", "harness" };
          std::string k0 = std::string(kinds0[v.kind]) + ":" + P.profile;
          // shrinking is expensive: only the first two failures of a kind/profile per process are shrunk
          if (shrink_budget > 0 && v.kind != 3 /* every attempt on a hang costs the CPU-time limit */ && shrunk_per_key[k0]++ < 2 && total_shrinks++ < 3) S = shrink_program(P, fin, v.kind, shrink_budget, attempts);
          Compiled c2;
          std::vector<RunInput> one(1, fin);
          Verdict v2 = check_program(S, one, c2, nullptr, false);
          ViolationOut vo;
          static const char* kinds[] = { "ok", "miscompile", "crash", "hang", "finalize-error", "harness" };
          std::string cls = P.profile;
          if (mode == "shapes") cls = "shape";
          vo.key = std::string("x64:") + kinds[v.kind] + ":" + cls;
          if (v.kind == 4) vo.key = std::string("x64:finalize-error:") + DebugUtils::error_as_string(comp.err);
          vo.what = v.what + " | profile=" + P.profile + " index=" + std::to_string(idx) + " | after shrinking (" + std::to_string(attempts) + " attempts): " +
                    (v2.kind ? v2.what : std::string("(shrunk program no longer fails; witness is the original)"));
          vo.witness = serialise(v2.kind ? S : P) + "input: " + input_to_string(fin);
          vo.index = idx; vo.input = v.input;
          viols.push_back(vo);
        }
        delete pd;
      }
      pending.clear();
    };
    for (u64 idx = first; idx < first + count; idx++) {
      Rng pr = Rng(seed * 0x9E3779B97F4A7C15ull + 0xC05).fork(idx + (mode == "shapes" ? 0x5000000 : 0));
      const Profile* pf;
      i64 shape_idx = -1;
      if (mode == "shapes") {
        if (idx >= nshapes * 3) break;
        shape_idx = (i64)(idx % nshapes);
        pf = &kProfilesShape[(idx / nshapes) % 3];
      }
      else {
        pf = &pick_profile_x64(idx);
        if (!only_profile.empty()) {
          pf = nullptr;
          for (int i = 0; i < kNProfilesX64; i++) if (only_profile == kProfilesX64[i].name) pf = &kProfilesX64[i];
          for (size_t i = 0; i < sizeof(kProfilesDbg) / sizeof(kProfilesDbg[0]); i++) if (only_profile == kProfilesDbg[i].name) pf = &kProfilesDbg[i];
          if (!pf) { fprintf(stderr, "unknown profile\n"); return 3; }
        }
      }
      Profile pfl = *pf;
      if (pfl.mode == MODE_AVX512 && !host512) pfl.mode = host_avx2 ? MODE_AVX : MODE_SSE;
      if (pfl.mode == MODE_AVX && !host_avx2) pfl.mode = MODE_SSE;
      if (pfl.mode != MODE_AVX512) { pfl.nk_lo = pfl.nk_hi = 0; pfl.w_mask = 0; }
      Program P = gen_program(pr, pfl, shape_idx);
      std::vector<RunInput> inputs;
      Rng ir = pr.fork(0x1297);
      make_inputs(ir, ninputs, inputs);
      if (dump) { printf("%s\n", serialise(P).c_str()); }
      count_program(ctr, P);
      u64 ph = program_hash(P);
      ctr.distinct_all.insert(ph);
      ctr.shapes_seen.insert(cfg_shape_hash(P));
      int ml = measure_max_live(P);
      ctr.max_live = std::max(ctr.max_live, ml);
      ctr.live_hist[ml < 8 ? 0 : ml < 17 ? 1 : ml < 33 ? 2 : ml < 65 ? 3 : ml < 129 ? 4 : 5]++;
      if (cfg_has_irreducible_hint(P)) ctr.by_shape_kind["has-retreating-non-loop-edge"]++;
      for (const Block& b : P.blocks) if (b.term.kind == T_SWITCH) { ctr.by_shape_kind["has-jump-table"]++; break; }
      for (const Block& b : P.blocks) if (b.term.kind == T_DEC) { ctr.by_shape_kind["has-counted-loop"]++; break; }

      Pending* pd = new Pending();
      pd->P = P; pd->inputs = inputs; pd->idx = idx; pd->ph = ph;
      if (!reference_run(pd->P, pd->inputs, pd->ref, &ctr, pd->v)) {
        harness_errors.push_back("program " + std::to_string(idx) + " (" + P.profile + "): " + pd->v.what);
        delete pd; continue;
      }
      ctr.evaluations++;
      if (!compile_x86(pd->P, pd->comp, annotate)) {
        pd->v.kind = 4;
        pd->v.what = "Compiler " + pd->comp.stage + " failed: " + std::string(DebugUtils::error_as_string(pd->comp.err)) + " (" + pd->comp.errmsg + ")";
      }
      pending.push_back(pd);
      if ((int)pending.size() >= batch) flush();
      // a tree this broken does not need more witnesses from this shard
      if (viols.size() >= 12) { ctr.ops_by_kind["shard-stopped-after-12-violations"]++; break; }
    }
    flush();
  }
  else if (mode == "x86") {
    std::string progs = "[";
    bool firstp = true;
    for (u64 idx = first; idx < first + count; idx++) {
      Rng pr = Rng(seed * 0x9E3779B97F4A7C15ull + 0x86).fork(idx + 0x8600000);
      Profile pfl = kProfilesX86[idx % kNProfilesX86];
      if (pfl.mode != MODE_AVX512) { pfl.nk_lo = pfl.nk_hi = 0; pfl.w_mask = 0; }
      Program P = gen_program(pr, pfl, -1);
      if (dump) printf("%s\n", serialise(P).c_str());
      count_program(ctr, P);
      u64 ph = program_hash(P);
      ctr.distinct_all.insert(ph);
      ctr.shapes_seen.insert(cfg_shape_hash(P));
      ctr.max_live = std::max(ctr.max_live, measure_max_live(P));
      Compiled comp;
      bool ok = compile_x86(P, comp, annotate);
      ctr.evaluations++;
      if (!ok) {
        ctr.compile_errors++;
        ViolationOut vo;
        vo.key = std::string("x86-32:finalize-error:") + DebugUtils::error_as_string(comp.err);
        vo.what = "x86-32 Compiler " + comp.stage + " failed: " + DebugUtils::error_as_string(comp.err) + " (" + comp.errmsg + ") profile=" + P.profile +
                  " index=" + std::to_string(idx);
        vo.witness = serialise(P); vo.index = idx; vo.input = -1;
        viols.push_back(vo);
        continue;
      }
      ctr.loads += comp.st.loads; ctr.saves += comp.st.saves; ctr.moves += comp.st.moves; ctr.swaps += comp.st.swaps;
      ctr.rm_subst += comp.st.rm_subst; ctr.user_insts += comp.st.user_insts;
      if (comp.st.nontrivial()) { ctr.nontrivial++; ctr.distinct_nontrivial.insert(ph); }
      if (!firstp) progs += ",";
      firstp = false;
      progs += "{\"index\":" + std::to_string(idx) + ",\"profile\":" + jstr(P.profile) + ",\"code_end\":" + std::to_string(comp.code_end) + ",\"data\":" + comp.data_json +
               ",\"user_insts\":" + std::to_string(comp.st.user_insts) + ",\"hex\":\"" + hexstr(comp.code.data(), comp.code.size()) + "\"}";
    }
    progs += "]";
    extra_json = ",\"compiled\":" + progs;
  }
  else if (mode == "probe") {
    run_probe_mode(args, ctr, viols, harness_errors, extra_json, host512);
  }
  else if (!run_other_mode(mode, args, ctr, viols, harness_errors, extra_json)) {
    fprintf(stderr, "unknown mode %s\n", mode.c_str());
    return 3;
  }

  std::string out = "{";
  out += "\"mode\":" + jstr(mode);
  out += ",\"violations\":[";
  for (size_t i = 0; i < viols.size(); i++) {
    if (i) out += ",";
    out += "{\"key\":" + jstr(viols[i].key) + ",\"what\":" + jstr(viols[i].what) + ",\"witness\":" + jstr(viols[i].witness) +
           ",\"index\":" + std::to_string(viols[i].index) + ",\"input\":" + std::to_string(viols[i].input) + "}";
  }
  out += "],\"harness_errors\":[";
  for (size_t i = 0; i < harness_errors.size(); i++) { if (i) out += ","; out += jstr(harness_errors[i]); }
  out += "]";
  out += ",\"programs\":" + std::to_string(ctr.programs) + ",\"evaluations\":" + std::to_string(ctr.evaluations);
  out += ",\"inputs_run\":" + std::to_string(ctr.inputs_run) + ",\"nontrivial\":" + std::to_string(ctr.nontrivial);
  out += ",\"compile_errors\":" + std::to_string(ctr.compile_errors);
  out += ",\"loads\":" + std::to_string(ctr.loads) + ",\"saves\":" + std::to_string(ctr.saves) + ",\"moves\":" + std::to_string(ctr.moves);
  out += ",\"swaps\":" + std::to_string(ctr.swaps) + ",\"rm_subst\":" + std::to_string(ctr.rm_subst) + ",\"user_insts\":" + std::to_string(ctr.user_insts);
  out += ",\"calls_logged\":" + std::to_string(ctr.calls_logged) + ",\"dyn_ops\":" + std::to_string(ctr.dyn_ops);
  out += ",\"max_live\":" + std::to_string(ctr.max_live) + ",\"max_vals\":" + std::to_string(ctr.max_vals);
  out += ",\"by_profile\":" + json_map(ctr.by_profile) + ",\"cfg_kinds\":" + json_map(ctr.by_shape_kind);
  out += ",\"ops_by_kind\":" + json_map(ctr.ops_by_kind) + ",\"term_by_kind\":" + json_map(ctr.term_by_kind);
  out += ",\"live_hist\":[";
  for (int i = 0; i < 6; i++) { if (i) out += ","; out += std::to_string(ctr.live_hist[i]); }
  out += "]";
  auto set_json = [](const std::set<u64>& s) { std::string r = "["; bool f = true; for (u64 x : s) { if (!f) r += ","; f = false; r += "\"" + hexstr(&x, 8) + "\""; } return r + "]"; };
  out += ",\"distinct_nontrivial\":" + set_json(ctr.distinct_nontrivial);
  out += ",\"distinct_all\":" + std::to_string(ctr.distinct_all.size());
  out += ",\"cfg_shapes\":" + set_json(ctr.shapes_seen);
  out += extra_json;
  out += "}";
  printf("%s\n", out.c_str());
  return 0;
}
